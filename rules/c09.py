"""C09 — tee children all see the full source sequence under every interleaving.

The schedule-quantified conclusion is a hand argument (DESIGN.md §4 appendix) from the
following premises, each a necessary condition with a concrete bad schedule if broken; the
tool decides the premises on the CFG of ``tee_peer`` / ``Tee``:

R09.1 the source pull lies inside the ``async with lock`` region on every path.
R09.2 double check: every path from acquiring the lock to the pull passes a test of the
      child's own buffer and takes its *empty* branch.
R09.3 atomic broadcast: between the normal completion of the pull and the end of the loop
      that appends the item to *every* peer buffer there is no suspension point, and the
      loop covers the whole shared list unconditionally.
R09.4 FIFO orientation: producer end and consumer end of a buffer are opposite; the yielded
      value is obtained by a *removing* read of the child's own buffer.
R09.5 own-buffer identity: ``Tee`` hands each child a distinct fresh buffer that is an
      element of the one shared list passed to all children.
R09.6 a finishing child removes its buffer and the last one closes the source (= R04.5).
R09.7 no other writer: buffers / the shared list are appended to only in ``tee_peer``; the
      only other mutation is removal (child's finally, ``Tee.aclose`` after closing children).
"""
from __future__ import annotations

import ast
from typing import List, Optional, Set

from asl.cfg import Node, cfg_of
from asl.flow import find_path, pretty_path, reachable
from asl.loader import AnalysisError, norm, own_nodes
from asl.values import roles_of_annotation
from . import c04
from .common import real_units

LEVEL = {
    "decided": "C09 (premises of the hand proof): (R09.1) the source is pulled only while the lock is held; (R09.2) the "
               "own buffer is re-checked after acquiring the lock; (R09.3) pull-completion -> append to every live "
               "buffer has no suspension point and covers the whole shared list; (R09.4) append/popleft at opposite "
               "ends, yield by a removing read; (R09.5) each child owns a distinct element of the shared list; (R09.6) "
               "finished children drop their buffer, the last closes the source; (R09.7) no other writer; (R09.8) the caller's "
               "lock is replaced by the no-op lock only when it is None (never by truthiness); (R09.2) also: buffered items "
               "are served without requesting the lock.",
    "not_decided": "the schedule-quantified conclusion itself (every child yields the source sequence in order under "
                   "every interleaving) — it follows from these premises by the atomicity argument written in DESIGN.md, "
                   "which the tool does not check.",
    "technique": "static analysis: lock-region, check-then-act and atomic-segment rules on the CFG",
}
LEVEL["decided"] += ' (R09.10) every history of next / close operations on 2-3 children over up to 3 items (object model, 1700 operations) equals itertools.tee per child; R09.5 is read off the evaluated construction.'
LEVEL["decided"] += " (R09.11) no value an item could have is read as 'the source is exhausted' (R01.7, shared); a pull through anext(source, default) is recognised as the pull site."
LEVEL["decided"] += ' (R09.12) a child leaves its loop only after the StopAsyncIteration of its own pull (decided on paths, with boolean flags tracked).'
LEVEL["technique"] += '; operation histories of the evaluated tee (object model with generator frames) against the executed itertools.tee'
LEVEL["decided"] += " (R09.13) the tee object refers to its children's buffers only through the list a finished child removes its buffer from (R20.8, shared); R09.6 also: the source is closed nowhere but in the clean-up conditioned on 'no buffer remains'."
LEVEL["decided"] += " (R09.14) after every sequence of next / close operations that leaves every child done, the source is closed or exhausted (R04.9's tee histories, shared; the open finding F15 is visible here as well); the end of the source may be recognised by the private marker handed to anext() as its default."

SUSPEND = ("await", "yield", "pull", "enter", "exit_cm")


def _params(u):
    out = {}
    for p in u.params():
        roles = roles_of_annotation(p.annotation)
        text = norm(p.annotation) if p.annotation is not None else ""
        if "ACM" in roles:
            out["lock"] = p.arg
        elif text.startswith("List[") or text.startswith("list["):
            out["peers"] = p.arg
        elif text.startswith("Deque[") or text.startswith("deque["):
            out["buffer"] = p.arg
        elif "ITERATOR" in roles or "ITERABLE" in roles:
            out["iterator"] = p.arg
    if set(out) != {"lock", "peers", "buffer", "iterator"}:
        raise AnalysisError(f"tee_peer parameters could not be identified by annotation: {out} (anchor moved)")
    return out


def lock_free_service(ctx, rid: str) -> None:
    """A child whose buffer holds items serves them without waiting for the lock (a lagging
    child must not wait for a sibling that is blocked in the source while holding it)."""
    u = ctx.inlined(ctx.unit("itertools.tee_peer"))
    cfg = cfg_of(u)
    P = _params(u)
    main = [n for n in cfg.nodes if not n.tag and not any(k == "finally" for (k, _a) in n.regions)]
    enters = [n for n in main if n.kind == "enter" and isinstance(n.info.get("cm"), ast.Name)
              and n.info["cm"].id == P["lock"]]

    def is_buffer_test(n: Node) -> bool:
        return n.kind == "branch" and isinstance(n.ast, ast.Name) and n.ast.id == P["buffer"]

    starts = [cfg.entry] + [n for n in main if n.kind == "yield"]
    for e in enters:
        for st in starts:
            path = find_path(st, lambda x: x is e, avoid=lambda x: x.kind == "yield",
                             edge_ok=lambda a, lab, b: lab not in ("e", "p", "h") and not (is_buffer_test(a) and lab == "f"))
            ctx.check(path is None, rid, u, e,
                      "the lock is only requested after the own buffer was found empty: buffered items are yielded "
                      "without waiting for the lock", node=e, witness=pretty_path(path))


def _flag_path(starts, goal, avoid, blocked_edges=frozenset()):
    """A normal-edge path from ``starts`` to ``goal`` that avoids ``avoid`` - keeping track of boolean locals that are
    assigned constants on the way (``ok = False`` ... ``if not ok: break``), so that a flag set in a handler and tested later
    does not look like a way around the handler."""
    seen = set()
    work = [(s, frozenset(), (s,)) for s in starts]
    while work:
        n, flags, path = work.pop()
        key = (n, flags)
        if key in seen or n in avoid:
            continue
        seen.add(key)
        if n is goal:
            return list(path)
        known = dict(flags)
        if n.kind == "store":
            val = n.info.get("value")
            for t in n.info.get("targets", []):
                if isinstance(t, ast.Name):
                    if isinstance(val, ast.Constant) and isinstance(val.value, bool):
                        known[t.id] = val.value
                    else:
                        known.pop(t.id, None)
        for lab, s in n.succ:
            if lab in ("e", "p", "h") or (n, lab) in blocked_edges:
                continue
            if n.kind == "branch" and lab in ("t", "f"):
                t_ = n.ast
                neg = False
                while isinstance(t_, ast.UnaryOp) and isinstance(t_.op, ast.Not):
                    t_, neg = t_.operand, not neg
                if isinstance(t_, ast.Name) and t_.id in known:
                    outcome = known[t_.id] != neg
                    if (lab == "t") != outcome:
                        continue
            work.append((s, frozenset(known.items()), path + (s,)))
    return None


def r09_12(ctx, u, cfg, main) -> None:
    """A child ends by itself only when the source told *it* that it is exhausted."""
    ctx.rule("R09.12", "a child leaves its loop only after the StopAsyncIteration of its own pull (nothing else - the size of the "
                       "shared list, a sibling having finished - is read as \"the source is exhausted\": a sibling that was "
                       "cancelled or closed also leaves the list)")
    loops = [a for n in main for (k, a) in n.regions if k == "loop" and isinstance(a, ast.While)]
    outer = loops[0] if loops else None
    if outer is None:
        return
    heads = [n for n in main if n.ast is outer and n.kind == "nop"] or [n for n in main if n.ast is outer]
    stop_handlers = {n for n in main if n.kind == "handler" and "StopAsyncIteration" in norm(n.info.get("type"))}
    exits = []
    for n in main:
        if not n.in_region("loop", outer) or any(k == "finally" for (k, _a) in n.regions):
            continue
        innermost = [a for (k, a) in n.regions if k == "loop"]
        if isinstance(n.ast, ast.Break) and getattr(n.ast, "asl_inline_return", False):
            continue  # (the end of an inlined helper's body, not a statement of the loop)
        if (isinstance(n.ast, ast.Break) and innermost and innermost[-1] is outer) or n.kind == "return":
            exits.append(n)
            continue
        for lab, s_ in n.succ:
            if lab in ("n", "t", "f", "stop") and not s_.in_region("loop", outer) and s_.kind != "raise_exit" and s_.ast is not outer \
                    and not (isinstance(n.ast, ast.Break)):
                exits.append(n)
    marker_edges = _marker_edges(ctx, u, cfg, main)
    for x in exits:
        path = _flag_path(heads, x, stop_handlers, frozenset(marker_edges))
        ctx.check(path is None, "R09.12", u, x.stmt if x.stmt is not None else x.ast,
                  "the loop is left only after the pull's StopAsyncIteration was seen in this round", node=x,
                  witness=pretty_path(path))


def _marker_edges(ctx, u, cfg, main) -> set:
    """(branch, label) on which the value of ``await anext(it, MARK)`` *is* the private marker MARK handed to anext() as
    its default: the same evidence of exhaustion as entering a StopAsyncIteration handler."""
    from asl.flow import reaching
    rd = reaching(cfg)
    marker_edges = set()
    for b in main:
        t = b.ast
        if b.kind != "branch" or not (isinstance(t, ast.Compare) and len(t.ops) == 1 and isinstance(t.ops[0], (ast.Is, ast.IsNot))
                                      and isinstance(t.left, ast.Name) and isinstance(t.comparators[0], ast.Name)):
            continue
        for val, mark in ((t.left, t.comparators[0]), (t.comparators[0], t.left)):
            defs = list(rd.defs_at(b, val.id))
            ok = bool(defs) and {a[0] for a in ctx.vals.expr(u, mark, b)} <= {"sentinel"} and bool(ctx.vals.expr(u, mark, b))
            for d in defs:
                v = d.info.get("value") if d.kind == "store" else None
                call = v.value if isinstance(v, ast.Await) else v
                if not (isinstance(call, ast.Call) and norm(call.func).split(".")[-1] == "anext" and len(call.args) == 2
                        and norm(call.args[1]) == mark.id):
                    ok = False
            if ok:
                marker_edges.add((b, "t" if isinstance(t.ops[0], ast.Is) else "f"))
                break
    return marker_edges


def run(ctx) -> None:
    ctx.rule("R09.1", "source pull inside the async-with-lock region")
    ctx.rule("R09.2", "own buffer re-checked (empty branch) between lock acquisition and pull")
    ctx.rule("R09.3", "no suspension between pull completion and the end of the unconditional broadcast loop")
    ctx.rule("R09.4", "producer and consumer ends opposite; yield by removing read of own buffer")
    ctx.rule("R09.5", "each child gets a distinct fresh element of the one shared buffer list")
    ctx.rule("R09.6", "finishing child removes its buffer; last closes the source (R04.5)")
    ctx.rule("R09.7", "no other writer of buffers / shared list")
    from . import c01
    from .common import Relabel
    ctx.rule("R09.14", "children that are done really leave: after every sequence of next / close operations that leaves every child "
                       "done, the last one found the shared list empty and closed the source (a child whose buffer stays registered "
                       "keeps being served and is never the last; R04.9's tee histories, shared)")
    ctx.rule("R09.13", "an item is retained only while a live child still has to yield it: the tee object refers to its children's "
                       "buffers only through the list a finished child removes its buffer from (R20.8, shared)")
    ctx.rule("R09.11", "every item of the source reaches every child: no value an item could have (None, a constant) is read as "
                       "\"the source is exhausted\" (R01.7, shared)")
    c01.r01_7(Relabel(ctx, "R09.11"))
    ctx.assume("a coroutine runs without interleaving between two suspension points")
    ctx.assume("deque: append = right end, appendleft = left end, popleft = left end, pop = right end")
    u = ctx.inlined(ctx.unit("itertools.tee_peer"))
    cfg = cfg_of(u)
    P = _params(u)
    src = f"{u.short}:{P['iterator']}"
    main = [n for n in cfg.nodes if not n.tag and not any(k == "finally" for (k, _a) in n.regions)]
    pulls = [n for n in main if n.kind == "await" and any(
        a[0] == "usernext" and a[1] == src for a in ctx.vals.expr(u, n.info.get("value"), n))]
    pulls += [n for n in main if n.kind == "pull" and any(
        a[0] in ("user", "iter") and a[1] == src for a in ctx.vals.expr(u, n.info.get("iter"), n))]
    # ... or through the library's anext(source[, default])
    for n in main:
        call = n.info.get("value") if n.kind == "await" else None
        if n not in pulls and isinstance(call, ast.Call) and call.args:
            r = ctx.pkg.resolve_expr_global(u.module, call.func)
            t = ctx.pkg.lib_unit(r.qual) if r.kind == "lib" else None
            if t is not None and ctx.pkg.canonical(t) == "builtins.anext" and any(
                    a[0] in ("user", "iter") and a[1] == src for a in ctx.vals.expr(u, call.args[0], n)):
                pulls.append(n)
    ctx.count("pull_sites", len(pulls))
    if not pulls:
        raise AnalysisError("tee_peer: no pull of the source iterator found (anchor moved)")
    r09_12(ctx, u, cfg, main)
    enters = [n for n in main if n.kind == "enter" and isinstance(n.info.get("cm"), ast.Name)
              and n.info["cm"].id == P["lock"]]

    def is_buffer_test(n: Node) -> bool:
        return n.kind == "branch" and isinstance(n.ast, ast.Name) and n.ast.id == P["buffer"]

    lock_free_service(ctx, "R09.2")
    for pull in pulls:
        # R09.1
        in_lock = [a for (k, a) in pull.regions if k == "with" and isinstance(a.context_expr, ast.Name)
                   and a.context_expr.id == P["lock"]]
        ctx.check(bool(in_lock), "R09.1", u, pull, "the source is advanced only while the lock is held", node=pull)
        # R09.2
        for e in enters:
            path = find_path(e, lambda x: x is pull, avoid=None,
                             edge_ok=lambda a, lab, b: lab not in ("e", "p") and not (is_buffer_test(a) and lab == "f"))
            ctx.check(path is None, "R09.2", u, pull,
                      "after acquiring the lock the own buffer is tested again and the source is pulled only if it "
                      "is still empty (a peer may have filled it while this child waited for the lock)",
                      node=pull, witness=pretty_path(path))
        # R09.3
        item_names = _bound_names(pull)
        loops = _broadcast_loops(cfg, main, P, item_names)
        ctx.check(bool(loops), "R09.3", u, pull, "the pulled item is appended to the peers' buffers in a loop over the "
                  "shared list", node=pull)
        stops = {s for loop in loops for (lab, s) in loop.succ if lab == "stop"}
        start = [s for (lab, s) in pull.succ if lab == "n"]

        exhausted_edges = _marker_edges(ctx, u, cfg, main)

        def seg_edge(a: Node, lab: str, b: Node) -> bool:
            if lab in ("e", "p") or (a, lab) in exhausted_edges:
                return False  # (the pull did not complete with an item)
            if a in loops and lab == "stop":
                return False
            return True

        segment = reachable(start, edge_ok=seg_edge)
        bad = [n for n in segment if n.kind in SUSPEND or n.kind in ("return", "exit", "raise")]
        bad = [n for n in bad if n is not pull]
        ctx.check(not bad, "R09.3", u, bad[0] if bad else pull,
                  "no suspension point (and no exit) between the completion of the pull and the end of the broadcast "
                  "to every peer buffer", node=bad[0] if bad else pull,
                  witness="; ".join(f"L{n.line}:{n.text()}" for n in bad[:4]))
        for loop in loops:
            it = loop.info.get("iter")
            ctx.check(isinstance(it, ast.Name) and it.id == P["peers"], "R09.3", u, loop,
                      "the broadcast loop ranges over the whole shared list (own buffer included)", node=loop)
            body = [s for (lab, s) in loop.succ if lab == "n"]
            appends = _appends(cfg, loop, item_names)
            skip = find_path(body[0], lambda x: x is loop, avoid=lambda x: x in appends,
                             edge_ok=lambda a, lab, b: lab not in ("e", "p")) if body else None
            ctx.check(skip is None and bool(appends), "R09.3", u, loop,
                      "every peer buffer receives the item (no conditional skip)", node=loop, witness=pretty_path(skip))
    # R09.4
    yields = [n for n in main if n.kind == "yield"]
    prod = {norm(a.ast.func).rsplit(".", 1)[-1] for loop in _broadcast_loops(cfg, main, P, None)  # type: ignore[union-attr]
            for a in _appends(cfg, loop, None)}
    prod_end = {"append": "right", "appendleft": "left"}
    cons_end = {"popleft": "left", "pop": "right"}
    for y in yields:
        v = y.info.get("value")
        ok = isinstance(v, ast.Call) and isinstance(v.func, ast.Attribute) and isinstance(v.func.value, ast.Name) \
            and v.func.value.id == P["buffer"] and v.func.attr in cons_end and not v.args
        ctx.check(ok, "R09.4", u, y, "the yielded item is taken by a removing read from the child's own buffer "
                  "(retained only until this child has yielded it)", node=y)
        if ok and prod:
            ends = {prod_end.get(p, "?") for p in prod}
            ctx.check(ends == {"right"} and cons_end[v.func.attr] == "left" or  # type: ignore[union-attr]
                      ends == {"left"} and cons_end[v.func.attr] == "right",  # type: ignore[union-attr]
                      "R09.4", u, y, "items are consumed from the end opposite to where they are appended (FIFO)",
                      node=y, witness=f"producer {sorted(prod)}, consumer {v.func.attr}")  # type: ignore[union-attr]
    ctx.check(bool(yields), "R09.4", u, "tee_peer", "tee_peer yields items")
    r09_5(ctx, P)
    c04.r04_5(_Relabel(ctx))
    r09_7(ctx, P)
    r09_8(ctx)
    r09_9(ctx)
    # the degenerate schedules — one child advanced at a time, in every order — decided completely: each child
    # receives every item exactly once, in source order (object model, abstract evaluation against itertools.tee)
    from . import objmodel
    objmodel.tee_histories(ctx, "R09.10", depth=5)
    ctx.floor("tee_operations", 1000)
    ctx.floor("pull_sites", 1)
    ctx.floor("tee_finally_copies", 2)


class _Relabel:
    def __init__(self, ctx):
        self._ctx = ctx

    def __getattr__(self, name):
        return getattr(self._ctx, name)

    def ok(self, rule, *a, **k):
        return self._ctx.ok("R09.6", *a, **k)

    def fail(self, rule, *a, **k):
        return self._ctx.fail("R09.6", *a, **k)

    def check(self, cond, rule, *a, **k):
        return self._ctx.check(cond, "R09.6", *a, **k)


def _bound_names(pull: Node) -> Set[str]:
    out: Set[str] = set()
    for lab, s in pull.succ:
        if lab == "n" and s.kind == "store":
            for t in s.info.get("targets", []):
                if isinstance(t, ast.Name):
                    out.add(t.id)
    return out


def _appends(cfg, loop: Node, item_names: Optional[Set[str]]) -> List[Node]:
    target = loop.ast.target if isinstance(loop.ast, ast.For) else None  # type: ignore[union-attr]
    var = target.id if isinstance(target, ast.Name) else None
    out = []
    for n in cfg.nodes:
        if n.kind == "call" and n.tag == loop.tag and n.in_region("loop", loop.ast) and isinstance(n.ast.func, ast.Attribute) \
                and n.ast.func.attr in ("append", "appendleft") and isinstance(n.ast.func.value, ast.Name) \
                and n.ast.func.value.id == var and n.ast.args:  # type: ignore[union-attr]
            arg = n.ast.args[0]  # type: ignore[union-attr]
            if isinstance(arg, ast.Call) and norm(arg.func).split(".")[-1] == "cast" and len(arg.args) == 2:
                arg = arg.args[1]  # (typing.cast is the identity)
            if item_names is None or (isinstance(arg, ast.Name) and arg.id in item_names):
                out.append(n)
    return out


def _broadcast_loops(cfg, main, P, item_names) -> List[Node]:
    out = []
    for n in main:
        if n.kind == "snext" and isinstance(n.ast, ast.For) and P["peers"] in {x.id for x in ast.walk(n.info["iter"]) if isinstance(x, ast.Name)}:
            if _appends(cfg, n, item_names):
                out.append(n)
    return out


from .common import Relabel as Relabel9  # noqa: E402


def r09_5(ctx, P) -> None:
    # decided on the evaluated construction (object model) whatever statements build it; the statement-shape
    # rule below is the fallback when the construction cannot be evaluated
    from . import objmodel
    objmodel.release_histories(Relabel9(ctx, "R09.14"), "R09.14", only=("tee",))
    if objmodel.tee_construction(ctx, "R09.13", P, retention=True) is None:
        ctx.note("R09.13: the construction of tee is not evaluable over the object model (R20.2 decides what the children retain)")
    if objmodel.tee_construction(ctx, "R09.5", P) is not None:
        return
    init = ctx.inlined(ctx.unit("itertools.Tee.__init__"))  # children may be built by a private helper method
    peer = ctx.unit("itertools.tee_peer")
    node = init.node
    me = init.param_names()[0]
    parents = {}
    for x in ast.walk(node):
        for c in ast.iter_child_nodes(x):
            parents[id(c)] = x
    # every store ``a = b = <expr>`` / ``self.f = <expr>``: names and fields denoting the same object
    bound = {}
    for st in ast.walk(node):
        if isinstance(st, ast.Assign):
            tgts, val = st.targets, st.value
        elif isinstance(st, ast.AnnAssign) and st.value is not None:
            tgts, val = [st.target], st.value
        else:
            continue
        for t in tgts:
            key = t.id if isinstance(t, ast.Name) else f"{me}.{t.attr}" if isinstance(t, ast.Attribute) and norm(t.value) == me else None
            if key:
                bound.setdefault(key, []).append(val)

    def obj(e, depth=0):
        """the expression that created the object ``e`` denotes (through aliases)"""
        key = e.id if isinstance(e, ast.Name) else f"{me}.{e.attr}" if isinstance(e, ast.Attribute) and norm(e.value) == me else None
        if key and len(bound.get(key, [])) == 1 and depth < 4:
            return obj(bound[key][0], depth + 1)
        return e

    def fresh_deques(e) -> bool:
        return isinstance(e, ast.ListComp) and isinstance(e.elt, ast.Call) and norm(e.elt.func) in ("deque", "collections.deque") \
            and not e.elt.args and not e.elt.keywords and len(e.generators) == 1 and not e.generators[0].ifs

    names = peer.param_names()
    calls = [c for c in ast.walk(node) if isinstance(c, ast.Call)
             and ctx.pkg.resolve_expr_global(init.module, c.func).node is peer.node]
    ctx.check(len(calls) == 1, "R09.5", init, "children", "the children are created in one place", witness=str(len(calls)))
    for c in calls:
        kws = {k.arg: k.value for k in c.keywords}
        args = {key: kws.get(P[key], c.args[names.index(P[key])] if len(c.args) > names.index(P[key]) else None)
                for key in ("buffer", "peers")}
        shared = obj(args["peers"]) if args["peers"] is not None else None
        ctx.check(shared is not None and fresh_deques(shared), "R09.5", init, c,
                  "the shared list consists of one fresh deque per child", witness=norm(shared) if shared is not None else "")
        # the buffer argument is the loop variable of a loop / comprehension over that same list
        ok = False
        if isinstance(args["buffer"], ast.Name) and shared is not None:
            x = c
            while id(x) in parents and not ok:
                x = parents[id(x)]
                gens = []
                if isinstance(x, (ast.GeneratorExp, ast.ListComp)):
                    gens = [(g.target, g.iter, bool(g.ifs)) for g in x.generators]
                elif isinstance(x, ast.For):
                    gens = [(x.target, x.iter, False)]
                for tgt, it, filtered in gens:
                    if isinstance(tgt, ast.Name) and tgt.id == args["buffer"].id:
                        ok = obj(it) is shared and not filtered
        ctx.check(ok, "R09.5", init, c, "each child gets its own element of the shared list as buffer and the "
                  "same shared list as peers (one child per buffer)")


def r09_9(ctx) -> None:
    """A child never hands an item to its consumer while holding the lock: the consumer may pause
    (or never come back) at that yield and every sibling would wait for the lock."""
    ctx.rule("R09.9", "no yield inside the `async with lock` region (the lock is held only for fetching and broadcasting)")
    u = ctx.inlined(ctx.unit("itertools.tee_peer"))
    cfg = cfg_of(u)
    P = _params(u)
    bad = [n for n in cfg.nodes if n.kind == "yield" and not n.tag and any(
        k == "with" and isinstance(getattr(a, "context_expr", None), ast.Name) and a.context_expr.id == P["lock"]
        for (k, a) in n.regions)]
    ctx.check(not bad, "R09.9", u, bad[0] if bad else "tee_peer", "items are yielded only after the lock was released",
              node=bad[0] if bad else None)


def r09_8(ctx, rid: str = "R09.8", module: str = "itertools") -> None:
    """The caller's lock is opaque: whether it is used depends only on it being given (``is
    None``), never on its truth value (a lock object may well be falsy)."""
    ctx.rule(rid, "the user's lock is never truth-tested: it is replaced by the no-op lock only when it is None")
    for u in real_units(ctx):
        if u.module.short != module:
            continue
        cfg = cfg_of(u)
        for n in cfg.nodes:
            if n.kind != "op" or n.info.get("op") != "truth" or n.tag:
                continue
            for operand in n.info.get("operands", []):
                for a in ctx.vals.expr(u, operand, n):
                    if a[0] != "user":
                        continue
                    owner, _, pname = a[1].rpartition(":")
                    ou = ctx.pkg.unit(owner) if ctx.pkg.has_unit(owner) else None
                    ann = next((p.annotation for p in ou.params() if p.arg == pname), None) if ou is not None else None
                    if ann is not None and "ACM" in roles_of_annotation(ann):
                        ctx.fail(rid, u, n, f"the truth value of the caller's lock `{norm(operand)}` decides whether "
                                 "it is used: a falsy lock object is silently replaced by the no-op lock and the "
                                 "protected section runs concurrently", node=n)
    ctx.ok(rid, module, "no truth test of a lock parameter")


def r09_7(ctx, P) -> None:
    tee_fields = {"_buffers"}
    init = ctx.unit("itertools.Tee.__init__")
    for s in own_nodes(init.node):
        if isinstance(s, (ast.Assign, ast.AnnAssign)):
            tgt = s.targets[0] if isinstance(s, ast.Assign) else s.target
            if isinstance(tgt, ast.Attribute) and isinstance(s.value, ast.ListComp):
                tee_fields = {tgt.attr}
    adders = {"append", "appendleft", "extend", "extendleft", "insert", "__setitem__", "rotate", "reverse"}
    for u in real_units(ctx):
        if u is ctx.unit("itertools.tee_peer"):
            continue
        for n in own_nodes(u.node):
            if isinstance(n, ast.Call) and isinstance(n.func, ast.Attribute) and n.func.attr in adders:
                recv = n.func.value
                touches = isinstance(recv, ast.Attribute) and recv.attr in tee_fields and u.module.short == "itertools"
                if touches:
                    ctx.fail("R09.7", u, n, "buffers / the shared buffer list are written outside tee_peer", line=n.lineno)
            if isinstance(n, (ast.Assign, ast.AugAssign)) and u.module.short == "itertools" and u.cls is not None \
                    and u.cls.name == "Tee" and not u.qualname.endswith("__init__"):
                tgts = n.targets if isinstance(n, ast.Assign) else [n.target]
                for t in tgts:
                    if isinstance(t, ast.Subscript) and isinstance(t.value, ast.Attribute) and t.value.attr in tee_fields:
                        ctx.fail("R09.7", u, n, "buffers / the shared buffer list are written outside tee_peer", line=n.lineno)
    ctx.ok("R09.7", "itertools", "no writer of the shared buffers outside tee_peer (removal in Tee.aclose excepted)")
