"""C08 — scoped_iter keeps an iterator alive for the block and closes it exactly at exit.

R08.1 the scoped handle's ``aclose`` is effect-free (no await, no call, no store): nothing
      available inside the block can close the source; the borrowing rules R07.1-R07.3 are
      inherited by the scoped subclass.
R08.2 the context's ``__aenter__`` returns only the scoped wrapper; the raw iterator is
      returned by no method of the context and stored under no other attribute.
R08.3 ``__aexit__`` on every normal path first disables the wrapper, then awaits the real
      iterator's ``aclose()``, each exactly once, whatever the exit reason; it is the only
      place in the module that closes a user iterator; it returns falsy.
R08.4 ``scoped_iter`` returns a neutral context exactly when the iterator has no ``aclose``
      and the scoping context around the very same iterator otherwise; it never unwraps an
      already scoped / borrowed iterator (nested scopes end only their own handle, because
      the inner context's "real iterator" is the outer scoped wrapper whose aclose is R08.1).
"""
from __future__ import annotations

import ast
from typing import List

from asl.cfg import cfg_of
from asl.flow import find_path, pretty_path
from asl.loader import AnalysisError, norm, own_nodes
from . import c07
from .lru import enumerate_paths
from .common import Relabel, real_units
from . import c05

LEVEL = {
    "decided": "C08: (R08.1) the scoped handle's aclose is a no-op and the handle inherits the borrowing guarantees of "
               "C07; (R08.2) only the scoped wrapper ever leaves the context object; (R08.3) __aexit__ disables the "
               "wrapper and closes the real iterator exactly once on every path, independent of the exit reason, and "
               "is the only closer in the module; (R08.4) scoped_iter wraps the very iterator it got (no unwrapping), "
               "with a neutral context only for iterators without aclose; (R08.5) tools applied one after the other see the items "
               "that follow those consumed before: islice table and lock-step argument order (shared with C05/C01); (R08.6) a scope "
               "is single-use: the wrapper field is written once, on the arm that found it unset, and never reset (no second "
               "handle, no second close).",
    "not_decided": "the item sequence seen by successive tools inside the block (value level, C01 residual); exit by "
                   "exception / cancellation running __aexit__ is the language's async-with guarantee.",
    "technique": "static analysis: effect-freedom, escape, exactly-once path and typestate (single-use) rules; islice table by abstract evaluation",
}
LEVEL["decided"] += ' (R08.7) inside the block every tool leaves a shared iterator where the stdlib tool would (tool tables: yields, items taken, end); (R08.8) no tool reads ahead of what it yields (R05.3, shared).'
LEVEL["decided"] += ' (R08.9) a groupby group the parent has moved past leaves the shared iterator alone (R16.1, shared); (R08.10) a finishing tee child unregisters its own buffer by identity (R04.5, shared).'
LEVEL["decided"] += ' (R08.11) no argument of a tool is singled out by its type or length (R03.2, shared).'
LEVEL["technique"] += '; tool tables shared'
LEVEL["decided"] += ' R08.7 compares the order of requests and results as well (a tool that fetches the next item before it hands out the current one leaves the shared handle one item further); (R08.12) a tee child re-tests its buffer after waiting for the lock (R09.2, shared); R08.4 also: whether there is something to close is asked of aiter(iterable), not of the iterable.'

CTX = "asynctools._ScopedAsyncIteratorContext"
SCOPED = "asynctools._ScopedAsyncIterator"


def run(ctx) -> None:
    for rid, text in (("R08.1", "scoped aclose is effect-free; borrowing rules inherited"),
                      ("R08.2", "raw iterator never escapes the context object"),
                      ("R08.3", "__aexit__ disables the wrapper then closes the iterator, once each, on every path"),
                      ("R08.4", "scoped_iter wraps the very iterator; neutral context only without aclose")):
        ctx.rule(rid, text)
    ctx.floor("single_use_guards", 1)
    ctx.assume("async with runs __aexit__ on normal exit, exception and cancellation (language semantics)")
    r08_1(ctx)
    r08_2(ctx)
    r08_3(ctx)
    r08_4(ctx)
    # tools applied one after the other to the shared handle see "the items that follow those consumed
    # before": how much each tool consumes is C05's business — the two table rules are shared here
    from . import c01, c05
    from .common import Relabel
    ctx.rule("R08.5", "consumption of a shared handle matches the stdlib: islice table (R05.5) and lock-step argument order (R05.6)")
    c05.r05_5(Relabel(ctx, "R08.5"))
    c01._lockstep_order(Relabel(ctx, "R08.5"))
    r08_6(ctx)
    from . import tooltables
    ctx.rule("R08.7", "tools leave a shared iterator where the stdlib tool would leave it: items taken per source in the tool tables (R05.11, shared)")
    # (the order of requests and results included: a tool that asks for the next item before it has handed out the current one
    # leaves the shared iterator one item further than the stdlib tool whenever it is abandoned there)
    tooltables.tool_tables(Relabel(ctx, "R08.7"), "R08.7", ("yields", "items taken", "end", "interleaving"))
    ctx.rule("R08.8", "merge takes the next head of a source only after it has yielded the current one (R05.3, shared)")
    c05.r05_3(Relabel(ctx, "R08.8"))
    from . import c04, c16
    ctx.rule("R08.9", "a groupby group the parent has moved past ends without touching the shared iterator (R16.1, shared)")
    if c16.cursor_is_single_slot(ctx, "R08.9"):
        c16.r16_1_3_group(Relabel(ctx, "R08.9", only=("R16.1",)), c16.Names(ctx))
    from . import c09
    ctx.rule("R08.12", "a tee child that had to wait for the lock tests its buffer again before it advances the shared iterator: "
                       "otherwise the handle is moved past an item that no child asked for, and the next tool starts one item late "
                       "(R09.2, shared)")
    c09.run(Relabel(ctx, "R08.12", only=("R09.2",)))
    ctx.rule("R08.10", "a finishing tee child unregisters its own buffer (by identity) and only the last one closes the shared "
                       "iterator (R04.5, shared)")
    c04.r04_5(Relabel(ctx, "R08.10"))
    from . import c03
    ctx.rule("R08.11", "a tool consumes from a shared handle what the stdlib tool consumes whatever the other arguments are: no "
                       "argument is singled out by its type or length (R03.2, shared)")
    c03.r03_2(Relabel(ctx, "R08.11"))


def _field_writes(unit, fld: str):
    """AST constructs of ``unit`` that (re)bind or delete ``self.<fld>``."""
    from asl.values import _flatten_targets
    me = unit.param_names()[0] if unit.param_names() else "self"
    out = []
    for n in own_nodes(unit.node):
        targets = []
        if isinstance(n, ast.Assign):
            targets = n.targets
        elif isinstance(n, (ast.AugAssign, ast.AnnAssign, ast.NamedExpr, ast.For, ast.AsyncFor)):
            targets = [n.target]
        elif isinstance(n, ast.Delete):
            targets = n.targets
        elif isinstance(n, (ast.With, ast.AsyncWith)):
            targets = [i.optional_vars for i in n.items if i.optional_vars is not None]
        elif isinstance(n, ast.Call) and norm(n.func).split(".")[-1] in ("setattr", "delattr", "__setattr__", "__delattr__"):
            if any(isinstance(a, ast.Constant) and a.value == fld for a in n.args):
                out.append(n)
        for t in targets:
            for sub in _flatten_targets(t):
                if isinstance(sub, ast.Attribute) and sub.attr == fld and isinstance(sub.value, ast.Name) and sub.value.id == me:
                    out.append(n)
    return out


def r08_6(ctx) -> None:
    """'Closed exactly once': a context object hands out one wrapper and is used up by that.
    ``__aenter__`` builds the wrapper only on the arm of a test that finds the wrapper field
    unset, and nothing but ``__init__`` (to None) and that one store ever writes the field —
    so a context that was left can not be entered a second time (second handle, second close)."""
    ctx.rule("R08.6", "the scope is single-use: the wrapper field is written once, under the guard that finds it unset, and never reset")
    info = ctx.pkg.cls(CTX)
    enter = ctx.inlined(info.methods["__aenter__"])
    cfg = cfg_of(enter)
    scoped_fq = ctx.pkg.cls(SCOPED).fq
    me = enter.param_names()[0]
    stores = []
    for n in cfg.nodes:
        if n.kind != "store" or n.tag:
            continue
        for t in n.info.get("targets", []):
            if isinstance(t, ast.Attribute) and isinstance(t.value, ast.Name) and t.value.id == me:
                v = ctx.vals.expr(enter, n.info.get("value"), n)
                if any(a[0] == "libinst" and a[1] == scoped_fq for a in v):
                    stores.append((n, t.attr))
    fields = sorted({f for _n, f in stores})
    ctx.check(len(fields) == 1, "R08.6", enter, "__aenter__", "the wrapper handed to the block is kept in one attribute of the context",
              witness=str(fields))
    if len(fields) != 1:
        return
    fld = fields[0]
    ctx.count("single_use_guards")

    def unset_arm(b) -> str:
        """the branch label on which ``self.<fld>`` is known to be unset ('' = not a test of the field)"""
        e, flip = b.ast, False
        while isinstance(e, ast.UnaryOp) and isinstance(e.op, ast.Not):
            e, flip = e.operand, not flip
        arm = ""
        if isinstance(e, ast.Attribute) and norm(e) == f"{me}.{fld}":
            arm = "f"
        elif isinstance(e, ast.Compare) and len(e.ops) == 1 and norm(e.left) == f"{me}.{fld}" \
                and isinstance(e.comparators[0], ast.Constant) and e.comparators[0].value is None:
            arm = "t" if isinstance(e.ops[0], (ast.Is, ast.Eq)) else "f" if isinstance(e.ops[0], (ast.IsNot, ast.NotEq)) else ""
        if arm and flip:
            arm = "f" if arm == "t" else "t"
        return arm

    for n, _f in stores:
        path = find_path(cfg.entry, lambda x, n=n: x is n,
                         edge_ok=lambda a, lab, b: lab not in ("e", "p") and not (a.kind == "branch" and unset_arm(a) == lab))
        ctx.check(path is None, "R08.6", enter, n, f"the wrapper is created only after `self.{fld}` was found unset "
                  "(a scope that was entered before refuses to be entered again)", node=n, witness=pretty_path(path))
    for name, meth in info.methods.items():
        writes = _field_writes(meth, fld)
        if name == "__init__":
            bad = [w for w in writes if not (isinstance(w, (ast.Assign, ast.AnnAssign)) and isinstance(w.value, ast.Constant)
                                             and w.value.value is None)]
        elif name == "__aenter__":
            keep = {id(n.stmt) for n, _f in stores} | {id(n.ast) for n, _f in stores}
            bad = [w for w in writes if id(w) not in keep and not any(w is s.stmt or w is s.ast for s, _f in stores)]
            if ctx.inlined(meth) is not meth:
                bad = []  # (written by a private helper: the stores were examined on the inlined view)
        else:
            bad = writes
        ctx.check(not bad, "R08.6", meth, bad[0] if bad else name,
                  f"`self.{fld}` is not reset or replaced outside the guarded store: once used, the scope stays used",
                  line=getattr(bad[0], "lineno", None) if bad else None)


def r08_1(ctx) -> None:
    u = ctx.unit(f"{SCOPED}.aclose")
    cfg = cfg_of(u)
    effects = [n for n in cfg.nodes if n.kind in ("await", "call", "yield", "pull", "enter", "raise", "del")
               or (n.kind == "store") or n.kind == "attr"]
    ctx.check(not effects, "R08.1", u, effects[0] if effects else "aclose",
              "closing the scoped handle does nothing at all (tools that close their input cannot end the scope)",
              node=effects[0] if effects else None)
    info = ctx.pkg.cls(SCOPED)
    bases = [b.split("[")[0] for b in info.bases]
    ctx.check(ctx.pkg.cls_name(c07.BORROW_CLASSES[0]) in bases, "R08.1", SCOPED, "bases", "the scoped handle is a borrowed iterator")
    overridden = sorted(set(info.methods) - {"__repr__", "aclose"})
    ctx.check(not overridden, "R08.1", SCOPED, "methods", "the scoped handle overrides nothing but aclose/__repr__ "
              "(iteration and forwarding are those decided by C07)", witness=str(overridden))
    before = len(ctx.findings)
    c07.r07_1(ctx, ctx.pkg, report=True, fail_rule="R08.1")
    c07.r07_3(_Only(ctx, "R08.1"))
    if len(ctx.findings) == before:
        ctx.ok("R08.1", SCOPED, "borrowing rules R07.1/R07.3 hold for the scoped subclass")


class _Only:
    def __init__(self, ctx, rid):
        self._ctx, self._rid = ctx, rid

    def __getattr__(self, name):
        return getattr(self._ctx, name)

    def ok(self, *a, **k):
        return None

    def check(self, cond, rule, *a, **k):
        if not cond:
            return self._ctx.check(cond, self._rid, *a, **k)
        return cond

    def fail(self, rule, *a, **k):
        return self._ctx.fail(self._rid, *a, **k)


def r08_2(ctx) -> None:
    info = ctx.pkg.cls(CTX)
    init = info.methods.get("__init__")
    if init is None:
        raise AnalysisError(f"{CTX}.__init__ missing")
    src = f"{init.short}:{init.param_names()[1]}"
    raw_fields = []
    for s in own_nodes(init.node):
        if isinstance(s, (ast.Assign, ast.AnnAssign)):
            tgt = s.targets[0] if isinstance(s, ast.Assign) else s.target
            if isinstance(tgt, ast.Attribute) and isinstance(s.value, ast.Name) and s.value.id == init.param_names()[1]:
                raw_fields.append(tgt.attr)
    ctx.check(len(raw_fields) == 1 and raw_fields[0].startswith("_"), "R08.2", init, "__init__",
              "the raw iterator is kept in exactly one private attribute", witness=str(raw_fields))
    for meth in info.methods.values():
        cfg = cfg_of(meth)
        for n in cfg.nodes:
            if n.kind == "return" and not n.tag and n.info.get("value") is not None:
                v = ctx.vals.expr(meth, n.info["value"], n)
                leaked = [a for a in v if a[0] in ("user", "iter") and a[1] == src]
                ctx.check(not leaked, "R08.2", meth, n, "no method of the context hands out the raw iterator", node=n)
    enter = info.methods.get("__aenter__")
    cfg = cfg_of(enter)
    for n in cfg.nodes:
        if n.kind == "return" and not n.tag:
            v = ctx.vals.expr(enter, n.info.get("value"), n)
            ok = bool(v) and all(a[0] == "libinst" and a[1] == ctx.pkg.cls(SCOPED).fq for a in v if a[0] != "none")
            ctx.check(ok, "R08.2", enter, n, "the block receives the scoped wrapper", node=n, witness=str(sorted(v)))
    made = [c for c in own_nodes(enter.node) if isinstance(c, ast.Call) and
            norm(c.func.value if isinstance(c.func, ast.Subscript) else c.func) == ctx.pkg.cls_name(SCOPED)]  # (Cls[T](...) too)
    ctx.check(len(made) == 1 and [norm(a) for a in made[0].args] == [f"self.{raw_fields[0]}"] if raw_fields else False,
              "R08.2", enter, made[0] if made else "__aenter__", "the wrapper is built around the context's own iterator")


def r08_3(ctx) -> None:
    info = ctx.pkg.cls(CTX)
    u = info.methods.get("__aexit__")
    cfg = cfg_of(u)
    init = info.methods["__init__"]
    src = f"{init.short}:{init.param_names()[1]}"
    paths = enumerate_paths(cfg, cfg.entry, lambda n: n is cfg.exit)
    helper = c07.close_helper(ctx)
    ctx.check(bool(paths), "R08.3", u, "__aexit__", "__aexit__ has a normal path")
    for path in paths:
        nodes = [n for n, _l in path]
        awaits = [n for n in nodes if n.kind == "await"]
        kinds = []
        for a in awaits:
            v = ctx.vals.expr(u, a.info.get("value"), a)
            if any(x[0] == "userawait" and x[1] == src for x in v) and "aclose" in norm(a.ast):
                kinds.append("real")
            elif helper is not None and any(x[0] == "libcoro" and x[1].endswith("." + helper.node.name) for x in v):
                kinds.append("wrapper")
            else:
                kinds.append("other")
        ctx.check(kinds == ["wrapper", "real"], "R08.3", u, awaits[-1] if awaits else "__aexit__",
                  "the exit first disables the scoped wrapper, then closes the real iterator, each exactly once",
                  witness=f"awaits on path: {kinds}")
        branches = [n for n in nodes if n.kind == "branch"]
        ctx.check(not branches, "R08.3", u, branches[0] if branches else "__aexit__",
                  "closing does not depend on the exit reason or any other condition")
    for n in cfg.nodes:
        if n.kind == "return" and n.info.get("value") is not None:
            v = n.info["value"]
            ctx.check(isinstance(v, ast.Constant) and not v.value, "R08.3", u, n, "__aexit__ returns falsy", node=n)
    # only closer in the module
    mod = ctx.pkg.module("asynctools")
    for unit in mod.units.values():
        if unit.is_overload() or unit is u:
            continue
        c = cfg_of(unit)
        for n in c.nodes:
            if n.kind == "await" and not n.tag and "aclose" in norm(n.ast):
                v = ctx.vals.expr(unit, n.info.get("value"), n)
                ctx.check(not any(x[0] == "userawait" for x in v), "R08.3", unit, n,
                          "no other code in asynctools closes a user iterator", node=n)


def r08_4(ctx) -> None:
    u = ctx.unit("asynctools.scoped_iter")
    cfg = cfg_of(u)
    p = u.param_names()[0]
    rets = [n for n in cfg.nodes if n.kind == "return" and not n.tag]
    kinds = {}
    for r in rets:
        call = r.info.get("value")
        v = ctx.vals.expr(u, call, r)
        if any(a[0] == "libinst" and a[1].endswith("NullContext") for a in v):
            kinds["null"] = r
        elif any(a[0] == "libinst" and a[1] == ctx.pkg.cls(CTX).fq for a in v):
            kinds["scoped"] = r
        else:
            ctx.fail("R08.4", u, r, "scoped_iter returns something that is neither the scoping nor the neutral context", node=r)
    ctx.check(set(kinds) == {"null", "scoped"}, "R08.4", u, "scoped_iter",
              "scoped_iter has exactly the neutral and the scoping outcome", witness=str(sorted(kinds)))
    from .common import hasattr_branches
    asked = {n: e for n, e in hasattr_branches(ctx, u, cfg).items() if not n.tag}
    tests = list(asked)
    ctx.check(len(tests) == 1, "R08.4", u, "scoped_iter", "the outcome is selected by `hasattr(iterator, 'aclose')`")
    for t in tests:
        # ... asked of the iterator that the block will use (aiter(iterable)), not of the iterable it was made from: an
        # iterable whose __aiter__ hands out a separate cursor object has no aclose itself, its cursor has
        v = ctx.vals.expr(u, asked[t].args[0], t)
        ok = bool(v) and all(a[0] == "iter" and a[1] == f"{u.short}:{p}" for a in v)
        ctx.check(ok, "R08.4", u, t, "whether there is something to close is asked of aiter(iterable), the iterator the block uses",
                  node=t, witness=str(sorted(v)))
    if tests and set(kinds) == {"null", "scoped"}:
        t = tests[0]
        from asl.flow import find_path
        no_aclose = [s for (lab, s) in t.succ if lab == "f"]
        has_aclose = [s for (lab, s) in t.succ if lab == "t"]
        ok1 = bool(no_aclose) and find_path(no_aclose[0], lambda x: x is kinds["scoped"], include_src=True,
                                            edge_ok=lambda a, lab, b: lab not in ("e", "p")) is None
        ok2 = bool(has_aclose) and find_path(has_aclose[0], lambda x: x is kinds["null"], include_src=True,
                                             edge_ok=lambda a, lab, b: lab not in ("e", "p")) is None
        ctx.check(ok1 and ok2, "R08.4", u, t, "the neutral context is used exactly for iterators without aclose", node=t)
    # the very same iterator, obtained by aiter(iterable), is what gets scoped; no unwrapping
    for key, r in kinds.items():
        call = r.info.get("value")
        arg = call.args[0] if isinstance(call, ast.Call) and call.args else None
        v = ctx.vals.expr(u, arg, r) if arg is not None else frozenset()
        ok = bool(v) and all(a[0] == "iter" and a[1] == f"{u.short}:{p}" for a in v)
        ctx.check(ok, "R08.4", u, r, f"the {key} context is built around aiter(iterable) itself", node=r, witness=str(sorted(v)))
    unwraps = [n for n in own_nodes(u.node) if isinstance(n, ast.Attribute) and n.attr in ("__wrapped__", "_iterator", "_wrapper")]
    ctx.check(not unwraps, "R08.4", u, unwraps[0] if unwraps else "scoped_iter",
              "an already scoped or borrowed iterator is never unwrapped (inner scopes cannot outlive or close the outer)")
