"""C06 — errors from sources / callables surface unchanged.

R06.1 handler census: every ``except`` handler of the package is classified by the caught
      class and by what its protected region can execute, against the frozen idiom table:
        H1 StopAsyncIteration = end of source: region holds source steps (and yields of
           already pulled items) only — no user callable, no operator on user values
        H2 AttributeError = optional protocol member missing: region is one attribute
           lookup (optionally called to *create*, never await, an awaitable)
        H3 KeyError = cache miss: region is one subscript load
        H4 contextmanager classification (decided by C13)   H5 ExitStack unwind (C14)
      Any other handler that can intercept an exception raised by user code is a violation.
R06.2 no replacement: an explicit ``raise <new>`` inside a handler must be one of the
      documented protocol raises (empty input, strict length mismatch, missing __dict__,
      generator did not yield); everything else re-raises bare.
R06.3 cleanup cannot mask: no return/break/continue leaves a ``finally`` block; every
      library ``__aexit__`` other than the two suppressing managers returns falsy.
R06.4 no reuse after failure: on the exceptional continuation of a source step or user
      call, no further source step / user call is reachable (closing excepted).
"""
from __future__ import annotations

import ast
from typing import List, Optional, Set

from asl.cfg import Node, cfg_of
from asl.flow import reachable
from asl.loader import Unit, norm, own_nodes
from asl.values import USERISH
from .common import real_units, raised_class

LEVEL = {
    "decided": "C06: (R06.1) census of every except handler against the idiom table H1-H5 — StopAsyncIteration "
               "handlers protect only source steps (never a user callable), AttributeError/KeyError handlers protect a "
               "single lookup, nothing else can intercept a user exception; (R06.2) no handler replaces or wraps an "
               "exception outside the documented protocol raises; (R06.3) finally blocks and library __aexit__ "
               "methods cannot mask an exception; (R06.4) no source or callable is used again on the exceptional "
               "continuation of its failure; (R06.5) never deferred: no item or computed result is held back across a further "
               "pull of the source.",
    "not_decided": "that the items delivered before the failure equal the standard library's (value-level, C01 "
                   "residual); identity of the exception object rests on Python's propagation once no handler "
                   "intercepts it.",
    "technique": "static analysis: exception-handler census and exceptional-path reachability on the CFG; consumption tables by abstract evaluation",
}
LEVEL["decided"] += " (R06.8/R06.9) the tool tables and the islice table, shared: the library runs the source and the user's callables exactly as often as the stdlib counterpart, so an error raised by the k-th pull or call surfaces in both or in neither."
LEVEL["decided"] += " (R06.10) fault cells: every cell of the tool, aggregation and merge tables once more for each request to a source (up to and including the one that would find it exhausted) and each call of the user's callable, with exactly that use raising - about 5000 cells: the items delivered before, the uses made (none after the failure) and the exception ending the operation equal the stdlib's (aggregations: result / exception, no use after the failure)."
LEVEL["decided"] += " (R06.11) coroutine aggregations do not call their user's callable inside a private async generator helper (a StopAsyncIteration raised by it would come out as RuntimeError)."
LEVEL["technique"] += '; fault cells by abstract evaluation against the executed stdlib with the same use failing'
LEVEL["decided"] += ' The whole-tool evaluations raise UnboundLocalError where a local is read while unbound on that path (a finally clause using a value the failing request never bound).'

H4_UNITS = {"contextlib._AsyncGeneratorContextManager.__aenter__", "contextlib._AsyncGeneratorContextManager.__aexit__"}
H5_UNITS = {"contextlib.ExitStack.__aexit__"}


def _role_unit(ctx, u: Unit, table) -> str:
    """The canonical name of the table unit ``u`` belongs to: itself, or — for a private method that
    only units of the table call (the table unit's decision logic moved into helpers, analysed by
    C13 / C14 on the inlined view) — that caller."""
    canon = ctx.pkg.canonical(u)
    if canon in table:
        return canon
    if u.parent is None and u.cls is not None and u.qualname.rsplit(".", 1)[-1].startswith("_") \
            and not u.qualname.rsplit(".", 1)[-1].startswith("__"):
        from .common import callers_of
        seen, todo, roots = {id(u)}, [u], set()
        while todo:
            x = todo.pop()
            users = callers_of(ctx, x)
            if not users:
                return canon
            for v in users:
                cv = ctx.pkg.canonical(v)
                if cv in table:
                    roots.add(cv)
                elif v.cls is u.cls and v.qualname.rsplit(".", 1)[-1].startswith("_") and id(v) not in seen:
                    seen.add(id(v))
                    todo.append(v)
                else:
                    return canon
        if len(roots) == 1:
            return roots.pop()
    return canon


SUPPRESSING = {"contextlib._AsyncGeneratorContextManager", "contextlib.ExitStack"}

# documented protocol raises inside handlers: (unit, exception class)
PROTOCOL_RAISES = {
    ("itertools.accumulate", "TypeError"): "empty input without initial (documented deviation)",
    ("functools.reduce", "TypeError"): "empty input without initial (stdlib behaviour)",
    ("itertools.batched", "ValueError"): "strict: incomplete batch (stdlib behaviour)",
    ("builtins._zip_inner_strict", "ValueError"): "strict zip length mismatch (stdlib behaviour)",
    ("contextlib._AsyncGeneratorContextManager.__aenter__", "RuntimeError"): "generator did not yield",
    ("functools.CachedProperty.__get__", "TypeError"): "instance without __dict__ (stdlib behaviour)",
}
SOURCE_STEP_METHODS = {"__anext__", "athrow", "asend", "aclose", "__aiter__"}


def run(ctx) -> None:
    ctx.rule("R06.1", "handler census against idiom table H1-H5")
    ctx.rule("R06.2", "explicit raises inside handlers are bare or documented protocol raises")
    ctx.rule("R06.3", "finally blocks have no return/break/continue leaving them; library __aexit__ returns falsy")
    ctx.rule("R06.4", "no source step / user call on the exceptional continuation of a failed step")
    ctx.tables["protocol raises"] = {f"{k[0]}: {k[1]}": v for k, v in PROTOCOL_RAISES.items()}
    for u in real_units(ctx):
        _census(ctx, u)
        _finally_blocks(ctx, u)
        _no_reuse(ctx, u)
    _aexit_falsy(ctx)
    from . import c05
    ctx.rule("R06.5", "never deferred: no item or computed result is held back across a further pull of the source "
                      "(a failure of that pull would otherwise suppress an item the stdlib delivers first) (R05.1)")
    for short in c05._present(ctx, c05.TOOLS):
        c05.r05_1(ctx, ctx.unit(short), "R06.5")
    ctx.rule("R06.6", "a callable fails where the stdlib's would: each per-item callable runs at most once between two pulls "
                      "(a key that is computed late surfaces its error late, or never) (R05.2, shared)")
    for short in c05._present(ctx, c05.TOOLS) + ["builtins._min_max", "builtins.sorted", "functools.reduce", "heapq._largest"]:
        c05.r05_2(ctx, ctx.unit(short), "R06.6")
    c05.r05_9(ctx, "R06.7")
    # an error raised by the k-th pull of a source or the k-th call of a callable surfaces in the library
    # exactly if it surfaces in the counterpart: both run user code equally often (tables of C01/C05, shared)
    from . import tooltables
    from .common import Relabel
    tooltables.tool_tables(ctx, "R06.8", tooltables.USES)
    tooltables.fault_tables(ctx, "R06.10")
    r06_11(ctx)
    ctx.rule("R06.9", "islice pulls exactly the items itertools.islice pulls (R05.5, shared)")
    c05.r05_5(Relabel(ctx, "R06.9"))
    ctx.floor("tool_cells_decided", 340)
    ctx.floor("handlers", 15)
    ctx.floor("aexit_methods", 5)


# --------------------------------------------------------------------------- helpers
def is_user_call(ctx, unit: Unit, n: Node) -> bool:
    """A call node that runs a user *callable* (not a source-protocol step)."""
    if n.kind != "call":
        return False
    v = ctx.vals.expr(unit, n.ast.func, n)  # type: ignore[union-attr]
    for a in v:
        if a[0] in ("acall", "user", "result", "item", "userawait"):
            return True
        if a[0] == "usermeth" and a[2] not in SOURCE_STEP_METHODS:
            return True
    return False


def is_user_op(ctx, unit: Unit, n: Node) -> bool:
    if n.kind != "op":
        return False
    for operand in n.info.get("operands", []):
        v = ctx.vals.expr(unit, operand, n)
        if any(a[0] in USERISH and not ctx.vals.is_plain(a) for a in v):
            return True
    return False


def caught_names(h: ast.ExceptHandler) -> List[str]:
    if h.type is None:
        return ["<bare>"]
    if isinstance(h.type, ast.Tuple):
        return [norm(e) for e in h.type.elts]
    return [norm(h.type)]


def region_nodes(cfg, try_node: ast.Try) -> List[Node]:
    return [n for n in cfg.nodes if n.in_region("try_body", try_node) and not n.tag]


# --------------------------------------------------------------------------- R06.1 / R06.2
def _census(ctx, u: Unit) -> None:
    cfg = cfg_of(u)
    for d in cfg.nodes:
        if d.kind != "dispatch" or d.tag:
            continue
        t = d.ast
        assert isinstance(t, ast.Try)
        body = region_nodes(cfg, t)
        for h in t.handlers:
            ctx.count("handlers")
            names = caught_names(h)
            label = f"except {', '.join(names)}"
            canon = _role_unit(ctx, u, H4_UNITS | H5_UNITS)
            if canon in H4_UNITS:
                ctx.count("H4")
                ctx.ok("R06.1", u, f"{label}: contextmanager classification (H4, decided by C13)")
            elif canon in H5_UNITS and names == ["BaseException"]:
                ctx.count("H5")
                ctx.ok("R06.1", u, f"{label}: ExitStack unwind (H5, decided by C14)")
            elif names == ["StopAsyncIteration"]:
                ctx.count("H1")
                bad = [n for n in body if is_user_call(ctx, u, n) or is_user_op(ctx, u, n)]
                if bad:
                    for n in bad:
                        ctx.fail("R06.1", u, n, "user code runs inside an `except StopAsyncIteration` region: a "
                                 "StopAsyncIteration raised by it would be read as exhaustion of the source and "
                                 "swallowed", node=n)
                else:
                    ctx.ok("R06.1", u, f"{label}: H1, region holds only source steps", line=h.lineno)
            elif names == ["AttributeError"]:
                ctx.count("H2")
                kinds = [n.kind for n in body if n.kind not in ("store", "nop", "return")]
                calls = [n for n in body if n.kind == "call"]
                ok = kinds and all(k in ("attr", "call") for k in kinds) and len(calls) <= 1 \
                    and all(isinstance(c.ast.func, ast.Attribute) for c in calls)  # type: ignore[union-attr]
                ctx.check(bool(ok), "R06.1", u, h, f"{label}: H2, the region is a single attribute lookup "
                          "(optionally called to create — not await — an awaitable)")
            elif names == ["KeyError"]:
                ctx.count("H3")
                kinds = [n.kind for n in body if n.kind not in ("store", "nop", "return")]
                ok = kinds.count("sub") == 1 and all(k in ("attr", "sub") for k in kinds)
                ctx.check(bool(ok), "R06.1", u, h, f"{label}: H3, the region is a single subscript load")
            else:
                risky = [n for n in body if n.kind in ("await", "pull", "yield", "snext", "siter", "enter", "exit_cm")
                         or is_user_call(ctx, u, n) or is_user_op(ctx, u, n)
                         or (n.kind == "call" and _builtin_consumer(ctx, u, n))]
                if risky:
                    ctx.fail("R06.1", u, f"except {', '.join(names)}",
                             "handler can intercept an exception raised by user code (source, callable or item "
                             "operator) and matches no accepted idiom H1-H5: the error would be swallowed, "
                             "replaced or deferred", line=h.lineno,
                             witness="region runs: " + "; ".join(sorted({f'L{n.line}:{n.text()}' for n in risky})[:5]))
                else:
                    ctx.ok("R06.1", u, f"{label}: region runs no user code", line=h.lineno)
            # R06.2: raises inside the handler body
            for sub in _own_walk(h.body):
                if isinstance(sub, ast.Raise):
                    if canon in H4_UNITS and canon.endswith("__aexit__") or canon in H5_UNITS:
                        continue
                    if sub.exc is None:
                        ctx.ok("R06.2", u, "bare re-raise inside handler", line=sub.lineno)
                        continue
                    cls = raised_class(ctx, u, sub)
                    ok = (ctx.pkg.canonical(u), cls) in PROTOCOL_RAISES
                    if not ok and u.parent is None and (u.qualname.rsplit(".", 1)[-1].startswith("_") or (
                            u.cls is None and u.module.short.startswith("_") and not ctx.pkg._is_public(u))):
                        # a private helper raising on behalf of the documented operation(s) that call it
                        from .common import callers_of
                        users = callers_of(ctx, u)
                        ok = bool(users) and all((ctx.pkg.canonical(v), cls) in PROTOCOL_RAISES for v in users)
                    ctx.check(ok, "R06.2", u, sub,
                              f"`raise {cls}` inside `{label}` is a documented protocol raise" if ok else
                              f"handler `{label}` replaces the intercepted exception by `{cls}`")


def _builtin_consumer(ctx, u: Unit, n: Node) -> bool:
    """A Python builtin that iterates / compares user objects: sorted(x), list(x), sum(x) ..."""
    v = ctx.vals.expr(u, n.ast.func, n)  # type: ignore[union-attr]
    if not any(a[0] == "builtin" and a[1] in ("sorted", "list", "tuple", "set", "dict", "sum", "min", "max",
                                              "any", "all", "next", "iter", "map", "filter", "zip") for a in v):
        return False
    for arg in n.ast.args:  # type: ignore[union-attr]
        av = ctx.vals.expr(u, arg.value if isinstance(arg, ast.Starred) else arg, n)
        if any(a[0] in USERISH for a in av):
            return True
    return False


def _own_walk(body):
    stack = list(body)
    while stack:
        s = stack.pop()
        yield s
        if isinstance(s, (ast.FunctionDef, ast.AsyncFunctionDef, ast.Lambda, ast.ClassDef)):
            continue
        stack.extend(ast.iter_child_nodes(s))


# --------------------------------------------------------------------------- R06.3
def _finally_blocks(ctx, u: Unit) -> None:
    for t in own_nodes(u.node):
        if isinstance(t, ast.Try) and t.finalbody:
            ctx.count("finally_blocks")
            bad = _escapes(t.finalbody, in_loop=False)
            if bad:
                for b in bad:
                    ctx.fail("R06.3", u, b, f"`{type(b).__name__.lower()}` leaves a finally block: an exception "
                             "in flight would be discarded", line=b.lineno)
            else:
                ctx.ok("R06.3", u, "finally block has no return/break/continue leaving it", line=t.lineno)


def _escapes(body, in_loop: bool) -> List[ast.AST]:
    out: List[ast.AST] = []
    for s in body:
        if isinstance(s, ast.Return):
            out.append(s)
        elif isinstance(s, (ast.Break, ast.Continue)) and not in_loop:
            out.append(s)
        elif isinstance(s, (ast.For, ast.AsyncFor, ast.While)):
            out += _escapes(s.body, True) + _escapes(s.orelse, in_loop)
        elif isinstance(s, (ast.If,)):
            out += _escapes(s.body, in_loop) + _escapes(s.orelse, in_loop)
        elif isinstance(s, (ast.With, ast.AsyncWith)):
            out += _escapes(s.body, in_loop)
        elif isinstance(s, ast.Try):
            out += _escapes(s.body, in_loop) + _escapes(s.orelse, in_loop) + _escapes(s.finalbody, in_loop)
            for h in s.handlers:
                out += _escapes(h.body, in_loop)
    return out


def r06_11(ctx) -> None:
    """An aggregation is a coroutine: what its user's callable raises leaves it as it is.  Inside an async generator frame a
    StopAsyncIteration (StopIteration) that the callable raises is turned into a RuntimeError by the interpreter (PEP 479 /
    525) - the generator-based tools share that with every generator; an aggregation that routes its callable through a
    private generator helper of the library wraps an exception the builtin lets through."""
    from asl.values import atoms_deep
    ctx.rule("R06.11", "coroutine aggregations do not call their user's callable inside a private async generator helper "
                       "(a StopAsyncIteration raised by the callable would come out as RuntimeError)")
    shorts = ["builtins._min_max", "builtins.sorted", "functools.reduce", "heapq._largest", "builtins.all", "builtins.any",
              "builtins.sum", "builtins.list", "builtins.tuple", "builtins.set", "builtins.dict", "heapq.nlargest", "heapq.nsmallest",
              "builtins.min", "builtins.max"]
    sites = 0
    for short in shorts:
        if not ctx.pkg.has_unit(short):
            continue
        u = ctx.inlined(ctx.unit(short))
        if u.kind != "coroutine":
            continue
        cfg = cfg_of(u)
        seen = set()
        for n in cfg.nodes:
            if n.tag or n.ast is None:
                continue
            for c in ast.walk(n.ast):
                if not isinstance(c, ast.Call) or id(c) in seen:
                    continue
                seen.add(id(c))
                r = ctx.pkg.resolve_expr_global(u.module, c.func)
                t = ctx.pkg.lib_unit(r.qual) if r.kind == "lib" else None
                if t is None or t.kind != "asyncgen" or not t.qualname.rsplit(".", 1)[-1].startswith("_") or ctx.pkg._is_public(t):
                    continue
                tcfg = cfg_of(t)
                calls_user = [m for m in tcfg.nodes if m.kind == "call" and not m.tag and any(
                    a[0] == "user" for a in ctx.vals.expr(t, m.ast.func, m))]
                # ... a callable parameter of the helper that the aggregation fills with the user's (awaitified) callable
                handed = any(any(a[0] in ("user", "libinst", "closure", "libfn") for a in ctx.vals.expr(u, arg, n)) for arg in c.args)
                if calls_user and handed:
                    sites += 1
                    ctx.fail("R06.11", u, c, f"`{norm(c.func)}` is an async generator helper that calls a callable it is handed "
                             f"(`{norm(calls_user[0].ast.func)}`): inside a generator frame a StopAsyncIteration raised by the user's "
                             "callable is replaced by RuntimeError", node=n)
    if not sites:
        ctx.ok("R06.11", "aggregations", "no user callable is called inside a private generator helper of an aggregation")


def _aexit_falsy(ctx) -> None:
    for mod in ctx.pkg.modules.values():
        for info in mod.classes.values():
            short = ctx.pkg.canonical_class(info)
            meth = info.methods.get("__aexit__")
            if meth is None or short in SUPPRESSING:
                continue
            ctx.count("aexit_methods")
            cfg = cfg_of(meth)
            ok = True
            for n in cfg.nodes:
                if n.kind == "return" and n.info.get("value") is not None:
                    v = n.info["value"]
                    if not (isinstance(v, ast.Constant) and not v.value):
                        ok = False
                        ctx.fail("R06.3", meth, n, "__aexit__ of a non-suppressing library context manager may "
                                 "return a truthy value: the exception in flight would be swallowed", node=n)
            if ok:
                ctx.ok("R06.3", meth, "__aexit__ returns falsy on every path")


# --------------------------------------------------------------------------- R06.4
def _no_reuse(ctx, u: Unit) -> None:
    if _role_unit(ctx, u, H4_UNITS | H5_UNITS) in H5_UNITS | H4_UNITS:
        return
    cfg = cfg_of(u)
    steps = [n for n in cfg.nodes if not n.tag and (n.kind == "pull" or is_user_call(ctx, u, n)
                                                     or _is_step_await(ctx, u, n))]
    if not steps:
        return
    for n in steps:
        start = n.exc_succ()
        if start is None:
            continue

        def exc_edge(a: Node, lab: str, b: Node) -> bool:
            if a.kind == "dispatch" and lab == "h":
                # only handlers that can catch a *failure* (not the exhaustion signal)
                return "StopAsyncIteration" not in norm(b.info.get("type")) and \
                    "AttributeError" not in norm(b.info.get("type")) and "KeyError" not in norm(b.info.get("type"))
            if b.kind in ("dispatch", "raise_exit", "reraise"):
                return True
            return b.tag == "exc" or any(k == "handler" for (k, _x) in b.regions)

        cont = reachable([start], edge_ok=exc_edge)
        from .ownership import _names_aclose, _is_close_helper_await
        again = [m for m in cont if m.kind == "pull"
                 or (is_user_call(ctx, u, m) and not _names_aclose(ctx, u, m.ast.func, m))
                 or (_is_step_await(ctx, u, m) and not _closing(m)
                     and not _names_aclose(ctx, u, m.info.get("value"), m)
                     and not _is_close_helper_await(ctx, u, m, None))]
        ctx.count("failure_continuations")
        if again:
            ctx.fail("R06.4", u, again[0], "a source or user callable is used again on the exceptional "
                     f"continuation of `{n.text()}`", node=again[0])
        else:
            ctx.ok("R06.4", u, f"nothing is used again after a failure at L{n.line}:{n.text()[:50]}")


def _is_step_await(ctx, u: Unit, n: Node) -> bool:
    if n.kind != "await":
        return False
    v = ctx.vals.expr(u, n.info.get("value"), n)
    return any(a[0] in ("usernext", "anextcoro", "userawait") for a in v)


def _closing(n: Node) -> bool:
    return "aclose" in norm(n.ast)
