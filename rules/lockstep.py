"""
Lock-step tools as tables (shared by C01 / C05): ``zip_longest`` (and what it is built from)
is evaluated abstractly — never run — over a small concrete model:

  * the arguments are iterator objects IT0, IT1, ... of given lengths; the *same* iterator object
    may sit in several argument positions (the ``grouper`` recipe ``zip_longest(*[it] * n)``);
  * pulling ITk yields the symbols ("item", k, 0), ("item", k, 1), ... and then raises
    StopAsyncIteration, again and again (what every well-behaved iterator does);
  * lists are objects (``async_iters[index] = fill_iter`` is seen by the running ``for``).

Every cell of the table has exactly one execution; its rows and the number of items taken from each
source are compared with the rule of ``itertools.zip_longest`` (``zip_longest_spec``; the
thorough tier checks that rule against the interpreter's own itertools, aliasing included).
A cell whose evaluation forks (a condition the model cannot interpret) is reported as
"not evaluable", never as a violation.
"""
from __future__ import annotations

import ast
from typing import Any, Dict, List, Optional, Tuple

from asl.absint import UNKNOWN, STOP, AbsEval, Machine
from asl.cfg import Node, cfg_of
from asl.loader import AnalysisError, norm, own_nodes
from .common import make_resolver

FILL = "FILLVALUE"


def zip_longest_spec(slots: Tuple[int, ...], lengths: Dict[int, int]):
    """(rows, polled) of itertools.zip_longest(*[IT[s] for s in slots], fillvalue=FILL);
    ``polled`` lists every request made to a source, the final unsuccessful ones included."""
    return _zip_longest_spec(slots, lengths)[:2]


def _zip_longest_spec(slots: Tuple[int, ...], lengths: Dict[int, int]):
    """... and ``order``: the requests and the hand-outs of rows in the order they happen"""
    pos = {k: 0 for k in lengths}
    its: List[Any] = list(slots)
    rows, polled, order = [], [], []
    if not its:
        return rows, polled, order
    active = len(its)
    while True:
        row = []
        for i, it in enumerate(its):
            if it == "FILL":
                row.append(FILL)
                continue
            polled.append(it)
            order.append(("asks", it))
            if pos[it] < lengths[it]:
                row.append(("item", it, pos[it]))
                pos[it] += 1
            else:
                active -= 1
                if not active:
                    return rows, polled, order
                its[i] = "FILL"
                row.append(FILL)
        rows.append(tuple(row))
        order.append(("yields",))


class StepOps:
    def __init__(self, ctx, unit, lengths: Dict[int, int]):
        self.ctx, self.unit, self.module = ctx, unit, unit.module
        self.lengths = lengths
        self.ev = AbsEval(self)

    # ------------------------------------------------------------------ helpers
    def _module_of(self, node):
        """the module whose source the expression node comes from (a helper of another module that is evaluated as part of
        this tool resolves its names - import aliases included - in its own module); nodes of synthetic views: the tool's"""
        table = self.ctx.pkg.__dict__.get("_node_modules")
        if table is None:
            table = {}
            for m in self.ctx.pkg.modules.values():
                for x in ast.walk(m.tree):
                    if isinstance(x, (ast.Call, ast.Name, ast.Attribute)):
                        table[id(x)] = m
            self.ctx.pkg.__dict__["_node_modules"] = table
        return table.get(id(node), self.module)

    def _resolved(self, func_node) -> str:
        r = self.ctx.pkg.resolve_expr_global(self._module_of(func_node), func_node)
        return r.qual.split(".")[-1] if r.kind in ("stdlib", "builtin", "lib") else norm(func_node).split(".")[-1]

    def _resolved_kind(self, func_node) -> str:
        return self.ctx.pkg.resolve_expr_global(self._module_of(func_node), func_node).kind

    def _lib_unit(self, func_node):
        try:
            fv = self.ctx.vals.expr(self.unit, func_node, None)
        except Exception:  # noqa: BLE001
            return None
        for f in fv:
            if f[0] == "libfn":
                return self.ctx.pkg.lib_unit(f[1])
        return None

    @staticmethod
    def _is_list(v) -> bool:
        return isinstance(v, tuple) and len(v) == 2 and v[0] == "LIST"

    @staticmethod
    def _is_iter(v) -> bool:
        return isinstance(v, tuple) and v[:1] in (("IT",), ("REPEAT",), ("ZIP",))

    def _new(self, env, items) -> Tuple[str, int]:
        lists = dict(env.get("@lists", {}))
        ref = len(lists)
        lists[ref] = tuple(items)
        env["@lists"] = lists
        return ("LIST", ref)

    def _get(self, env, ref):
        return env["@lists"][ref[1]]

    def _set(self, env, ref, items) -> None:
        lists = dict(env["@lists"])
        lists[ref[1]] = tuple(items)
        env["@lists"] = lists

    def _elements(self, v, env):
        """finite sequence behind a value, or None"""
        if self._is_list(v):
            return list(self._get(env, v))
        if isinstance(v, tuple) and v[:1] == ("SEQ",):
            return list(v[1])
        if isinstance(v, tuple) and v and any(isinstance(x, tuple) and len(x) == 2 and x[0] == "*" for x in v):
            # a tuple display with ``*xs`` entries: the entries with every finite ``xs`` spliced in
            out_: List[Any] = []
            for x in v:
                if isinstance(x, tuple) and len(x) == 2 and x[0] == "*":
                    inner = self._elements(x[1], env)
                    if inner is None:
                        return None
                    out_.extend(inner)
                else:
                    out_.append(x)
            return out_
        if isinstance(v, tuple) and v[:1] == ("enum",):
            inner = self._elements(v[1], env)
            return None if inner is None else [(v[2] + i, x) for i, x in enumerate(inner)]
        return None

    def resolve(self, v, env):
        """a value with list objects replaced by their contents and ``*x`` entries of tuple
        displays spliced in (for yields and return values)"""
        if self._is_list(v) and v[1] in env.get("@setrefs", ()):
            return ("SET", frozenset(self.resolve(x, env) for x in self._get(env, v)))
        if self._is_list(v):
            return ("LIST",) + tuple(self.resolve(x, env) for x in self._get(env, v))
        if isinstance(v, tuple) and v[:1] == ("SEQ",) and len(v) == 2 and isinstance(v[1], tuple):
            return tuple(self.resolve(x, env) for x in v[1])
        if isinstance(v, tuple) and v[:1] == ("SET",) and len(v) == 2 and isinstance(v[1], tuple):
            return ("SET", frozenset(self.resolve(x, env) for x in v[1]))
        if isinstance(v, tuple) and v[:1] in (("item",), ("IT",), ("REPEAT",), ("ZIP",), ("FN",), ("GLOBAL",), ("exc",), ("*",)):
            return v
        if isinstance(v, tuple):
            out = []
            for x in v:
                if isinstance(x, tuple) and len(x) == 2 and x[0] == "*":
                    inner = self._elements(x[1], env)
                    if inner is None:
                        inner = list(x[1]) if isinstance(x[1], tuple) else [UNKNOWN]
                    out.extend(self.resolve(y, env) for y in inner)
                else:
                    out.append(self.resolve(x, env))
            return tuple(out)
        return v

    def _trace(self, env, *event) -> None:
        env["@trace"] = env.get("@trace", ()) + (tuple(event),)

    def _pull(self, it, env):
        """advance an iterator object: the item, or ("@raise", "StopAsyncIteration")"""
        if it[0] == "REPEAT":
            return it[1]
        if it[0] == "ZIP":
            # the library's own (non-strict) zip, by its rule: one item of every source in argument
            # order; the first exhausted source ends it (items already taken this round are dropped)
            row = []
            for sub in it[1]:
                v = self._pull(sub, env)
                if isinstance(v, tuple) and v[:1] == ("@raise",):
                    return v
                row.append(v)
            return tuple(row)
        k = it[1]
        pos = dict(env.get("@itpos", {}))
        self._trace(env, "poll", k)
        if pos.get(k, 0) >= self.lengths[k]:
            return ("@raise", "StopAsyncIteration")
        item = ("item", k, pos.get(k, 0))
        pos[k] = pos.get(k, 0) + 1
        env["@itpos"] = pos
        return item

    def _is_repeat_unit(self, t) -> bool:
        """an async generator that yields its one argument for ever"""
        if t is None or t.kind != "asyncgen" or len(t.param_names()) != 1:
            return False
        p = t.param_names()[0]
        ys = [n for n in own_nodes(t.node) if isinstance(n, (ast.Yield, ast.YieldFrom))]
        loops = [n for n in own_nodes(t.node) if isinstance(n, ast.While)]
        return bool(ys) and all(isinstance(y, ast.Yield) and isinstance(y.value, ast.Name) and y.value.id == p for y in ys) \
            and len(loops) == 1 and isinstance(loops[0].test, ast.Constant) and loops[0].test.value is True \
            and not any(isinstance(n, (ast.Return, ast.Break)) for n in own_nodes(t.node))

    def _is_repeat_class(self, func_node) -> bool:
        """a private library class that is the endless iterator over its one constructor argument: ``__init__`` only
        stores the argument, ``__anext__`` only returns that field, ``__aiter__`` returns self, and whatever else it
        defines (``aclose``) has an empty body"""
        try:
            r = self.ctx.pkg.resolve_expr_global(self.module, func_node)
        except Exception:  # noqa: BLE001
            return False
        info = self.ctx.pkg.lib_class(r.qual) if r is not None and r.kind == "lib" else None
        return info is not None and self._repeat_class(info)

    @staticmethod
    def _repeat_class(info) -> bool:
        def body(m):
            return [b for b in m.node.body if not (isinstance(b, ast.Expr) and isinstance(b.value, ast.Constant)) and not isinstance(b, ast.Pass)]
        init, nxt, it = info.methods.get("__init__"), info.methods.get("__anext__"), info.methods.get("__aiter__")
        if init is None or nxt is None or it is None or not info.name.startswith("_") or nxt.kind != "coroutine":
            return False
        if len(init.param_names()) != 2:
            return False
        me, p = init.param_names()
        b = body(init)
        if not (len(b) == 1 and isinstance(b[0], (ast.Assign, ast.AnnAssign)) and isinstance(b[0].value, ast.Name) and b[0].value.id == p):
            return False
        tgt = b[0].targets[0] if isinstance(b[0], ast.Assign) else b[0].target
        if not (isinstance(tgt, ast.Attribute) and isinstance(tgt.value, ast.Name) and tgt.value.id == me):
            return False
        fld = tgt.attr
        nb = body(nxt)
        if not (len(nb) == 1 and isinstance(nb[0], ast.Return) and isinstance(nb[0].value, ast.Attribute) and nb[0].value.attr == fld
                and isinstance(nb[0].value.value, ast.Name) and nb[0].value.value.id == nxt.param_names()[0]):
            return False
        ib = body(it)
        if not (len(ib) == 1 and isinstance(ib[0], ast.Return) and isinstance(ib[0].value, ast.Name) and ib[0].value.id == it.param_names()[0]):
            return False
        return all(not body(m) or (len(body(m)) == 1 and isinstance(body(m)[0], ast.Return) and (
            body(m)[0].value is None or (isinstance(body(m)[0].value, ast.Constant) and body(m)[0].value.value is None)))
                   for name, m in info.methods.items() if name not in ("__init__", "__anext__", "__aiter__"))

    #: whole-tool evaluations start at the function's entry with every parameter bound: a local that is not in the
    #: environment is unbound (set by the table drivers; rules that evaluate a loop body from its head leave it off)
    ran_from_entry = False

    # ------------------------------------------------------------------ evaluation hooks
    def call(self, func, args, kwargs, node, env):
        last = self._resolved(node.func)
        if last in ("aiter", "iter", "borrow", "ScopedIter") and len(args) == 1 and self._is_iter(args[0]):
            return args[0]
        if last == "len" and len(args) == 1:
            el = self._elements(args[0], env)
            return len(el) if el is not None else UNKNOWN
        if last == "slice" and self._resolved_kind(node.func) in ("builtin", "stdlib") and not node.keywords:
            vals: List[Any] = []
            for a in node.args:
                if isinstance(a, ast.Starred):
                    el = self._elements(self.ev.eval(a.value, env), env)
                    if el is None:
                        return UNKNOWN
                    vals.extend(el)
                else:
                    vals.append(self.ev.eval(a, env))
            if not all(v is None or (isinstance(v, int) and not isinstance(v, bool)) for v in vals):
                return UNKNOWN
            try:
                sl = slice(*vals)
            except Exception:  # noqa: BLE001
                return UNKNOWN
            return ("slice", sl.start, sl.stop, sl.step)
        if last == "map" and self._resolved_kind(node.func) in ("builtin", "stdlib") and len(node.args) == 2 and not node.keywords:
            # ``map(aiter, iterables)``: the library's adapter applied to every element (an iterator object stays itself)
            if self._resolved(node.args[0]) in ("aiter", "iter") and self._resolved_kind(node.args[0]) == "lib":
                el = self._elements(args[1], env) if len(args) > 1 else None
                if el is not None and all(self._is_iter(x) for x in el):
                    return ("SEQ", tuple(el))
            return UNKNOWN
        if last == "isinstance" and len(node.args) == 2 and len(args) == 2 and isinstance(args[0], tuple) and args[0][:1] == ("IT",):
            # what kind of object a source is: an iterator, or (the cell says so) a collection that produces its items when
            # it is iterated; never a list / tuple / sequence (those are finished objects, the model's sources are lazy)
            names = [norm(x).split(".")[-1] for x in (node.args[1].elts if isinstance(node.args[1], ast.Tuple) else [node.args[1]])]
            kinds = {"iterator": {"Iterable", "Iterator"}, "collection": {"Iterable", "Collection", "Sized", "Container"}}
            known = {"Iterable", "Iterator", "Collection", "Sized", "Container", "Sequence", "MutableSequence", "list", "tuple",
                     "Reversible", "Set", "Mapping", "AsyncIterable", "AsyncIterator", "AsyncGenerator", "Generator"}
            if all(n_ in known for n_ in names):
                return any(n_ in kinds.get(getattr(self, "flavour", "iterator"), ()) for n_ in names)
        if last == "set" and self._resolved_kind(node.func) in ("builtin", "stdlib") and not node.keywords and len(node.args) <= 1:
            # a mutable set object of the model: a heap cell that keeps one of every element (``.add`` below)
            el = self._elements(args[0], env) if node.args else []
            if el is None:
                return UNKNOWN
            uniq: List[Any] = []
            for x in el:
                if x not in uniq:
                    uniq.append(x)
            ref = self._new(env, uniq)
            env["@setrefs"] = tuple(env.get("@setrefs", ())) + (ref[1],)
            return ref
        if last in ("list", "tuple") or (last == "deque" and not node.keywords and len(node.args) <= 1):
            # (a deque without maxlen is a list with two ends)
            if not node.args:
                return self._new(env, ()) if last != "tuple" else ("SEQ", ())
            el = self._elements(args[0], env) if args else None
            if el is None and args and isinstance(args[0], tuple) and args[0][:1] == ("IT",) \
                    and self._resolved_kind(node.func) in ("builtin", "stdlib"):
                el = self._drain(args[0], env)  # (a synchronous constructor runs a source to its end on the spot)
            if el is None:
                return UNKNOWN
            return self._new(env, el) if last != "tuple" else ("SEQ", tuple(el))
        if last == "cast" and len(args) == 2 and self._resolved_kind(node.func) in ("stdlib", "builtin"):
            return args[1]  # typing.cast is the identity at run time
        if last in ("any", "all") and len(args) == 1:
            el = self._elements(args[0], env)
            if el is not None and all(isinstance(x, bool) for x in el):
                return any(el) if last == "any" else all(el)
            return UNKNOWN
        if last == "reversed" and len(args) == 1:
            el = self._elements(args[0], env)
            return ("SEQ", tuple(reversed(el))) if el is not None else UNKNOWN
        if last == "enumerate" and args:
            return ("enum", args[0], kwargs.get("start", args[1] if len(args) > 1 else 0))
        if last in ("isinstance", "hasattr") and len(node.args) == 2 and args and args[0] is None \
                and isinstance(node.args[0], (ast.Name, ast.Attribute, ast.Subscript)):
            # None is an instance of none of the library's protocols and has none of their methods (a retired slot)
            names = [norm(x).split(".")[-1] for x in (node.args[1].elts if isinstance(node.args[1], ast.Tuple) else [node.args[1]])]
            if last == "hasattr" or not ({"object", "NoneType"} & set(names)):
                return False
        if last == "isinstance" and len(node.args) == 2 and args and self._is_iter(args[0]):
            names = [norm(x).split(".")[-1] for x in (node.args[1].elts if isinstance(node.args[1], ast.Tuple) else [node.args[1]])]
            if all(n in ("ACloseable", "AsyncIterator", "AsyncIterable", "AsyncGenerator") for n in names):
                return True
            return UNKNOWN
        if last == "hasattr" and len(node.args) == 2 and args and self._is_iter(args[0]) \
                and isinstance(node.args[1], ast.Constant) and node.args[1].value in ("aclose", "__anext__", "__aiter__"):
            return True
        if last == "count" and len(args) <= 2 and not node.keywords and self._resolved_kind(node.func) == "stdlib" \
                and all(isinstance(a_, int) and not isinstance(a_, bool) for a_ in args):
            # ``itertools.count(start=0, step=1)``: a counter object with a position of its own
            return ("COUNT", self._new(env, [args[0] if args else 0]), args[1] if len(args) > 1 else 1)
        if last == "repeat" and len(args) == 1 and not node.keywords and self._resolved_kind(node.func) == "stdlib":
            return ("REPEAT", args[0])  # ``itertools.repeat(x)``: the very object, again and again
        t = self._lib_unit(node.func)
        if self._is_repeat_unit(t) and len(args) == 1:
            return ("REPEAT", args[0])
        if len(args) == 1 and not node.keywords and self._is_repeat_class(node.func):
            return ("REPEAT", args[0])
        return UNKNOWN

    def awaited(self, v, env):
        return v

    def attr(self, value, name, node, env):
        if isinstance(value, tuple) and value[:1] == ("slice",) and name in ("start", "stop", "step"):
            return value[{"start": 1, "stop": 2, "step": 3}[name]]
        return UNKNOWN

    def _drain(self, it, env):
        """everything a source still has, asked for here and now (``*source``, ``list(source)``, ``deque(source)``); None if
        the source fails on the way"""
        got: List[Any] = []
        while True:
            x = self._pull(it, env)
            if _is_end(x):
                return got
            if isinstance(x, tuple) and x[:1] == ("@raise",):
                return None
            got.append(x)
            if len(got) > 50:
                return None

    def other(self, e, env, ev):
        if isinstance(e, ast.Starred):
            v = ev.eval(e.value, env)
            if isinstance(v, tuple) and v[:1] == ("IT",):
                # ``*source``: the source is asked until it reports its end, here and now
                got = self._drain(v, env)
                return ("*", ("SEQ", tuple(got))) if got is not None else UNKNOWN
            return ("*", v)
        if isinstance(e, ast.List):
            # a list display, ``[*xs]`` included: a new list object
            out_: List[Any] = []
            for x in e.elts:
                if isinstance(x, ast.Starred):
                    el = self._elements(ev.eval(x.value, env), env)
                    if el is None:
                        return UNKNOWN
                    out_.extend(el)
                else:
                    out_.append(ev.eval(x, env))
            return self._new(env, out_)
        if isinstance(e, (ast.ListComp, ast.SetComp, ast.DictComp)) and id(e) in env.get("@comp", {}):
            # the comprehension's loops were run by the machine (CFG expansion): what was collected
            got = env["@comp"][id(e)]
            if isinstance(e, ast.SetComp):
                return ("SET", tuple(got))
            if isinstance(e, ast.DictComp):
                return ("DICT", tuple(got))
            return self._new(env, got)
        if isinstance(e, (ast.ListComp, ast.GeneratorExp, ast.SetComp)) and len(e.generators) == 1 \
                and not e.generators[0].is_async and not any(isinstance(x, ast.Await) for x in ast.walk(e)):
            g = e.generators[0]
            el = self._elements(ev.eval(g.iter, env), env)
            if el is None:
                return UNKNOWN
            out = []
            for x in el:
                env2 = dict(env)
                _bind(g.target, x, env2)
                keep = True
                for cond in g.ifs:
                    t = ev.truth(ev.eval(cond, env2), env2)
                    if t is UNKNOWN:
                        return UNKNOWN
                    keep = keep and t
                if keep:
                    out.append(ev.eval(e.elt, env2))
                for k_ in env2:
                    if k_.startswith("@"):
                        env[k_] = env2[k_]  # (objects created while evaluating the element live on)
            if isinstance(e, ast.SetComp):
                return ("SET", tuple(out))
            return self._new(env, out) if isinstance(e, ast.ListComp) else ("SEQ", tuple(out))
        if isinstance(e, ast.Subscript) and isinstance(e.slice, ast.Slice):
            el = self._elements(ev.eval(e.value, env), env)
            bounds = [ev.eval(x, env) if x is not None else None for x in (e.slice.lower, e.slice.upper, e.slice.step)]
            if el is not None and all(b is None or (isinstance(b, int) and not isinstance(b, bool)) for b in bounds):
                part = el[slice(*bounds)]
                return self._new(env, part) if self._is_list(ev.eval(e.value, env)) else ("SEQ", tuple(part))
            return UNKNOWN
        if isinstance(e, ast.Subscript):
            base = ev.eval(e.value, env)
            el = self._elements(base, env)
            idx = ev.eval(e.slice, env)
            if el is not None and isinstance(idx, int) and not isinstance(idx, bool) and -len(el) <= idx < len(el):
                return el[idx]
            if el is None and isinstance(base, tuple) and base and isinstance(base[0], tuple) and isinstance(idx, int) \
                    and not isinstance(idx, bool) and -len(base) <= idx < len(base):
                return base[idx]  # a tuple display of the model, e.g. a (key, item) pair
        return UNKNOWN

    def truth(self, v, env):
        if isinstance(v, bool):
            return v
        if v is None:
            return False
        if isinstance(v, int):
            return v != 0
        el = self._elements(v, env)
        if el is not None:
            return len(el) > 0
        if self._is_iter(v):
            return True
        return UNKNOWN

    def compare(self, op, left, right, env):
        if isinstance(left, int) and isinstance(right, int) and not isinstance(left, bool) and not isinstance(right, bool):
            return {"Lt": left < right, "LtE": left <= right, "Gt": left > right, "GtE": left >= right,
                    "Eq": left == right, "NotEq": left != right}.get(op, UNKNOWN)
        if op in ("Is", "IsNot") and (left is None or right is None):
            same = left is None and right is None
            return same if op == "Is" else not same
        if op in ("Is", "IsNot") and self._is_iter(left) and self._is_iter(right):
            return (left == right) if op == "Is" else (left != right)
        return UNKNOWN

    def binop(self, op, left, right, env):
        if isinstance(left, int) and isinstance(right, int) and not isinstance(left, bool) and not isinstance(right, bool):
            if op in ("Mod", "FloorDiv"):
                return UNKNOWN if right == 0 else (left % right if op == "Mod" else left // right)
            return {"Add": left + right, "Sub": left - right, "Mult": left * right}.get(op, UNKNOWN)
        if op == "Mult" and self._is_list(left) and isinstance(right, int) and not isinstance(right, bool) and 0 <= right <= 16:
            return self._new(env, list(self._get(env, left)) * right)  # ``[x] * n``: a new list
        return UNKNOWN

    def augstore(self, node, env, ev):
        st = node.ast
        if isinstance(st, ast.AugAssign) and isinstance(st.target, ast.Name):
            cur = env.get(st.target.id, UNKNOWN)
            env[st.target.id] = self.binop(type(st.op).__name__, cur, ev.eval(st.value, env), env)

    def store(self, target, value, env, ev):
        if isinstance(target, ast.Subscript):
            base = ev.eval(target.value, env)
            idx = ev.eval(target.slice, env)
            if self._is_list(base):
                items = list(self._get(env, base))
                if isinstance(idx, int) and not isinstance(idx, bool) and -len(items) <= idx < len(items):
                    items[idx] = value
                    self._set(env, base, items)
                else:
                    self._set(env, base, [UNKNOWN for _ in items])

    def matches(self, type_ast, exc, env):
        if type_ast is None:
            return True
        names = [norm(x).split(".")[-1] for x in (type_ast.elts if isinstance(type_ast, ast.Tuple) else [type_ast])]
        if isinstance(exc, tuple) and exc[:1] == ("exc",):
            return exc[1] in names or "BaseException" in names or "Exception" in names
        return UNKNOWN

    def _unbound_local(self, node: Node, env):
        """a local of the function being evaluated that is read here while it holds nothing on this path (deleted, or its
        only assignment did not happen): Python raises UnboundLocalError"""
        from asl.loader import local_names
        unit = env.get("@unit") or self.unit
        key = id(getattr(unit, "node", None))
        cache = self.__dict__.setdefault("_locals_of", {})
        if key not in cache:
            try:
                # (names bound by assignment / loops / del only: a nested ``def`` or an import binds its name without a
                # store the model follows)
                from asl.loader import own_nodes as _own
                cache[key] = {x.id for x in _own(unit.node) if isinstance(x, ast.Name) and isinstance(x.ctx, ast.Store)} \
                    - set(unit.param_names())
            except Exception:  # noqa: BLE001
                cache[key] = set()
        locs = cache[key]
        if not locs or node.ast is None:
            return None
        inner = {x.id for x in ast.walk(node.ast) if isinstance(x, ast.Name) and isinstance(x.ctx, (ast.Store, ast.Del))}
        inner |= {a_.arg for x in ast.walk(node.ast) if isinstance(x, ast.Lambda) for a_ in x.args.args}
        exprs = [node.ast] if node.kind != "call" else [node.ast.func] + [a_ for a_ in node.ast.args] + [k_.value for k_ in node.ast.keywords]
        for e_ in exprs:
            if isinstance(e_, ast.Starred):
                e_ = e_.value
            if isinstance(e_, ast.Name) and isinstance(e_.ctx, ast.Load) and e_.id in locs and e_.id not in inner \
                    and e_.id not in env and not e_.id.startswith("@"):
                return ("exc", "UnboundLocalError")
        return None

    def raises(self, node: Node, env):
        if node.kind == "call" and self.ran_from_entry:
            unbound = self._unbound_local(node, env)
            if unbound is not None:
                return unbound
        if node.kind == "call" and isinstance(node.ast, ast.Call) and len(node.ast.args) == 1 and not node.ast.keywords \
                and self._resolved(node.ast.func) == "len" and self._resolved_kind(node.ast.func) in ("builtin", "stdlib"):
            # the model's sources are lazy iterators: they have no length
            it = self.ev.eval(node.ast.args[0], env)
            if isinstance(it, tuple) and it[:1] == ("IT",) and getattr(self, "flavour", "iterator") == "iterator":
                return ("exc", "TypeError")
        if node.kind == "call" and isinstance(node.ast, ast.Call) and len(node.ast.args) == 1 and not node.ast.keywords \
                and self._resolved(node.ast.func) == "next" and self._resolved_kind(node.ast.func) in ("builtin", "stdlib"):
            # the builtin next() on an exhausted synchronous iterator raises right here, at the call
            it = self.ev.eval(node.ast.args[0], env)
            if isinstance(it, tuple) and it[:1] == ("IT",):
                failed = self._failing_pull(it, env)
                if failed is not None:
                    return failed
            if isinstance(it, tuple) and it[:1] == ("IT",) and env.get("@itpos", {}).get(it[1], 0) >= self.lengths[it[1]]:
                self._pull(it, env)
                return ("exc", "StopIteration")
            return None
        if node.kind in ("pull", "snext"):
            # a source that fails when asked (fault cells): the loop does not end, the exception surfaces
            src = self.ev.eval(node.info.get("iter"), env)
            if self._is_iter(src):
                return self._failing_pull(src, env)
            return None
        if node.kind == "await":
            call = node.info.get("value")
            v = env.get("@callvals", {}).get(id(call)) if isinstance(call, ast.Call) else None
            if isinstance(v, tuple) and v[:1] == ("@raise",):
                return ("exc", v[1])
        return None

    def _failing_pull(self, it, env):
        """does asking ``it`` now fail with something else than "exhausted"?  Then the request is carried out
        (on ``env``) and the exception symbol returned; otherwise nothing happens (None)."""
        if getattr(self, "fault_at", None) is None:
            return None
        trial = dict(env)
        v = self._pull(it, trial)
        if isinstance(v, tuple) and v[:1] == ("@raise",) and not _is_end(v):
            env.clear()
            env.update(trial)
            return ("exc", v[1])
        return None

    def iter(self, node, env):
        pos = dict(env.get("@pos", {}))
        for lab, s in node.succ:
            if lab == "n":
                pos.pop(s.id, None)
        env["@pos"] = pos

    def next(self, node, env):
        src = self.ev.eval(node.info.get("iter"), env)
        if self._is_iter(src):
            # ``async for`` over an iterator object, or a plain ``for`` over a synchronous one
            v = self._pull(src, env)
            return STOP if _is_end(v) else v
        el = self._elements(src, env)  # (a list is read live: a slot replaced during the loop is seen)
        if el is None:
            return UNKNOWN
        pos = dict(env.get("@pos", {}))
        i = pos.get(node.id, 0)
        if i >= len(el):
            pos.pop(node.id, None)
            env["@pos"] = pos
            return STOP
        pos[node.id] = i + 1
        env["@pos"] = pos
        return el[i]

    def visit(self, node, env, ev):
        if node.kind == "yield":
            v = self.resolve(ev.eval(node.info.get("value"), env), env)
            self._trace(env, "yield", v)
            return
        if node.kind == "exit_cm":
            # leaving ``async with ScopedIter(x) as it``: the scope closes the iterator it provided
            cm = node.info.get("cm")
            if isinstance(cm, ast.Call) and self._resolved(cm.func) == "ScopedIter" and len(cm.args) == 1:
                target = getattr(node.ast, "optional_vars", None)
                it = env.get(target.id) if isinstance(target, ast.Name) else None
                if not self._is_iter(it):
                    it = ev.eval(cm.args[0], env)
                if isinstance(it, tuple) and it[:1] == ("IT",):
                    self._trace(env, "close", it)
            return
        if node.kind == "del":
            targets = node.info.get("targets") or (node.ast.targets if isinstance(node.ast, ast.Delete) else [])
            for t in targets:
                if isinstance(t, ast.Name):
                    env.pop(t.id, None)  # (the local is unbound from here on)
                if isinstance(t, ast.Subscript):
                    base = ev.eval(t.value, env)
                    idx = ev.eval(t.slice, env)
                    if self._is_list(base):
                        items = list(self._get(env, base))
                        if isinstance(idx, int) and not isinstance(idx, bool) and -len(items) <= idx < len(items):
                            del items[idx]
                            self._set(env, base, items)
                        else:
                            self._set(env, base, [UNKNOWN for _ in items])
                            env["@undecided"] = True
            return
        if node.kind == "nop":
            if node.info.get("note") == "comp-start":
                comp = dict(env.get("@comp", {}))
                comp[id(node.ast)] = ()
                env["@comp"] = comp
            return
        if node.kind == "collect":
            comp = dict(env.get("@comp", {}))
            vals_ = tuple(ev.eval(x, env) for x in node.info.get("elements", []))
            comp[id(node.ast)] = comp.get(id(node.ast), ()) + ((vals_ if len(vals_) > 1 else vals_[0]),)
            env["@comp"] = comp
            return
        if node.kind != "call":
            return
        call = node.ast
        vals = dict(env.get("@callvals", {}))
        f = call.func
        last = self._resolved(f)
        result: Any = "@none"
        if last == "next" and call.args and not call.keywords and self._resolved_kind(f) in ("builtin", "stdlib") \
                and isinstance(call.args[0], ast.GeneratorExp):
            # ``next(<generator expression>, default)``: the first element it would produce
            seq = ev.eval(call.args[0], env)
            el = self._elements(seq, env) if isinstance(seq, tuple) and seq[:1] == ("SEQ",) else None
            if el is not None:
                result = el[0] if el else (ev.eval(call.args[1], env) if len(call.args) == 2 else ("@raise", "StopIteration"))
        elif last == "next" and call.args and not call.keywords and self._resolved_kind(f) in ("builtin", "stdlib"):
            it = ev.eval(call.args[0], env)
            if isinstance(it, tuple) and it[:1] == ("COUNT",) and self._is_list(it[1]):
                # ``next(counter)`` of an ``itertools.count()``: the running number, which then advances
                cur = self._get(env, it[1])[0]
                self._set(env, it[1], [cur + it[2]])
                result = cur
            elif self._is_iter(it):
                result = self._pull(it, env)
                if _is_end(result):
                    result = ev.eval(call.args[1], env) if len(call.args) == 2 else ("@raise", "StopIteration")
        elif last == "anext" and call.args and all(k.arg == "default" for k in call.keywords):
            it = ev.eval(call.args[0], env)
            if self._is_iter(it):
                result = self._pull(it, env)
                default = call.args[1] if len(call.args) == 2 else call.keywords[0].value if call.keywords else None
                if _is_end(result) and default is not None:
                    result = ev.eval(default, env)
        elif isinstance(f, ast.Attribute) and f.attr == "__anext__" and not call.args:
            it = ev.eval(f.value, env)
            if self._is_iter(it):
                result = self._pull(it, env)
        elif isinstance(f, ast.Attribute) and f.attr == "aclose" and not call.args:
            it = ev.eval(f.value, env)
            if self._is_iter(it):
                self._trace(env, "close", it)
                result = None
        elif isinstance(f, ast.Attribute) and f.attr == "append" and len(call.args) == 1:
            base = ev.eval(f.value, env)
            if self._is_list(base) and base[1] not in env.get("@setrefs", ()):
                self._set(env, base, list(self._get(env, base)) + [ev.eval(call.args[0], env)])
                result = None
        elif isinstance(f, ast.Attribute) and f.attr in ("popleft", "pop") and len(call.args) <= (0 if f.attr == "popleft" else 1) \
                and not call.keywords:
            # ``buffer.popleft()`` / ``stack.pop()`` / ``items.pop(0)`` on a list / deque of the model
            base = ev.eval(f.value, env)
            if self._is_list(base) and base[1] not in env.get("@setrefs", ()):
                items = list(self._get(env, base))
                idx = 0 if f.attr == "popleft" else (ev.eval(call.args[0], env) if call.args else -1)
                if not items:
                    result = ("@raise", "IndexError")
                elif isinstance(idx, int) and not isinstance(idx, bool) and -len(items) <= idx < len(items):
                    result = items.pop(idx)
                    self._set(env, base, items)
        elif isinstance(f, ast.Attribute) and f.attr == "add" and len(call.args) == 1:
            base = ev.eval(f.value, env)
            if self._is_list(base) and base[1] in env.get("@setrefs", ()):
                new_el = ev.eval(call.args[0], env)
                have = list(self._get(env, base))
                if new_el not in have:
                    self._set(env, base, have + [new_el])
                result = None
        if result != "@none":
            vals[id(call)] = result
            env["@callvals"] = vals
        else:
            # every other call is evaluated once, here at its own CFG node (a call may create an object of
            # the model — an iterator with a position — that later evaluations must find again)
            vals.pop(id(call), None)
            env["@callvals"] = vals
            v = ev.eval(call, env)
            vals = dict(env.get("@callvals", {}))
            vals[id(call)] = v
            env["@callvals"] = vals


def _is_end(v) -> bool:
    return isinstance(v, tuple) and v[:1] == ("@raise",) and v[1:2] in (("StopAsyncIteration",), ("StopIteration",))


def _bind(target, value, env) -> None:
    if isinstance(target, ast.Name):
        env[target.id] = value
    elif isinstance(target, (ast.Tuple, ast.List)) and isinstance(value, tuple) and len(value) == len(target.elts):
        for t, v in zip(target.elts, value):
            _bind(t, v, env)


PATTERNS = [(0,), (0, 1), (0, 0), (0, 1, 2), (0, 0, 1), (0, 1, 0), (0, 0, 0)]


def cells():
    import itertools as _it
    for slots in PATTERNS:
        ids = sorted(set(slots))
        for lens in _it.product((0, 1, 2, 3), repeat=len(ids)):
            yield slots, dict(zip(ids, lens))


def zip_longest_table(ctx, rid: str, consumption: bool = True) -> None:
    ctx.rule(rid, "zip_longest as a table: for 1-3 argument positions holding 1-3 iterator objects (the same object may be "
                  "passed several times) of 0-3 items each, the rows yielded and the number of items taken from each "
                  "source equal itertools.zip_longest's")
    real = ctx.unit("itertools.zip_longest")
    u = ctx.inlined(real)
    cfg = cfg_of(u)
    va = u.node.args.vararg.arg if u.node.args.vararg else None
    fill = [p for p in u.param_names() if p != va]
    if va is None or len(fill) != 1:
        raise AnalysisError("zip_longest signature changed (anchor moved)")
    bad = undecided = 0
    prefer_objects = False
    for slots, lengths in cells():
        ctx.count("zip_longest_cells")
        ops = StepOps(ctx, u, lengths)
        env = {"@lists": {}, va: ("SEQ", tuple(("IT", s) for s in slots)), fill[0]: FILL}
        machine = Machine(cfg, ops, max_steps=4000,
                          resolver=make_resolver(ctx, u, ops, skip=("aiter", "iter", "borrow", "anext", "awaitify"),
                                                 coroutines=True))
        cell = f"zip_longest({', '.join('it%d' % s for s in slots)}) with " + ", ".join(f"len(it{k})={n}" for k, n in lengths.items())
        try:
            outs = machine.run(env) if not prefer_objects else []
        except AnalysisError:
            outs = []
            if not machine.forked:
                # one single execution over concrete data that is still running after 4000 steps
                # (the counterpart needs a few hundred): the generator does not come to an end
                bad += 1
                if bad <= 3:
                    ctx.fail(rid, real, "zip_longest", f"[{cell}] the evaluation does not reach the end of the generator: "
                             "zip_longest keeps running where itertools.zip_longest stops")
                continue
        if len(outs) != 1:
            # the state of the run may live in an object of a private class: once more on the object model
            from . import objmodel
            ops2 = objmodel.make_ops(ctx, u, lengths)
            try:
                outs2 = Machine(cfg, ops2, max_steps=6000, resolver=ops2.resolver).run(
                    {"@lists": {}, "@heap": {}, "@gens": {}, va: ("SEQ", tuple(("IT", s) for s in slots)), fill[0]: FILL})
            except AnalysisError:
                outs2 = []
            if len(outs2) == 1 and not ops2.undecided and not outs2[0].env.get("@undecided"):
                outs = outs2
                prefer_objects = True  # (this tree keeps the state of a run in an object: go there first from now on)
        if len(outs) != 1:
            undecided += 1
            continue
        oc = outs[0]
        tr = oc.env.get("@trace", ())
        rows = [e[1] for e in tr if e[0] == "yield"]
        taken = {k: oc.env.get("@itpos", {}).get(k, 0) for k in lengths}
        polled = [f"it{k}:{n}" for k, n in sorted(taken.items())]
        want_rows, want_all = zip_longest_spec(slots, lengths)
        want_taken = {k: min(lengths[k], want_all.count(k)) for k in lengths}
        want_polled = [f"it{k}:{n}" for k, n in sorted(want_taken.items())]
        ok = oc.terminal.kind == "exit" and rows == want_rows and (taken == want_taken or not consumption)
        if ok and consumption:
            # the whole sequence of requests, the unsuccessful ones (end-of-source detections) included
            asked = [("asks", e[1]) if e[0] == "poll" else ("yields",) for e in tr if e[0] in ("poll", "yield")]
            want_order = _zip_longest_spec(slots, lengths)[2]
            if asked != want_order:
                ok = False

                def text(seq):
                    return " ".join(f"it{e[1]}" if e[0] == "asks" else "<row>" for e in seq)
                polled = ["sources asked and rows handed out in the order " + text(asked)]
                want_polled = ["sources asked and rows handed out in the order " + text(want_order)]
        if not ok:
            bad += 1
            if bad <= 3:
                ctx.fail(rid, real, "zip_longest", f"[{cell}] rows / items taken differ from itertools.zip_longest",
                         witness=f"evaluated rows {_show(rows)} items taken {polled} ({oc.terminal.kind}); "
                                 f"itertools.zip_longest: rows {_show(want_rows)} items taken {want_polled}")
    ctx.count("zip_longest_cells_decided", 124 - undecided if undecided <= 124 else 0)
    if undecided:
        ctx.note(f"{rid}: {undecided} cell(s) not evaluable over the model (evaluation forked on an uninterpreted condition)")
    if not bad:
        ctx.ok(rid, real, f"zip_longest equals itertools.zip_longest in rows and items taken on {124 - undecided} cells "
               "(including one iterator object in several positions)")


def _show(rows) -> str:
    def one(v):
        if isinstance(v, tuple) and v[:1] == ("item",):
            return f"it{v[1]}[{v[2]}]"
        if v == FILL:
            return "fill"
        return str(v)
    return "[" + ", ".join("(" + ", ".join(one(v) for v in r) + ")" if isinstance(r, tuple) else str(r) for r in rows) + "]"


def thorough_oracle(ctx, rid: str = "R01.T") -> None:
    """The specification rule itself against the interpreter's itertools.zip_longest (the stdlib is
    executed here, never the repository)."""
    import itertools as _it
    ctx.rule(rid, "the zip_longest specification used by the table agrees with itertools.zip_longest of the running interpreter")
    for slots, lengths in cells():
        polled: List[int] = []
        order: List[Any] = []

        class Src:
            def __init__(self, k, n):
                self.k, self.n, self.i = k, n, 0

            def __iter__(self):
                return self

            def __next__(self):
                polled.append(self.k)
                order.append(("asks", self.k))
                if self.i >= self.n:
                    raise StopIteration
                self.i += 1
                return ("item", self.k, self.i - 1)

        objs = {k: Src(k, n) for k, n in lengths.items()}
        got = []
        for row in _it.zip_longest(*[objs[s] for s in slots], fillvalue=FILL):
            order.append(("yields",))
            got.append(row)
        want_rows, want_polled, want_order = _zip_longest_spec(slots, lengths)
        ctx.count("zip_longest_oracle_cells")
        if got != want_rows or polled != want_polled or order != want_order:
            raise AnalysisError(f"zip_longest specification disagrees with itertools for {slots} {lengths}: "
                                f"spec {want_rows}/{want_polled}, stdlib {got}/{polled}")
    ctx.ok(rid, "itertools (stdlib)", "specification function agrees with itertools.zip_longest on every cell")
