"""C04 — owned async iterators are released when a tool finishes, fails or is closed.

R04.0 the primitive: ``ScopedIter.__aexit__`` awaits the iterator's ``aclose`` on every
      path where the attribute exists, whatever the exit reason, and returns falsy.
R04.1 cleanup coverage (rules/ownership.py) for every ITERABLE-role parameter of every
      coroutine / async generator in the package.
R04.2 completeness of K2 cleanup containers (reported from ownership.py).
R04.3 handles (chain, tee, groupby) close what they own in ``aclose`` directly — started
      or not; a close only reachable through a generator's ``finally`` is not credited.
R04.4 ``aclose`` cannot fail on library state: every ``self.x`` read reachable from a
      handle's ``aclose`` is assigned by the owning class's ``__init__`` (or read under an
      ``AttributeError`` handler).
R04.5 tee: a finishing child removes its own buffer, and closes the source exactly when
      no buffer remains.
"""
from __future__ import annotations

import ast
from typing import List, Optional, Set, Tuple

from asl.absint import UNKNOWN
from asl.cfg import Node, cfg_of
from asl.flow import find_path, pretty_path, reachable
from asl.loader import AnalysisError, Unit, norm, own_nodes
from asl.values import mentions, roles_of_annotation
from . import ownership
from .common import real_units

LEVEL = {
    "decided": "C04: (R04.0) the ScopedIter primitive closes on every exit and never suppresses; (R04.1) for "
               "every iterable parameter of every coroutine/async generator, every node where a source, a "
               "callable, the consumer or a canceller can raise is covered by a cleanup that closes the "
               "iterator on the exceptional path, and no normal exit skips the cleanup; (R04.2) cleanup loops "
               "cover the complete container; (R04.3) chain/tee/groupby handles close what they own directly in "
               "aclose, started or not; (R04.4) aclose reads only state initialised by __init__; (R04.5) a tee "
               "child removes its buffer and the last one closes the source; (R04.6) leaving `async with <handle>` "
               "closes the handle.",
    "not_decided": "that a user iterator's aclose() does what it promises; acquisition (aiter / __aiter__) is "
                   "assumed not to raise; failures inside cleanup itself (an aclose that raises) are outside the "
                   "fault model.",
    "technique": "static analysis: ownership/cleanup-coverage dataflow on a CFG with exception edges",
}
LEVEL["decided"] += ' A call of a library helper that validates its argument (an explicit raise reachable for that call shape) counts as a point of failure in R04.1.'
LEVEL["decided"] += " (R04.7) what Tee.__init__ builds is read off the evaluated heap: all children pull from the user's iterator itself."
LEVEL["decided"] += ' (R04.9) handles as operation histories on the object model: groupby with a failing source / key, chain with a failing source, tee with every order of next / close on its children - the source(s) must be closed or exhausted when the failure surfaces / when every child is done. This reports three genuine defects of the pinned tree, recorded as open known findings F13-F15 (groupby and chain leave sources open when they raise; a tee child closed before it was ever advanced keeps its buffer registered). (R04.2) a scope around a library generator releases the arguments only if that generator releases what it is handed.'
LEVEL["decided"] += ' R04.1: a generator expression / comprehension over the source handed to another aggregation is not a handover (closing the wrapper leaves the source open); a `break` in a closing loop before the element was closed leaves the loop incomplete.'
LEVEL["technique"] += '; release histories with failing sources / callables over the object model'
LEVEL["technique"] += '; evaluated tee construction over an object model'
LEVEL["decided"] += " R04.2's 'removed only when exhausted' is a path condition (StopAsyncIteration handler, identity with the default handed to anext, the false branch of a flag that a private fetch helper returns as False exactly in its handler); R04.5 also: the tee source is closed nowhere but in the clean-up that tests whether a buffer remains, and the own buffer may be found by an identity-index helper."

# handles that deliberately do not close what they wrap (K0)
NON_OWNING_HANDLES = {
    "asynctools._BorrowedAsyncIterator": "borrowing exists to *prevent* closing (C07)",
    "asynctools._ScopedAsyncIterator": "scoped view; the context closes the iterator (C08)",
    "itertools._Grouper": "a group must not close the shared iterator (documented)",
}
# constructor parameters that are not advertised as owned
NOT_ADVERTISED = {
    ("itertools.chain", "_iterables"): "chain.from_iterable documents that only iterables already fetched are closed; "
                                       "the lazily consumed outer iterable is released by ScopedIter once the chain was advanced",
}
# guard idioms accepted in a handle's aclose, one reason each: (class, field tested)
GUARDS = {
    ("itertools.Tee", "_buffers"): "tee_peer closes the source when it removes the last buffer (R04.5), so an empty "
                                   "buffer list means the source is already closed",
}


def run(ctx) -> None:
    ctx.rule("R04.0", "ScopedIter.__aexit__ awaits aclose on every path where it exists and returns falsy")
    ctx.rule("R04.1", "every risky node while an iterable parameter is owed a close is covered by cleanup (K1/K2/K3)")
    ctx.rule("R04.2", "K2 cleanup loops range over the complete container; removals only on exhaustion")
    ctx.rule("R04.3", "handle classes close owned iterators directly in aclose (generator finally not credited)")
    ctx.rule("R04.4", "self.x reads reachable from aclose are initialised by __init__")
    ctx.rule("R04.5", "tee_peer: own buffer removed on every exit; source closed iff no buffer remains")
    ctx.assume("acquisition (aiter(x) / x.__aiter__()) does not raise for the quantifier's sources")
    ctx.assume("closing an unstarted async generator runs none of its body (CPython semantics)")
    ctx.tables["K0 non-owning"] = dict(ownership.NON_OWNING)
    ctx.tables["pre-acquisition validation"] = {f"{k[0]}: {k[1]}": v for k, v in ownership.PRE_ACQUISITION.items()}
    ctx.tables["non-owning handles"] = NON_OWNING_HANDLES
    ctx.tables["not advertised"] = {f"{k[0]}({k[1]})": v for k, v in NOT_ADVERTISED.items()}
    r04_0(ctx)
    for unit, pname, src in ownership.iterable_params(ctx):
        ctx.count("iterable_params")
        ownership.check_param(ctx, "R04.1", unit, pname, src)
    r04_3(ctx)
    r04_4(ctx)
    r04_5(ctx)
    r04_6(ctx)
    # "a tee closes its source exactly when its last child is done": the children decide that by seeing the one
    # shared list of buffers become empty — they must be handed that very list (C09's construction rule, shared)
    from . import c09, objmodel
    ctx.rule("R04.7", "tee: every child is handed the one shared list of buffers, so the last child to finish sees it empty and closes the source (R09.5, shared)")
    P9 = c09._params(ctx.unit("itertools.tee_peer"))
    if objmodel.tee_construction(ctx, "R04.7", P9) is None:
        ctx.note("R04.7: the construction of tee is not evaluable over the object model (R09.5's statement-shape rule applies in C09)")
    objmodel.release_histories(ctx, "R04.9")
    ctx.floor("iterable_params", 20)
    ctx.floor("owning_handle_params", 3)
    ctx.floor("aclose_methods", 4)


# --------------------------------------------------------------------------- R04.0
def r04_0(ctx) -> None:
    u = ctx.inlined(ctx.unit("_core.ScopedIter.__aexit__"))  # the close may live in a private coroutine of its own
    cfg = cfg_of(u)
    src = "_core.ScopedIter.__init__:iterable"
    closes = {n for n in cfg.nodes if ownership._is_aclose_await(ctx, u, n, src)
              or ownership._is_close_helper_await(ctx, u, n, src)}
    ctx.count("scopediter_close_awaits", len(closes))

    def edge(a: Node, lab: str, b: Node) -> bool:
        if lab in ("e", "p"):
            return False
        # no aclose attribute: nothing to close
        if b.kind == "handler" and "AttributeError" in norm(b.info.get("type")):
            return _handler_region_is_single_load(cfg, b)
        return True

    def through_handler(a: Node, lab: str, b: Node) -> bool:
        if lab in ("e", "p"):
            return False
        return not (b.kind == "handler")

    path = find_path(cfg.entry, lambda x: x is cfg.exit, avoid=lambda x: x in closes, edge_ok=through_handler)
    ctx.check(path is None and bool(closes), "R04.0", u, "ScopedIter.__aexit__",
              "awaits the iterator's aclose() on every path on which the attribute exists",
              witness=pretty_path(path))
    for n in cfg.nodes:
        if n.kind == "handler":
            ok = "AttributeError" in norm(n.info.get("type")) and _handler_region_is_single_load(cfg, n)
            ctx.check(ok, "R04.0", u, n, "the only handler is AttributeError around the aclose lookup "
                      "(creating, not awaiting, the close awaitable)", node=n)
    for n in cfg.nodes:
        if n.kind == "return" and n.info.get("value") is not None:
            v = n.info["value"]
            falsy = isinstance(v, ast.Constant) and not v.value
            ctx.check(falsy, "R04.0", u, n, "__aexit__ returns falsy (never suppresses)", node=n)
    # exit reason is not consulted
    used = [x for x in own_nodes(u.node) if isinstance(x, ast.Name) and x.id in ("exc_type", "exc_val", "exc_tb")]
    ctx.check(not used, "R04.0", u, "exit arguments", "the close does not depend on the exit reason")


def _handler_region_is_single_load(cfg, handler: Node) -> bool:
    h = handler.ast
    for n in cfg.nodes:
        if n.kind == "dispatch" and any(s is handler for (_l, s) in n.succ):
            body = [m for m in cfg.nodes if m.in_region("try_body", n.ast) and not m.tag]
            kinds = [m.kind for m in body if m.kind not in ("store", "nop")]
            return kinds.count("attr") >= 1 and all(k in ("attr", "call") for k in kinds) and "await" not in kinds
    return False


# --------------------------------------------------------------------------- R04.3
def _handle_classes(ctx):
    for mod in ctx.pkg.modules.values():
        for info in mod.classes.values():
            short = ctx.pkg.canonical_class(info)
            if "aclose" not in info.methods or "__init__" not in info.methods:
                continue
            yield short, info


def _not_advertised(ctx, short: str, info, pname: str) -> str:
    """NOT_ADVERTISED lookup; the chain entry is recognised by what the parameter is — the
    keyword through which the alternate constructor ``from_iterable`` passes its lazily
    consumed outer iterable — not by its (private) name."""
    if (short, pname) in NOT_ADVERTISED:
        return NOT_ADVERTISED[(short, pname)]
    alt = info.methods.get("from_iterable")
    if short == "itertools.chain" and alt is not None:
        for c in own_nodes(alt.node):
            if isinstance(c, ast.Call) and norm(c.func) in ("cls", info.name) and any(k.arg == pname for k in c.keywords):
                return NOT_ADVERTISED[("itertools.chain", "_iterables")]
    return ""


def r04_3(ctx) -> None:
    for short, info in _handle_classes(ctx):
        if short in NON_OWNING_HANDLES:
            continue
        init = info.methods["__init__"]
        for p in init.params()[1:]:
            roles = roles_of_annotation(p.annotation)
            if not ({"ITERABLE", "ITERATOR"} & roles):
                continue
            na = _not_advertised(ctx, short, info, p.arg)
            if na:
                ctx.ok("R04.3", init, f"`{p.arg}` is not advertised as owned: {na}")
                continue
            if short == "itertools._GroupByState":
                continue  # checked through its owner GroupBy (transfer)
            ctx.count("owning_handle_params")
            _check_handle(ctx, short, info, p.arg, f"{init.short}:{p.arg}", depth=0)


def _check_handle(ctx, short: str, info, pname: str, src: str, depth: int) -> None:
    aclose = info.methods.get("aclose")
    if aclose is not None:
        aclose = ctx.inlined(aclose)
    init = ctx.inlined(info.methods["__init__"])
    if aclose is None:
        ctx.fail("R04.3", init, f"class {info.name}", f"handle owns `{pname}` but has no aclose")
        return
    icfg = cfg_of(init)
    raw_fields: List[str] = []
    transfer_fields: List[Tuple[str, str, int]] = []
    gen_fields: List[str] = []
    for n in icfg.nodes:
        if n.kind != "store":
            continue
        value = n.info.get("value")
        for t in n.info.get("targets", []):
            if not (isinstance(t, ast.Attribute) and isinstance(t.value, ast.Name) and t.value.id == "self"):
                continue
            if value is None or not ownership._expr_mentions(ctx, init, value, n, src):
                continue
            v = ctx.vals.expr(init, value, n)
            direct = [a for a in v if a[0] in ("iter", "user") and a[1] == src] or \
                     [a for a in v if a[0] == "elems" and a[1][0] in ("iter", "user") and a[1][1] == src]
            if direct:
                why = _filter_problem(ctx, init, value) or _appends_keep_closeable(ctx, init, value)
                if why:
                    ctx.fail("R04.3", init, n, f"field `{t.attr}` keeps only part of `{pname}`: {why}", node=n)
                raw_fields.append(t.attr)
                continue
            lib = [a for a in v if a[0] == "libinst"]
            if lib and isinstance(value, ast.Call):
                for i, arg in enumerate(value.args):
                    if ownership._expr_mentions(ctx, init, arg, n, src):
                        transfer_fields.append((t.attr, lib[0][1], i))
                continue
            gen_fields.append(t.attr)
    acfg = cfg_of(aclose)
    if raw_fields:
        side: List[Tuple[Node, str]] = []
        closes = _handle_close_nodes(ctx, aclose, acfg, src)
        guards = {f for (c, f) in GUARDS if c == short} | _shared_list_fields(ctx, info)

        def edge(a: Node, lab: str, b: Node) -> bool:
            if lab in ("e", "p"):
                return False
            if a.kind == "branch" and lab == "f" and "ACloseable" in norm(a.ast):
                return False
            if a.kind == "branch":
                # table GUARDS: "the shared list is empty" means the last peer closed the source — under
                # ``not``, and through a local that holds the field
                e, empty_label = a.ast, "f"
                while isinstance(e, ast.UnaryOp) and isinstance(e.op, ast.Not):
                    e, empty_label = e.operand, ("t" if empty_label == "f" else "f")
                if isinstance(e, ast.Name):
                    from .common import inline_locals
                    e = inline_locals(ctx, aclose, acfg, a, e)
                if isinstance(e, ast.Attribute) and e.attr in guards and lab == empty_label:
                    return False
            return True

        path = find_path(acfg.entry, lambda x: x is acfg.exit, avoid=lambda x: x in closes, edge_ok=edge)
        ctx.check(path is None, "R04.3", aclose, f"aclose of {info.name}",
                  f"aclose() awaits the aclose of the iterator(s) of `{pname}` held in {raw_fields} on every "
                  f"path (a close only reachable through a generator's finally is not credited)",
                  witness=pretty_path(path), fields=raw_fields)
    elif transfer_fields:
        for fld, classqual, index in transfer_fields:
            target = f"{classqual}.aclose"
            awaits = {n for n in acfg.nodes if n.kind == "await" and any(
                a[0] == "libcoro" and a[1] == target for a in ctx.vals.expr(aclose, n.info.get("value"), n))}
            path = find_path(acfg.entry, lambda x: x is acfg.exit, avoid=lambda x: x in awaits,
                             edge_ok=lambda a, lab, b: lab not in ("e", "p"))
            ctx.check(path is None and bool(awaits), "R04.3", aclose, f"aclose of {info.name}",
                      f"aclose() awaits self.{fld}.aclose() (state object owning `{pname}`) on every path",
                      witness=pretty_path(path))
            sub = ctx.pkg.lib_class(classqual)
            if sub is not None and depth < 2:
                sinit = sub.methods.get("__init__")
                if sinit is not None and index + 1 < len(sinit.params()):
                    sp = sinit.params()[index + 1].arg
                    sshort = f"{sub.module.short}.{sub.name}"
                    _check_handle(ctx, sshort, sub, sp, f"{sinit.short}:{sp}", depth + 1)
    else:
        ctx.fail("R04.3", aclose, f"aclose of {info.name}",
                 f"`{pname}` is only reachable through generator objects {gen_fields}; closing an unstarted "
                 f"generator runs none of its cleanup, so the iterator is never closed when the handle was not advanced")


def _shared_list_fields(ctx, info) -> Set[str]:
    """Fields of a handle class that are passed to tee_peer as the shared ``peers`` list
    (guard idiom GUARDS: emptiness of that list means the last peer closed the source)."""
    out: Set[str] = set()
    init = info.methods.get("__init__")
    if init is None or not ctx.pkg.has_unit("itertools.tee_peer"):
        return out
    peer = ctx.pkg.unit("itertools.tee_peer")
    from . import c09
    try:
        P = c09._params(peer)
    except AnalysisError:
        return out
    names = peer.param_names()
    for c in ast.walk(init.node):
        if isinstance(c, ast.Call) and norm(c.func) == peer.node.name:
            val = None
            for kw in c.keywords:
                if kw.arg == P["peers"]:
                    val = kw.value
            idx = names.index(P["peers"])
            if val is None and len(c.args) > idx:
                val = c.args[idx]
            if isinstance(val, ast.Attribute) and norm(val.value) == "self":
                out.add(val.attr)
            elif isinstance(val, ast.Name):
                # a local alias of the list: the field(s) bound to the same object
                for st in ast.walk(init.node):
                    if isinstance(st, (ast.Assign, ast.AnnAssign)) and st.value is not None:
                        tgts = st.targets if isinstance(st, ast.Assign) else [st.target]
                        names = {t.id for t in tgts if isinstance(t, ast.Name)}
                        fields = {t.attr for t in tgts if isinstance(t, ast.Attribute) and norm(t.value) == "self"}
                        if (val.id in names and fields) or (isinstance(st.value, ast.Name) and st.value.id == val.id and fields):
                            out |= fields
    return out


class _CloseableOps:
    """The element is an async iterator that has ``aclose``: what does a filter say?"""

    def call(self, name, args, kwargs, e, env):
        if name == "isinstance" and len(e.args) == 2:
            kinds = e.args[1].elts if isinstance(e.args[1], ast.Tuple) else [e.args[1]]
            if all(norm(k).split(".")[-1] in ("AsyncIterator", "ACloseable", "AsyncIterable") for k in kinds):
                return True
        if name == "hasattr" and len(e.args) == 2 and isinstance(e.args[1], ast.Constant) \
                and e.args[1].value in ("aclose", "__anext__", "__aiter__"):
            return True
        return UNKNOWN


def _appends_keep_closeable(ctx, unit, value: ast.AST) -> Optional[str]:
    """``tuple(L)`` / ``L`` where L is a local list filled by ``L.append(x)`` under conditions: an
    element that is a closeable async iterator must reach the append (conditions are abstractly
    evaluated for such an element; '' = fine / not applicable)."""
    v = value
    if isinstance(v, ast.Call) and norm(v.func).split(".")[-1] in ("tuple", "list") and len(v.args) == 1:
        v = v.args[0]
    if not isinstance(v, ast.Name):
        return None
    from asl.absint import AbsEval
    cfg = cfg_of(unit)
    adds = [n for n in cfg.nodes if n.kind == "call" and not n.tag and isinstance(n.ast.func, ast.Attribute)
            and isinstance(n.ast.func.value, ast.Name) and n.ast.func.value.id == v.id and n.ast.func.attr == "append"]
    if not adds:
        return None
    ev = AbsEval(_CloseableOps())
    for a in adds:
        loops = [x for (k, x) in a.regions if k == "loop" and isinstance(x, ast.For)]
        if not loops:
            continue
        heads = [n for n in cfg.nodes if n.kind == "snext" and n.ast is loops[-1] and not n.tag]
        for h in heads:
            body = [s for (lab, s) in h.succ if lab == "n"]

            def edge(p_, lab, q) -> bool:
                if lab in ("e", "p"):
                    return False
                if p_.kind == "branch":
                    val = ev.eval(p_.ast, {})
                    if val is True:
                        return lab == "t"
                    if val is False:
                        return lab == "f"
                    return False  # an uninterpreted condition may drop closeable iterators
                return True

            if body and find_path(body[0], lambda x, a=a: x is a, edge_ok=edge, include_src=True) is None:
                return f"`{v.id}.append(...)` is not reached for every closeable async iterator (condition may drop some)"
    return None


def _filter_problem(ctx, unit, value: ast.AST) -> Optional[str]:
    """A filtered collection is complete only if the filters keep every closeable iterator:
    each condition is abstractly evaluated for an element that is an async iterator with
    ``aclose`` (predicates extracted into helpers are evaluated through their bodies)."""
    from .common import abstract_values
    for sub in ast.walk(value):
        if isinstance(sub, (ast.GeneratorExp, ast.ListComp)):
            for g in sub.generators:
                for cond in g.ifs:
                    vals = abstract_values(ctx, unit, _CloseableOps(), cond, {})
                    if vals != {True}:
                        return f"filter `{norm(cond)}` may drop closeable iterators"
        if isinstance(sub, ast.Subscript) and isinstance(sub.slice, ast.Slice):
            return f"slice `{norm(sub)}`"
        if isinstance(sub, ast.Call) and norm(sub.func) == "filter" and len(sub.args) == 2 and not sub.keywords:
            # ``filter(predicate, xs)``: the predicate applied to a closeable async iterator must say "keep"
            probe = ast.copy_location(ast.Call(func=sub.args[0], args=[ast.Name(id="<element>", ctx=ast.Load())], keywords=[]), sub)
            ast.fix_missing_locations(probe)
            vals = abstract_values(ctx, unit, _CloseableOps(), probe, {})
            if vals != {True}:
                return f"filter(`{norm(sub.args[0])}`, ...) may drop closeable iterators"
    return None


def _handle_close_nodes(ctx, aclose: Unit, cfg, src: str) -> Set[Node]:
    out: Set[Node] = set()
    for n in cfg.nodes:
        if n.kind == "siter" and ownership._loop_closes_all(ctx, aclose, cfg, n, src):
            it = n.info["iter"]
            if isinstance(it, ast.Attribute) or isinstance(it, ast.Name):
                out.add(n)
        elif n.kind == "await" and (ownership._is_aclose_await(ctx, aclose, n, src)
                                    or ownership._is_close_helper_await(ctx, aclose, n, src)) and not n.in_loop():
            out.add(n)
    return out


# --------------------------------------------------------------------------- R04.6
def r04_6(ctx) -> None:
    """Handles usable as ``async with h:`` release on leaving the block: ``__aexit__`` of a class
    that has ``aclose`` awaits ``self.aclose()`` on every normal path."""
    ctx.rule("R04.6", "__aexit__ of a closable handle awaits self.aclose() on every path")
    for mod in ctx.pkg.modules.values():
        for info in mod.classes.values():
            ex, acl, init = info.methods.get("__aexit__"), info.methods.get("aclose"), info.methods.get("__init__")
            if ex is None or acl is None or ex.kind != "coroutine" or init is None:
                continue
            if not any({"ITERABLE", "ITERATOR"} & roles_of_annotation(p.annotation) for p in init.params()[1:]):
                continue  # not a handle around a user's iterable (ExitStack.aclose is defined *by* its __aexit__)
            ctx.count("closing_context_handles")
            cfg = cfg_of(ctx.inlined(ex))
            closes = {n for n in cfg.nodes if n.kind == "await" and isinstance(n.info.get("value"), ast.Call)
                      and isinstance(n.info["value"].func, ast.Attribute) and n.info["value"].func.attr == "aclose"
                      and norm(n.info["value"].func.value) == ex.param_names()[0]}
            path = find_path(cfg.entry, lambda x: x is cfg.exit, avoid=lambda x: x in closes,
                             edge_ok=lambda a, lab, b: lab not in ("e", "p"))
            ctx.check(path is None and bool(closes), "R04.6", ex, "__aexit__",
                      "leaving `async with <handle>` closes the handle (awaits self.aclose()) on every path",
                      witness=pretty_path(path))


# --------------------------------------------------------------------------- R04.4
def r04_4(ctx) -> None:
    for mod in ctx.pkg.modules.values():
        for info in mod.classes.values():
            for mname in ("aclose",):
                meth = info.methods.get(mname)
                if meth is None:
                    continue
                ctx.count("aclose_methods")
                _check_reads(ctx, info, meth, set(), 0)


def _check_reads(ctx, info, meth: Unit, seen: Set[str], depth: int) -> None:
    if meth.fq in seen or depth > 3:
        return
    seen.add(meth.fq)
    init = None
    for c in ctx.vals.mro(info.fq):
        if "__init__" in c.methods:
            init = c.methods["__init__"]
            break
    assigned: Set[str] = set()
    if init is not None:
        bare = {id(st.target) for st in own_nodes(init.node) if isinstance(st, ast.AnnAssign) and st.value is None}
        for x in own_nodes(init.node):
            if isinstance(x, ast.Attribute) and isinstance(x.ctx, ast.Store) and isinstance(x.value, ast.Name) \
                    and x.value.id == "self" and id(x) not in bare:  # ``self.x: T`` alone assigns nothing
                assigned.add(x.attr)
    cfg = cfg_of(meth)
    for n in cfg.nodes:
        if n.tag:
            continue
        if n.kind == "attr":
            e = n.ast
            assert isinstance(e, ast.Attribute)
            if not (isinstance(e.value, ast.Name) and e.value.id == "self" and isinstance(e.ctx, ast.Load)):
                continue
            if ctx.vals.find_method(info.fq, e.attr) is not None:
                continue
            if e.attr.startswith("__") and e.attr.endswith("__"):
                continue
            protected = any(k == "try_body" and any(
                "AttributeError" in norm(h.type) for h in a.handlers) for (k, a) in n.regions)  # type: ignore[union-attr]
            has_state = init is not None and (info.slots is not None or assigned)
            if not has_state:
                continue
            ok = e.attr in assigned or protected or _class_level(info, ctx, e.attr)
            ctx.check(ok, "R04.4", meth, e,
                      f"`self.{e.attr}` read during {meth.qualname} is initialised by {info.name}.__init__",
                      node=n, witness="" if ok else
                      f"{info.name}.__init__ assigns {sorted(assigned)}; `{e.attr}` is a slot that is only set "
                      f"later, so closing before the first step raises AttributeError")
        elif n.kind == "call":
            f = n.ast.func  # type: ignore[union-attr]
            if isinstance(f, ast.Attribute):
                fv = ctx.vals.expr(meth, f, n)
                for a in fv:
                    if a[0] == "bound":
                        target = ctx.vals.find_method(a[1], a[2])
                        tinfo = ctx.pkg.lib_class(a[1])
                        # only follow receivers that exist as soon as the handle exists
                        recv = f.value
                        via_self = isinstance(recv, ast.Name) and recv.id == "self" or (
                            isinstance(recv, ast.Attribute) and isinstance(recv.value, ast.Name)
                            and recv.value.id == "self")
                        if target is not None and tinfo is not None and via_self:
                            _check_reads(ctx, tinfo, target, seen, depth + 1)


def _class_level(info, ctx, attr: str) -> bool:
    for c in ctx.vals.mro(info.fq):
        for stmt in c.node.body:
            if isinstance(stmt, ast.Assign) and any(isinstance(t, ast.Name) and t.id == attr for t in stmt.targets):
                return True
            if isinstance(stmt, ast.AnnAssign) and isinstance(stmt.target, ast.Name) and stmt.target.id == attr \
                    and stmt.value is not None:
                return True
    return False


# --------------------------------------------------------------------------- R04.5
def _identity_index_helper(ctx, u, call: ast.Call) -> bool:
    """``helper(seq, item)``: a plain library function whose every non-constant return is the loop position of
    ``for pos, cand in enumerate(seq)`` under the guard ``cand is item``; its constant returns say "not found"."""
    res = ctx.pkg.resolve_expr_global(u.module, call.func)
    t = ctx.pkg.lib_unit(res.qual) if res is not None and getattr(res, "qual", None) else None
    if t is None or t.kind != "sync" or len(t.param_names()) != 2:
        return False
    seq, item = t.param_names()
    parents = {}
    for x in ast.walk(t.node):
        for c in ast.iter_child_nodes(x):
            parents[id(c)] = x
    found = False
    for r in own_nodes(t.node):
        if not isinstance(r, ast.Return):
            continue
        if r.value is None or isinstance(r.value, ast.Constant) or (isinstance(r.value, ast.UnaryOp) and isinstance(r.value.operand, ast.Constant)):
            continue
        if not isinstance(r.value, ast.Name):
            return False
        guard = parents.get(id(r))
        loop = parents.get(id(guard)) if guard is not None else None
        ok = isinstance(guard, ast.If) and isinstance(guard.test, ast.Compare) and len(guard.test.ops) == 1 \
            and isinstance(guard.test.ops[0], ast.Is) and {norm(guard.test.left), norm(guard.test.comparators[0])} >= {item} \
            and isinstance(loop, ast.For) and isinstance(loop.iter, ast.Call) and norm(loop.iter.func) == "enumerate" \
            and len(loop.iter.args) == 1 and norm(loop.iter.args[0]) == seq and isinstance(loop.target, ast.Tuple) \
            and len(loop.target.elts) == 2 and norm(loop.target.elts[0]) == r.value.id \
            and norm(loop.target.elts[1]) in {norm(guard.test.left), norm(guard.test.comparators[0])}
        if not ok:
            return False
        found = True
    return found


def r04_5(ctx) -> None:
    u = ctx.inlined(ctx.unit("itertools.tee_peer"))
    cfg = cfg_of(u)
    from . import c09
    P = c09._params(u)  # parameters identified by their annotations, not their names
    src = f"{u.short}:{P['iterator']}"
    fin_tries = [n.ast for n in cfg.nodes if n.kind == "nop" and False]
    # locate the finally region(s)
    tries = {id(a): a for n in cfg.nodes for (k, a) in n.regions if k == "finally"}
    if not tries:
        ctx.fail("R04.5", u, "tee_peer", "tee_peer has no finally block: a closed or failing child never removes "
                 "its buffer and the source is never closed")
        return
    # the shared source is closed nowhere but in that clean-up (where it is conditioned on "no buffer remains")
    for n in cfg.nodes:
        if not any(k == "finally" for (k, _a) in n.regions) and (
                ownership._is_aclose_await(ctx, u, n, src) or ownership._is_close_helper_await(ctx, u, n, src)):
            ctx.fail("R04.5", u, n, "the shared source is closed outside the clean-up that tests whether another child still needs "
                     "it: a child that fails or is cancelled here takes the source away from its live siblings", node=n)
    for tag in ("", "exc"):
        nodes = [n for n in cfg.nodes if n.tag == tag and any(k == "finally" for (k, _a) in n.regions)]
        if not nodes:
            continue
        ctx.count("tee_finally_copies")
        entry = nodes[0]
        peers_name, buffer_name = _tee_names(u)
        removals = set()
        index_names: Set[str] = set()
        for n in nodes:
            if n.kind == "call" and isinstance(n.ast.func, ast.Attribute) and isinstance(n.ast.func.value, ast.Name) \
                    and n.ast.func.value.id == peers_name and n.ast.func.attr in ("pop", "remove"):  # type: ignore[union-attr]
                removals.add(n)
            if n.kind == "del" and any(isinstance(t, ast.Subscript) and isinstance(t.value, ast.Name)
                                       and t.value.id == peers_name for t in n.info.get("targets", [])):
                removals.add(n)
        closes = {n for n in nodes if ownership._is_aclose_await(ctx, u, n, src)
                  or ownership._is_close_helper_await(ctx, u, n, src)}
        empty_edge = _emptiness_tests(ctx, u, cfg, nodes, peers_name)
        tests = set(empty_edge)
        # (a) the removal is by identity with the child's own buffer
        for r in removals:
            if r.kind == "call" and r.ast.func.attr == "remove":  # type: ignore[union-attr]
                ctx.fail("R04.5", u, r, "the buffer is removed by equality (`list.remove` compares deques by content): a "
                         "finishing child can unregister a sibling whose buffer has equal contents, and stays "
                         "registered itself", node=r)
                continue
            idx_expr = r.ast.args[0] if r.kind == "call" and r.ast.args else None  # type: ignore[union-attr]
            if r.kind == "del":
                t = [t for t in r.info["targets"] if isinstance(t, ast.Subscript)][0]
                idx_expr = t.slice
            by_identity = False
            if isinstance(idx_expr, ast.Name):
                index_names.add(idx_expr.id)
                # (i) loop index under an `x is buffer` guard
                by_identity = any(p.kind == "branch" and isinstance(p.ast, ast.Compare)
                                  and any(isinstance(o, ast.Is) for o in p.ast.ops)
                                  and buffer_name in {x.id for x in ast.walk(p.ast) if isinstance(x, ast.Name)}
                                  for p in _pred_chain(r, 4))
                # (ii) index found by next(<generator over enumerate(peers) if x is buffer>, default)
                from asl.flow import reaching
                for d in reaching(cfg).defs_at(r, idx_expr.id):
                    v = d.info.get("value") if d.kind == "store" else None
                    if isinstance(v, ast.Call) and norm(v.func) == "next" and v.args and isinstance(v.args[0], ast.GeneratorExp):
                        g = v.args[0]
                        conds = [c for gen in g.generators for c in gen.ifs]
                        if any(isinstance(c, ast.Compare) and any(isinstance(o, ast.Is) for o in c.ops)
                               and buffer_name in {x.id for x in ast.walk(c) if isinstance(x, ast.Name)} for c in conds) \
                                and peers_name in {x.id for x in ast.walk(g.generators[0].iter) if isinstance(x, ast.Name)}:
                            by_identity = True
                    # (iii) index found by a library helper that searches by identity, used under a "found" guard
                    if isinstance(v, ast.Call) and len(v.args) == 2 and not v.keywords and norm(v.args[0]) == peers_name \
                            and norm(v.args[1]) == buffer_name and _identity_index_helper(ctx, u, v) \
                            and any(p.kind == "branch" and idx_expr.id in {x.id for x in ast.walk(p.ast) if isinstance(x, ast.Name)}
                                    for p in _pred_chain(r, 4)):
                        by_identity = True
            ctx.check(by_identity, "R04.5", u, r,
                      "the child's own buffer is removed by identity (index found with `is`)", node=r)
        ctx.check(bool(removals), "R04.5", u, f"finally of tee_peer ({tag or 'normal'} exit)",
                  "a finishing child removes its buffer from the shared list")
        # (b) close only when no buffer remains, and then always (if closeable)
        for c in closes:
            path = find_path(entry, lambda x, c=c: x is c, avoid=None,
                             edge_ok=lambda a, lab, b: lab not in ("e", "p") and not (a in tests and lab == empty_edge[a]))
            ctx.check(path is None, "R04.5", u, c, "the source is closed only when no peer buffer remains",
                      node=c, witness=pretty_path(path))
        if tests:
            for t in tests:
                # from "peers is empty" every path reaches the close or the not-closeable branch
                start = [s for (lab, s) in t.succ if lab == empty_edge[t]]
                miss = find_path(start[0], lambda x: x in (cfg.exit, cfg.raise_exit) or x.kind == "reraise",
                                 avoid=lambda x: x in closes,
                                 edge_ok=lambda a, lab, b: lab not in ("e",) and not (
                                     a.kind == "branch" and lab == "f" and "ACloseable" in norm(a.ast)),
                                 include_src=False) if start else None
                if start and start[0] in closes:
                    miss = None
                ctx.check(bool(closes) and miss is None, "R04.5", u, t,
                          "when the last buffer is removed the source is closed (if it has aclose)", node=t,
                          witness=pretty_path(miss))
            # the emptiness test comes after the removal
            for t in tests:
                def found_edge(a: Node, lab: str, b: Node) -> bool:
                    if lab in ("e", "p"):
                        return False
                    if a.kind == "snext" and lab == "stop":
                        return False  # the buffer was not found (already removed)
                    if a.kind == "branch" and isinstance(a.ast, ast.Compare) and isinstance(a.ast.left, ast.Name) \
                            and a.ast.left.id in index_names and norm(a.ast.comparators[0]) == "None":
                        none_edge = "t" if isinstance(a.ast.ops[0], ast.Is) else "f"
                        return lab != none_edge  # index is None: not found
                    if a.kind == "branch" and isinstance(a.ast, ast.Compare) and isinstance(a.ast.left, ast.Name) \
                            and a.ast.left.id in index_names and len(a.ast.ops) == 1 and norm(a.ast.comparators[0]) in ("0", "-1"):
                        # ``idx >= 0`` / ``idx < 0`` / ``idx != -1`` / ``idx == -1``: the edge that says "not found"
                        op, c = type(a.ast.ops[0]).__name__, norm(a.ast.comparators[0])
                        missing = {("GtE", "0"): "f", ("Lt", "0"): "t", ("NotEq", "-1"): "f", ("Eq", "-1"): "t", ("Gt", "-1"): "f"}.get((op, c))
                        if missing is not None:
                            return lab != missing
                    return True

                # where the list is actually looked at: the branch, or the store of the local it tests
                looks = _test_positions(ctx, u, cfg, t)
                before = None
                for pos in looks:
                    before = before or find_path(entry, lambda x, pos=pos: x is pos, avoid=lambda x: x in removals, edge_ok=found_edge)
                ctx.check(before is None, "R04.5", u, t,
                          "the emptiness test of the shared list follows the removal of the own buffer", node=t,
                          witness=pretty_path(before))
        else:
            ctx.fail("R04.5", u, f"finally of tee_peer ({tag or 'normal'} exit)",
                     "the source close is not conditioned on the shared buffer list being empty")


def _emptiness_tests(ctx, u, cfg, nodes, peers_name: str) -> dict:
    """branch node -> label of the edge on which the shared list is empty: a truth test of
    the list itself, of ``len(list)`` comparisons, or of a local bound to one of those."""
    from .common import name_value

    def polarity(e, depth=0):
        """'f' if truthiness of e == list non-empty, 't' if == list empty, else None"""
        if isinstance(e, ast.Name) and e.id == peers_name:
            return "f"
        if isinstance(e, ast.UnaryOp) and isinstance(e.op, ast.Not):
            p = polarity(e.operand, depth)
            return {"f": "t", "t": "f"}.get(p)
        if isinstance(e, ast.Call) and norm(e.func) in ("bool", "len") and len(e.args) == 1:
            return polarity(e.args[0], depth)
        if isinstance(e, ast.Compare) and len(e.ops) == 1 and isinstance(e.left, ast.Call) and norm(e.left.func) == "len" \
                and e.left.args and polarity(e.left.args[0], depth) == "f" and isinstance(e.comparators[0], ast.Constant):
            c, op = e.comparators[0].value, type(e.ops[0])
            if (c, op) in ((0, ast.Eq), (1, ast.Lt), (0, ast.LtE)):
                return "t"
            if (c, op) in ((0, ast.NotEq), (0, ast.Gt), (1, ast.GtE)):
                return "f"
        return None

    out = {}
    for n in nodes:
        if n.kind != "branch":
            continue
        e = n.ast
        p = polarity(e)
        if p is None and isinstance(e, ast.Name):
            v = name_value(ctx, u, cfg, n, e.id)
            p = polarity(v) if v is not None else None
        if p is not None:
            out[n] = p
    return out


def _test_positions(ctx, u, cfg, t: Node) -> List[Node]:
    if isinstance(t.ast, ast.Name):
        from asl.flow import reaching
        defs = [d for d in reaching(cfg).defs_at(t, t.ast.id) if d.kind == "store" and d.info.get("value") is not None]
        if defs and t.ast.id not in u.param_names():
            return defs
    return [t]


def _tee_names(u) -> Tuple[str, str]:
    from . import c09
    P = c09._params(u)
    return P["peers"], P["buffer"]


def _pred_chain(n: Node, depth: int) -> List[Node]:
    out: List[Node] = []
    frontier = [n]
    for _ in range(depth):
        nxt = []
        for x in frontier:
            for _lab, p in x.pred:
                out.append(p)
                nxt.append(p)
        frontier = nxt
    return out
