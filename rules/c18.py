"""C18 — cancellation anywhere leaves no leaked source, held lock or poisoned cache.

Cancellation = an exception thrown in at a suspension point.  The CFG has an exceptional
successor on every await / yield / async-for pull / async-with enter and exit, so "every
suspension point" is enumerated exactly.

R18.1 sources: the ownership rule of C04 restricted to suspension nodes.
R18.2 locks: a user-supplied lock is only ever used as the context expression of an
      ``async with``; no manual __aenter__/__aexit__/acquire/release on it.
R18.3 caches: no cache / cached-property store is reachable on the exceptional successor
      of the awaited user call (shared with C11 R11.4 and C12 R12.2).
R18.4 ExitStack: the per-callback handler is BaseException-wide, inside the loop, and
      control continues with the remaining callbacks; the exception is re-raised after
      the loop (shared with C14 R14.2).
R18.5 the same exception propagates: no handler on the way can swallow or replace a
      BaseException thrown in at a suspension point, cleanup never masks (shared with C06).
"""
from __future__ import annotations

import ast

from asl.cfg import cfg_of
from asl.loader import norm
from asl.values import USERISH, roles_of_annotation
from . import ownership
from .common import real_units


class _Relabel:
    """Run a rule shared with another property under a C18 rule id."""

    def __init__(self, ctx, rid, only=None):
        self._ctx, self._rid, self._only = ctx, rid, only

    def __getattr__(self, name):
        return getattr(self._ctx, name)

    def _take(self, rule):
        return self._only is None or any(rule.startswith(o) for o in self._only)

    def ok(self, rule, *a, **k):
        if self._take(rule):
            return self._ctx.ok(self._rid, *a, **k)

    def fail(self, rule, *a, **k):
        if self._take(rule):
            return self._ctx.fail(self._rid, *a, **k)

    def check(self, cond, rule, *a, **k):
        if self._take(rule):
            return self._ctx.check(cond, self._rid, *a, **k)
        return cond

    def rule(self, *a, **k):
        return None

    def floor(self, *a, **k):
        return None

    def assume(self, *a, **k):
        return None

LEVEL = {
    "decided": "C18: at every suspension point of every library coroutine/async generator (R18.1) the "
               "exceptional continuation closes every iterable parameter still owed a close; (R18.2) user locks are "
               "held only through async with; (R18.3) no cache or cached-property store lies on an exceptional "
               "successor; (R18.4) the ExitStack unwind catches BaseException per callback and continues; (R18.5) "
               "no handler can swallow/replace a thrown-in BaseException and cleanup never masks it; (R18.6) the "
               "aclose() of every owning handle (chain, tee, groupby) closes its sources on every path.",
    "not_decided": "that user aclose()/lock __aexit__ really release (user code).",
    "technique": "static analysis: exceptional-successor coverage on a CFG with exception edges",
}
LEVEL["decided"] += ' R18.4 shares the enter_context table R14.4 (a manager is registered only after it was entered).'
LEVEL["decided"] += ' (R18.9) the scope primitive closes whatever the exit reason (R04.0, shared): a cancellation is not told from an ordinary exit.'
LEVEL["decided"] += ' (R18.7) leaving a scoped_iter block closes the real iterator on every path (R08.3, shared).'
LEVEL["decided"] += ' R18.4 also: an exit registered while the stack unwinds from a cancelled block has run when the unwind is over (R14.12, shared); (R18.8) scoped_iter chooses the neutral context by asking aiter(iterable) for aclose (R08.4, shared).'

# ExitStack's own protocol: it *is* the code that calls __aenter__/__aexit__ by hand
MANUAL_PROTOCOL_OK = {
    "contextlib.ExitStack": "ExitStack emulates the with statement for the managers handed to it (enter by hand, register "
                            "the exit; push registers the exit of a manager entered elsewhere) — in any of its methods",
}


def _manual_ok(u) -> bool:
    return u.short in MANUAL_PROTOCOL_OK or (u.cls is not None and f"{u.module.short}.{u.cls.name}" in MANUAL_PROTOCOL_OK)
LOCK_METHODS = {"__aenter__", "__aexit__", "__enter__", "__exit__", "acquire", "release", "locked"}


def run(ctx) -> None:
    ctx.rule("R18.1", "suspension nodes while an iterable parameter is owed a close are covered by cleanup")
    ctx.rule("R18.2", "user locks are only used as `async with` context expressions")
    ctx.rule("R18.3", "no cache / cached-property store on the exceptional successor of the awaited user call (R11.4, R12.2)")
    ctx.rule("R18.4", "ExitStack unwind: BaseException caught per callback, unwinding continues, exception re-raised (R14.2)")
    ctx.rule("R18.5", "no handler can swallow or replace a thrown-in BaseException; cleanup never masks (R06.1-R06.3)")
    ctx.rule("R18.6", "handles (chain, tee, groupby, borrowed views): the owner's aclose() closes every owned source on "
                      "every path, whatever state the cancelled iteration left behind (R04.3, R04.4)")
    ctx.assume("cancellation is delivered as an exception thrown in at a suspension point")
    for unit, pname, src in ownership.iterable_params(ctx):
        ctx.count("iterable_params")
        ownership.check_param(ctx, "R18.1", unit, pname, src, kinds=ownership.SUSPENSION_KINDS)
    r18_2(ctx)
    ctx.floor("iterable_params", 20)
    ctx.floor("lock_async_with_sites", 2)
    r18_3(ctx)
    r18_4(ctx)
    r18_5(ctx)
    r18_6(ctx)
    from . import c08
    from .common import Relabel
    ctx.rule("R18.7", "leaving a scoped_iter block closes the real iterator on every path, whatever state a cancelled step left the "
                      "wrapper in (R08.3, shared)")
    c08.r08_3(Relabel(ctx, "R18.7"))
    ctx.rule("R18.8", "a scoped_iter block gets the closing context whenever the iterator it uses can be closed: the neutral context "
                      "is chosen by asking aiter(iterable), not the iterable, for aclose (R08.4, shared)")
    c08.r08_4(Relabel(ctx, "R18.8"))
    # R18.1 counts the exit of ``async with ScopedIter(..)`` as the close that a cancelled step is owed: that holds only if the
    # primitive closes whatever the exit reason is (a cancellation is a BaseException, not an Exception)
    from . import c04
    ctx.rule("R18.9", "the scope primitive closes its iterator on every path and never looks at the exit reason: cancellation "
                      "(a BaseException) is cleaned up after like any other exit (R04.0, shared)")
    c04.r04_0(Relabel(ctx, "R18.9"))


def r18_2(ctx) -> None:
    for u in real_units(ctx):
        cfg = cfg_of(u)
        for n in cfg.nodes:
            if n.tag:
                continue
            if n.kind == "enter" and not n.info.get("sync"):
                v = ctx.vals.expr(u, n.info.get("cm"), n)
                if any(a[0] == "user" and _is_lock_src(ctx, a[1]) for a in v):
                    ctx.count("lock_async_with_sites")
                    ctx.ok("R18.2", u, f"lock `{norm(n.info.get('cm'))}` is held through async with", line=n.line)
            if n.kind == "attr" and n.ast.attr in LOCK_METHODS:  # type: ignore[union-attr]
                v = ctx.vals.expr(u, n.ast.value, n)  # type: ignore[union-attr]
                if any(a[0] == "user" and _is_lock_src(ctx, a[1]) for a in v):
                    if _manual_ok(u):
                        continue
                    ctx.fail("R18.2", u, n.ast, "manual use of a user-supplied lock outside `async with`: "
                             "a cancellation between acquire and release leaves it held", node=n)


def _is_lock_src(ctx, src: str) -> bool:
    ushort, _, pname = src.partition(":")
    pname = pname.split(".")[0].rstrip("[]")
    if not ctx.pkg.has_unit(ushort):
        return False
    u = ctx.pkg.unit(ushort)
    if _manual_ok(u):
        return False
    for p in u.params():
        if p.arg == pname:
            return "ACM" in roles_of_annotation(p.annotation)
    return False


def r18_3(ctx) -> None:
    from . import c11, c12
    from .lru import CLASSES, LruClass
    for kind in CLASSES:
        lc = LruClass(ctx, kind)
        c11.check_call(_Relabel(ctx, "R18.3", only=("R11.4",)), lc)
    info = ctx.pkg.cls(c12.PLACEHOLDER)
    c12.r12_2(_Relabel(ctx, "R18.3"), info)


def r18_4(ctx) -> None:
    from . import c14
    end = c14.r14_1(_Relabel(ctx, "R18.4"))
    c14.r14_2(_Relabel(ctx, "R18.4"), end)
    # a cancellation arriving while enter_context is suspended in the manager's enter must not leave an exit
    # registered for a context that was never entered (R14.4's table, shared)
    c14.r14_4(_Relabel(ctx, "R18.4"))
    # an exit registered by an exit while the stack unwinds from a cancelled block has run when the unwind is over (R14.12, shared)
    c14.r14_12(_Relabel(ctx, "R18.4"), end)


def r18_6(ctx) -> None:
    from . import c04
    sub = _Relabel(ctx, "R18.6")
    c04.r04_3(sub)
    c04.r04_4(sub)


def r18_5(ctx) -> None:
    from . import c06
    sub = _Relabel(ctx, "R18.5")
    for u in real_units(ctx):
        c06._census(sub, u)
        c06._finally_blocks(sub, u)
    c06._aexit_falsy(sub)
