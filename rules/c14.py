"""C14 — ExitStack unwinds like nested async-with; each exit runs exactly once.

R14.1 LIFO orientation: every registration path (push, callback, enter_context) adds at
      the same end of the callback container; the unwind takes from that end first.
R14.2 unwind = nested with-statements: ``ExitStack.__aexit__`` is abstractly evaluated for
      every stack of 0..3 registered exits x callback outcome in {falsy, truthy, raises a
      new (Base)Exception} x {block raised, block did not raise}; the invocation trace
      (order, exception triple each exit received) and the overall outcome (which exception
      object propagates, or suppression) are compared with a reference model of nested
      ``async with`` statements.
R14.3 run exactly once: in every such execution the container is empty afterwards, so a
      second unwind (``aclose`` then leaving the block) finds nothing to run.
R14.4 enter-then-register: in ``enter_context`` the registration is dominated by the normal
      completion of the manager's enter and is unreachable from its exceptional successor;
      the registered exit belongs to the same manager.
R14.5 callbacks cannot suppress and get their arguments: ``_aexit_callback`` awaits the
      stored callback once and returns constant False; ``callback()`` binds *args/**kwargs.
R14.6 pop_all transfers: the returned stack holds the old container object, the original
      gets a fresh empty one (no copy, no double ownership).
"""
from __future__ import annotations

import ast
import itertools
from typing import Any, Dict, List, Optional, Tuple

from asl.absint import UNKNOWN, STOP, AbsEval, Machine
from asl.cfg import Node, cfg_of
from asl.flow import find_path, node_defs, pretty_path, reachable
from asl.loader import AnalysisError, norm, own_nodes
from .common import make_resolver

LEVEL = {
    "decided": "C14: (R14.1) registration and unwind use the same end; (R14.2) __aexit__ abstractly evaluated over all "
               "stacks of 0..3 exits x {falsy, truthy, raises} x {exception received or not} (80 executions) matches the "
               "nested-with reference model in invocation order, exception triple passed to each exit and final "
               "outcome; (R14.3) the callback container is empty after every unwind; (R14.4) enter_context as a table (async / sync manager x "
               "enter succeeds / raises, and a sync object without __exit__): entered once, its own exit registered only after "
               "a successful enter, never entered when the protocol is incomplete; (R14.5) callbacks never suppress and keep their arguments; (R14.6) "
               "pop_all moves the container.",
    "not_decided": "__context__ chaining details (_stitch_context), which the statement does not mention; behaviour "
                   "of the user's context managers themselves.",
    "technique": "static analysis: finite-domain abstract evaluation of the unwind loop against a reference table",
}
LEVEL["decided"] += ' The unwind table distinguishes exits that fail when *called* (synchronous exits wrapped for awaiting) from exits that fail when awaited: 312 scenarios.'
LEVEL["decided"] += ' (R14.7) no finally block of the unwind can replace its outcome; R14.5 accepts a closure or pre-bound partial as the registered runner under the same obligations.'
LEVEL["decided"] += " (R14.8) callbacks keep the keyword arguments they were registered with (R03.13, shared); (R14.9) a stack can be closed again after a close that ended with an exception: exits registered in between run (evaluated as a history on the model with the stack's own fields)."
LEVEL["decided"] += " (R14.10) awaitify's wrapper cannot intercept and retry a failing exit (C06's census on _core, shared); force_async is applied by awaitify itself or to a synchronous protocol method only."
LEVEL["technique"] += "; re-close history on the model with the stack's own fields"
LEVEL["decided"] += ' (R14.14) every registration gets a wrapper of its own that decides sync / async on the result of the call (adapter table R03.3, shared).'
LEVEL["decided"] += ' (R14.11) what push() registers for each kind of argument (async exit, sync context manager, both - the asynchronous protocol wins -, plain callable, neither); (R14.12) an exit registered by an exit during the unwind runs in that unwind, once, and nothing is left in the stack; (R14.13) callback() takes the stack and the callback positional-only.'
LEVEL["decided"] += ' R14.9 also: aclose() hands every exit (None, None, None); R14.5 accepts a fourth form of the registered runner, an object of a private class with a coroutine __call__, under the same obligations.'

STACK_ATTR = "_exit_callbacks"  # re-derived from ExitStack.__init__ on every run (_derive_stack_attr)


def _context_helpers(ctx) -> tuple:
    """Names of the library's plain helpers that only re-link ``__context__`` of exceptions (whatever they are called and
    wherever they live): what they do is outside the statement, the unwind model does not follow them."""
    cached = ctx.__dict__.get("_context_helpers")
    if cached is not None:
        return cached
    names = {"_stitch_context"}
    m = ctx.pkg.module("contextlib")
    for u in m.units.values():
        if u.kind != "sync" or u.parent is not None:
            continue
        stores = [x for x in own_nodes(u.node) if isinstance(x, ast.Attribute) and isinstance(x.ctx, ast.Store)]
        rets = [x for x in own_nodes(u.node) if isinstance(x, ast.Return) and x.value is not None]
        if stores and all(x.attr == "__context__" for x in stores) and not rets \
                and not any(isinstance(x, (ast.Await, ast.Yield, ast.Raise)) for x in own_nodes(u.node)):
            names.add(u.node.name)
    ctx.__dict__["_context_helpers"] = tuple(sorted(names))
    return ctx.__dict__["_context_helpers"]


def _derive_stack_attr(ctx) -> str:
    """The attribute holding the registered exits: the field that ExitStack.__init__ binds to an
    empty deque()/list (its name is free)."""
    global STACK_ATTR
    info = ctx.pkg.cls("contextlib.ExitStack")
    init = info.methods.get("__init__")
    found = []
    for st in (own_nodes(init.node) if init is not None else []):
        tg = st.targets[0] if isinstance(st, ast.Assign) and len(st.targets) == 1 else st.target if isinstance(st, ast.AnnAssign) else None
        val = getattr(st, "value", None)
        if isinstance(tg, ast.Attribute) and norm(tg.value) == "self" and (
                (isinstance(val, ast.Call) and norm(val.func).split(".")[-1] in ("deque", "list") and not val.args)
                or (isinstance(val, ast.List) and not val.elts)):
            found.append(tg.attr)
    if len(found) != 1:
        raise AnalysisError(f"ExitStack.__init__: the container of registered exits could not be identified ({found}) (anchor moved)")
    STACK_ATTR = found[0]
    return STACK_ATTR


def r14_9(ctx, end: str) -> None:
    """aclose() unwinds what is registered - every time: close a stack whose exit fails (the failure propagates, as it
    must), register something new, close again.  The new exit runs."""
    ctx.rule("R14.9", "aclose(): a stack can be closed again after a close that ended with an exception - exits registered in "
                      "between run (no state of the stack outlives a failing unwind)")
    cls = ctx.pkg.cls("contextlib.ExitStack")
    u = cls.methods.get("aclose")
    init = cls.methods.get("__init__")
    if u is None or init is None:
        ctx.note("R14.9: ExitStack.aclose / __init__ not found; not evaluated")
        return
    me = u.param_names()[0]
    for first in ("R", "F", "T"):
        ops = _UnwindOps({"CB1": first, "CB2": "F"})
        env0 = {init.param_names()[0]: "SELF", "@conts": {0: ()}, "@field": 0, "@trace": ()}
        try:
            o0 = Machine(cfg_of(init), ops, resolver=make_resolver(ctx, init, ops)).run(env0)
        except AnalysisError:
            o0 = []
        fields = {k: v for oc in o0[:1] for k, v in oc.env.items() if k.startswith("@f:")}
        env1 = dict(fields)
        env1.update({me: "SELF", "@conts": {0: ("CB1",)}, "@field": 0, "@trace": ()})
        try:
            o1 = Machine(cfg_of(u), ops, resolver=make_resolver(ctx, u, ops, skip=_context_helpers(ctx), coroutines=True)).run(env1)
        except AnalysisError:
            o1 = []
        if len(o1) != 1:
            ctx.note(f"R14.9: [first exit {first}] the first close is not evaluable over the model ({len(o1)} outcomes)")
            continue
        ctx.count("reclose_cells")
        # aclose() is "leave the block now, without an exception": every exit is handed (None, None, None) by it - whatever
        # exception the *caller* of aclose() may be handling at that moment is not the stack's business
        got_args = [e_[1] for e_ in o1[0].env.get("@trace", ()) if e_[0] == "CB1"]
        ctx.check(bool(got_args) and all(a_ == (None, None, None) for a_ in got_args), "R14.9", u, "aclose",
                  f"[aclose() with one registered exit that {({'R': 'raises', 'F': 'returns a false value', 'T': 'suppresses'})[first]}] the "
                  "exit is called with (None, None, None): closing is leaving the block without an exception",
                  witness=f"the exit received {got_args}")
        env2 = {k: v for k, v in o1[0].env.items() if k.startswith("@f:")}
        env2.update({me: "SELF", "@conts": {0: ("CB2",)}, "@field": 0, "@trace": ()})
        try:
            o2 = Machine(cfg_of(u), ops, resolver=make_resolver(ctx, u, ops, skip=_context_helpers(ctx), coroutines=True)).run(env2)
        except AnalysisError:
            o2 = []
        ran = bool(o2) and all(any(e[0] == "CB2" for e in oc.env.get("@trace", ())) for oc in o2)
        how = {"R": "raised", "F": "returned a false value", "T": "suppressed"}[first]
        ctx.check(ran, "R14.9", u, "aclose", f"[a first aclose() whose exit {how}; a new exit registered; aclose() again] the new exit runs",
                  witness=f"state after the first close: {sorted((k[3:], str(v)) for k, v in env2.items() if k.startswith('@f:'))}")


def r14_10(ctx) -> None:
    """Exits are registered through awaitify: what it wraps around a synchronous exit must call that exit once and let its
    exception through as it is (an exit that raises is not called again), and a user's callable that may be asynchronous is
    never wrapped as "known to be synchronous"."""
    from . import c06
    from .common import Relabel, real_units
    ctx.rule("R14.10", "the wrappers around registered exits: no handler in awaitify's wrapper can intercept (and retry) a failing "
                       "exit (C06's handler census on _core, shared); force_async - the wrapper for callables known to be synchronous - "
                       "is applied by awaitify itself or to a synchronous protocol method (__exit__) only")
    sub = Relabel(ctx, "R14.10", only=("R06.1",))
    for u in real_units(ctx):
        if u.module.short == "_core" and (u.cls is not None and u.cls.name == "Awaitify" or "force_async" in u.short):
            c06._census(sub, u)
    if not ctx.pkg.has_unit("_core.force_async"):
        return
    fa = ctx.unit("_core.force_async")
    for u in real_units(ctx):
        if u.cls is not None and u.cls.name == "Awaitify" and u.module.short == "_core":
            continue
        for n in cfg_of(u).nodes:
            if n.kind != "call" or n.tag or not n.ast.args:
                continue
            r = ctx.pkg.resolve_expr_global(u.module, n.ast.func)
            if r.node is not fa.node:
                continue
            arg = n.ast.args[0]
            ok = isinstance(arg, ast.Attribute) and arg.attr in ("__exit__", "__enter__")
            ctx.check(ok, "R14.10", u, n.ast, "force_async wraps a synchronous protocol method (a user's callable may be asynchronous without "
                      "being an `async def`: it goes through awaitify, which looks at what the first call returns)", node=n)


def r14_8(ctx) -> None:
    from . import c03
    from .common import Relabel
    ctx.rule("R14.8", "callback(cb, *args, **kwargs): the awaitified callback still takes the keyword arguments it was registered "
                      "with (R03.13, shared)")
    c03.r03_13(Relabel(ctx, "R14.8"), "R14.8")


def run(ctx) -> None:
    ctx.rule("R14.1", "all registrations at one end; unwind from that end")
    ctx.rule("R14.2", "abstract evaluation of __aexit__ vs nested-with reference model")
    ctx.rule("R14.3", "callback container drained by every unwind")
    ctx.rule("R14.4", "enter dominates register; no registration on enter failure")
    ctx.rule("R14.5", "_aexit_callback returns False, awaits once; callback() binds arguments")
    ctx.rule("R14.6", "pop_all moves the container")
    ctx.assume("deque/list operation summaries: append adds right, appendleft adds left, pop() removes right, "
               "popleft() removes left, reversed()/iteration do not remove")
    end = r14_1(ctx)
    r14_2(ctx, end)
    r14_9(ctx, end)
    r14_4(ctx)
    r14_5(ctx)
    r14_6(ctx)
    r14_7(ctx)
    r14_8(ctx)
    r14_10(ctx)
    r14_11(ctx)
    r14_12(ctx, end)
    from .common import keywords_cannot_collide
    ctx.rule("R14.13", "callbacks get their arguments whatever their names: callback(cb, *args, **kwargs) takes itself and the "
                       "callback positional-only, as contextlib's stack does (a keyword `callback=` or `self=` belongs to cb)")
    keywords_cannot_collide(ctx, "R14.13", ctx.unit("contextlib.ExitStack.callback"), "the callback")
    # every registered exit is called through the adapter for callables: whether its result is awaited is decided on the result
    # of that very call by a wrapper of its own (a wrapper shared between registrations decides the second exit by the first)
    from . import c03 as _c03
    from .common import Relabel as _Rel
    ctx.rule("R14.14", "each registered exit is awaited exactly if what it returned is awaitable: awaitify hands every registration "
                       "a wrapper of its own that decides on its first call's result (adapter table R03.3, shared)")
    _c03.r03_3_awaitify(_Rel(ctx, "R14.14"))
    ctx.floor("registration_sites", 3)
    ctx.floor("push_cells", 5)
    ctx.floor("unwind_scenarios", 312)




_ALIASES: Dict[int, set] = {}


def _is_stack(unit, e) -> bool:
    """``self.<stack attribute>`` or a local that was assigned exactly that (``callbacks = self._exit_callbacks``)"""
    if norm(e) == f"self.{STACK_ATTR}":
        return True
    if isinstance(e, ast.Name) and unit is not None:
        key = id(unit.node)
        if key not in _ALIASES:
            names = {}
            for st in own_nodes(unit.node):
                if isinstance(st, ast.Assign) and len(st.targets) == 1 and isinstance(st.targets[0], ast.Name):
                    names.setdefault(st.targets[0].id, []).append(norm(st.value))
                elif isinstance(st, ast.AnnAssign) and isinstance(st.target, ast.Name) and st.value is not None:
                    names.setdefault(st.target.id, []).append(norm(st.value))
            _ALIASES[key] = {k for k, v in names.items() if v == [f"self.{STACK_ATTR}"]}
        return e.id in _ALIASES[key]
    return False

# --------------------------------------------------------------------------- R14.1
def r14_1(ctx) -> str:
    _derive_stack_attr(ctx)
    info = ctx.pkg.cls("contextlib.ExitStack")
    ends = {}
    for mname in ("push", "callback", "enter_context"):
        m = info.methods.get(mname)
        if m is None:
            raise AnalysisError(f"ExitStack.{mname} missing (anchor moved)")
        m = ctx.inlined(m)  # the registration itself may sit in a private helper of the stack
        sites = [n for n in own_nodes(m.node) if isinstance(n, ast.Call) and isinstance(n.func, ast.Attribute)
                 and _is_stack(m, n.func.value) and n.func.attr in ("append", "appendleft", "insert", "extend")]
        for s in sites:
            ctx.count("registration_sites")
            ends[(mname, s.lineno)] = {"append": "right", "appendleft": "left"}.get(s.func.attr, "?")  # type: ignore[union-attr]
        ctx.check(bool(sites), "R14.1", m, mname, f"{mname} registers an exit on self.{STACK_ATTR}")
    kinds = set(ends.values())
    ctx.check(len(kinds) == 1 and "?" not in kinds, "R14.1", "contextlib.ExitStack", "registration",
              "every registration path adds at the same end of the container", witness=str(ends))
    return kinds.pop() if len(kinds) == 1 else "right"


# --------------------------------------------------------------------------- R14.2 / R14.3
class _UnwindOps:
    """Containers are objects: env['@conts'][id] is the content tuple, env['@field'] the id
    of the container currently held in self._exit_callbacks (so swapping the field for a
    fresh container and iterating the old one is modelled faithfully)."""

    def __init__(self, scenario: Dict[str, str]):
        self.scenario = scenario

    # -- container helpers
    @staticmethod
    def _get(env, ref):
        return env["@conts"][ref[1]]

    @staticmethod
    def _set(env, ref, items):
        conts = dict(env["@conts"])
        conts[ref[1]] = tuple(items)
        env["@conts"] = conts

    @staticmethod
    def _new(env, items=()):
        conts = dict(env["@conts"])
        cid = len(conts)
        conts[cid] = tuple(items)
        env["@conts"] = conts
        return ("CONT", cid)

    @staticmethod
    def _is_cont(v):
        return isinstance(v, tuple) and len(v) == 2 and v[0] == "CONT"

    def resolves(self, call, env) -> bool:
        # a registered exit taken off the stack is one of the scenario's callbacks (the model knows what calling it does),
        # whatever the origin analysis says the stack may hold
        if isinstance(call.func, ast.Name):
            v = env.get(call.func.id)
            if isinstance(v, str) and v in self.scenario:
                return False
        return True

    def attr(self, value, name, node, env):
        if value == "SELF" and name == STACK_ATTR:
            return ("CONT", env["@field"])
        if name == "__traceback__" and isinstance(value, str):
            return ("tb", value)
        if value == "SELF" and ("@f:" + name) in env:
            return env["@f:" + name]  # any other field the stack keeps (state of its own)
        if value == "SELF":
            return ("method", name)
        return UNKNOWN

    def store(self, target, value, env, ev):
        if isinstance(target, ast.Attribute) and target.attr == STACK_ATTR and ev.eval(target.value, env) == "SELF":
            if self._is_cont(value):
                env["@field"] = value[1]
            else:
                env["@field"] = self._new(env, ())[1]
        elif isinstance(target, ast.Attribute) and ev.eval(target.value, env) == "SELF":
            env["@f:" + target.attr] = value

    def other(self, e, env, ev):
        # ``exc_details[1]``: an entry of the triple kept in one local
        if isinstance(e, ast.Subscript) and isinstance(e.slice, ast.Constant) and isinstance(e.slice.value, int):
            seq = ev.eval(e.value, env)
            if isinstance(seq, tuple) and seq[:1] not in (("SEQ",), ("AW",), ("new",), ("type",), ("CONT",), ("tb",), ("method",)) \
                    and -len(seq) <= e.slice.value < len(seq):
                return seq[e.slice.value]
        return UNKNOWN

    def truth(self, v, env):
        if self._is_cont(v):
            return len(self._get(env, v)) > 0
        if isinstance(v, str) and v.startswith("E"):
            return True
        if isinstance(v, tuple) and v and v[0] in ("type", "tb", "AW"):
            return True
        return UNKNOWN

    def compare(self, op, left, right, env):
        if op in ("Is", "IsNot"):
            same = left == right if not (left is None or right is None) else left is right
            return same if op == "Is" else not same
        return UNKNOWN

    def call(self, func, args, kwargs, node, env):
        ev = AbsEval(self)
        if isinstance(node.func, ast.Attribute):
            recv = ev.eval(node.func.value, env)
            if self._is_cont(recv):
                items = self._get(env, recv)
                m = node.func.attr
                if m == "pop" and not args:
                    if not items:
                        return UNKNOWN
                    self._set(env, recv, items[:-1])
                    return items[-1]
                if m == "popleft":
                    if not items:
                        return UNKNOWN
                    self._set(env, recv, items[1:])
                    return items[0]
                if m == "clear":
                    self._set(env, recv, ())
                    return None
                if m == "copy":
                    return self._new(env, items)
                return UNKNOWN
        if func in ("deque", "list", "tuple", "collections.deque"):
            if not args:
                return self._new(env, ())
            if self._is_cont(args[0]):
                return self._new(env, self._get(env, args[0]))
            if isinstance(args[0], tuple) and args[0][:1] == ("SEQ",):
                return self._new(env, args[0][1])
        if func == "reversed" and args:
            if self._is_cont(args[0]):
                return ("SEQ", tuple(reversed(self._get(env, args[0]))))
            if isinstance(args[0], tuple) and args[0][:1] == ("SEQ",):
                return ("SEQ", tuple(reversed(args[0][1])))
        if func == "len" and args and self._is_cont(args[0]):
            return len(self._get(env, args[0]))
        if func == "type" and args and isinstance(args[0], str):
            return ("type", args[0])
        if func == "bool" and len(args) == 1 and not kwargs:
            return self.truth(args[0], env) if not isinstance(args[0], bool) and args[0] is not None else bool(args[0])
        fv = self._callee(node, env)
        if isinstance(fv, str) and fv.startswith("CB"):
            # calling a registered exit gives its awaitable; what awaiting it does is the scenario's outcome
            if any(isinstance(a, ast.Starred) for a in node.args):
                args = self._call_args(node, env, AbsEval(self))
            env["@trace"] = env["@trace"] + ((fv, tuple(args)),)
            return ("AW", fv, tuple(args))
        return UNKNOWN

    def _call_args(self, call, env, ev):
        """the positional arguments of a call, ``*triple`` (the exception details kept in one local) spliced in"""
        args = []
        for a in call.args:
            if isinstance(a, ast.Starred):
                seq = ev.eval(a.value, env)
                if isinstance(seq, tuple) and seq[:1] not in (("SEQ",), ("AW",), ("new",), ("type",), ("CONT",), ("tb",), ("method",)):
                    args.extend(seq)
                else:
                    args.append(UNKNOWN)
            else:
                args.append(ev.eval(a, env))
        return tuple(args)

    def _callee(self, node, env):
        """the value of a call's function expression (inner calls were evaluated at their own CFG
        node and are read from the call cache, so looking twice has no second effect)"""
        if isinstance(node.func, ast.Name):
            return env.get(node.func.id)
        if isinstance(node.func, ast.Call) and id(node.func) in env.get("@callvals", {}):
            return env["@callvals"][id(node.func)]
        return None

    def awaited(self, v, env):
        if isinstance(v, tuple) and v[:1] == ("AW",) and self.scenario[v[1]] == "G":
            # this exit registers a further exit on the stack (push / callback / enter_context all add to the container the
            # stack's field holds right now, at the registration end) and returns falsy
            ref = ("CONT", env["@field"])
            items = self._get(env, ref)
            self._set(env, ref, items + ("CBX",) if getattr(self, "end", "right") == "right" else ("CBX",) + items)
            return False
        if isinstance(v, tuple) and v[:1] == ("AW",):
            return self.scenario[v[1]] == "T"
        if isinstance(v, tuple) and len(v) == 2 and v[0] == "@coro":
            return v[1]  # a private coroutine step of the unwinding: what it returned
        return v

    def visit(self, node, env, ev):
        # every call is evaluated once, at its own CFG node (calls have effects: pop(), running an exit)
        if node.kind == "call":
            vals = dict(env.get("@callvals", {}))
            vals.pop(id(node.ast), None)
            env["@callvals"] = vals
            v = ev.eval(node.ast, env)
            vals = dict(env.get("@callvals", {}))
            vals[id(node.ast)] = v
            env["@callvals"] = vals

    def raises(self, node: Node, env):
        ev = AbsEval(self)
        if node.kind == "call" and isinstance(node.ast.func, ast.Attribute) and node.ast.func.attr in ("pop", "popleft") \
                and not node.ast.args:
            recv = ev.eval(node.ast.func.value, env)
            if self._is_cont(recv) and not self._get(env, recv):
                return "E_EMPTY"  # (IndexError: pop from an empty deque / list)
        if node.kind == "call":
            # outcome C: the exit fails when it is *called* (a synchronous exit wrapped for awaiting runs then)
            fv = self._callee(node.ast, env)
            if isinstance(fv, str) and fv.startswith("CB") and self.scenario[fv] == "C":
                args = self._call_args(node.ast, env, ev)
                env["@trace"] = env["@trace"] + ((fv, args),)
                return "E_" + fv
            return None
        if node.kind != "await":
            return None
        operand = node.info.get("value")
        if isinstance(operand, ast.Call):
            v = env.get("@callvals", {}).get(id(operand))
        elif isinstance(operand, ast.Name):
            v = env.get(operand.id)
        else:
            v = None
        if isinstance(v, tuple) and v[:1] == ("AW",) and self.scenario[v[1]] in ("R", "S"):
            fv, args = v[1], v[2]
            if self.scenario[fv] == "S":
                # re-raises the very exception object it was handed (nothing to re-raise: behaves like falsy)
                if len(args) < 2 or not (isinstance(args[1], str) and args[1].startswith("E")):
                    return None
                return args[1]
            return "E_" + fv
        return None

    def matches(self, type_ast, exc, env):
        text = norm(type_ast) if type_ast is not None else "BaseException"
        if text in ("BaseException", ""):
            return True
        if exc == "E_EMPTY":
            names = [norm(x).split(".")[-1] for x in (type_ast.elts if isinstance(type_ast, ast.Tuple) else [type_ast])]
            return any(n_ in ("IndexError", "LookupError", "Exception") for n_ in names)
        return UNKNOWN  # the raised object may be a cancellation (BaseException)

    def iter(self, node: Node, env):
        ev = AbsEval(self)
        v = ev.eval(node.info["iter"], env)
        if self._is_cont(v):
            v = ("LIVE", v[1])
        env[f"@it{id(node.ast)}"] = v if isinstance(v, tuple) and v[:1] in (("SEQ",), ("LIVE",)) else UNKNOWN

    def next(self, node: Node, env):
        key = f"@it{id(node.ast)}"
        seq = env.get(key, UNKNOWN)
        if seq is UNKNOWN:
            return UNKNOWN
        if seq[0] == "LIVE":
            # iterating the live container front to back without removing
            pos = env.get(key + "#", 0)
            items = env["@conts"][seq[1]]
            if pos >= len(items):
                return STOP
            env[key + "#"] = pos + 1
            return items[pos]
        items = seq[1]
        if not items:
            return STOP
        env[key] = ("SEQ", items[1:])
        return items[0]


def triple(exc):
    return (None, None, None) if exc is None else (("type", exc), exc, ("tb", exc))


def reference(n: int, outcomes: Tuple[str, ...], received: bool):
    """Nested async-with semantics: exits run innermost (last registered) first."""
    exc = "E0" if received else None
    trace = []
    for k in range(n, 0, -1):
        cb = f"CB{k}"
        trace.append((cb, triple(exc)))
        o = outcomes[k - 1]
        if o == "T":
            exc = None
        elif o in ("R", "C"):
            exc = "E_" + cb
    return tuple(trace), exc


def r14_2(ctx, end: str) -> None:
    _derive_stack_attr(ctx)
    u = ctx.unit("contextlib.ExitStack.__aexit__")
    cfg = cfg_of(u)
    params = u.param_names()
    if len(params) != 4:
        raise AnalysisError("ExitStack.__aexit__ signature changed (anchor moved)")
    table = []
    depth = 5 if getattr(ctx, "tier", "quick") == "thorough" and not getattr(ctx, "_shared", False) else 4
    for n in range(0, depth):
        for outcomes in itertools.product("FTRSC" if n <= 3 else "FTR", repeat=n):
            for received in (False, True):
                ctx.count("unwind_scenarios")
                scenario = {f"CB{k + 1}": outcomes[k] for k in range(n)}
                order = tuple(f"CB{k + 1}" for k in range(n))
                stack = order if end == "right" else tuple(reversed(order))
                t0 = triple("E0" if received else None)
                env = {params[0]: "SELF", params[1]: t0[0], params[2]: t0[1], params[3]: t0[2],
                       "@conts": {0: stack}, "@field": 0, "@trace": ()}
                label = f"stack={n} outcomes={''.join(outcomes) or '-'} received={'E0' if received else 'none'}"
                ops = _UnwindOps(scenario)
                results = Machine(cfg, ops, resolver=make_resolver(ctx, u, ops, skip=_context_helpers(ctx), coroutines=True)).run(env)
                want_trace, want_exc = reference(n, outcomes, received)
                if not results:
                    ctx.fail("R14.2", u, "__aexit__", f"[{label}] abstract evaluation produced no outcome")
                    continue
                for oc in results:
                    got_trace = oc.env["@trace"]
                    ok_trace = got_trace == want_trace
                    if oc.terminal.kind == "raise_exit":
                        got = ("raise", oc.env.get("@exc"))
                    else:
                        got = ("return", oc.env.get("@return"))
                    if want_exc is None:
                        ok_out = got[0] == "return" and (not received or got[1] is True)
                        want_text = "return truthy (suppressed)" if received else "return (nothing to propagate)"
                    elif want_exc == "E0":
                        ok_out = (got[0] == "return" and got[1] in (False, None)) or got == ("raise", "E0")
                        want_text = "return falsy: the block's own exception propagates unchanged"
                    else:
                        ok_out = got == ("raise", want_exc)
                        want_text = f"raise {want_exc} (the replacement raised by the exit)"
                    detail = _diff(want_trace, got_trace)
                    if not ok_trace:
                        ctx.fail("R14.2", u, _loop_construct(cfg),
                                 "unwinding does not call the registered exits like nested async-with statements "
                                 "(reverse registration order, each receiving the exception currently in flight)",
                                 witness=f"[{label}] {detail}")
                    elif not ok_out:
                        ctx.fail("R14.2", u, _outcome_construct(oc),
                                 "the stack's overall outcome differs from nested async-with statements",
                                 witness=f"[{label}] expected: {want_text}; evaluated: {got}")
                    else:
                        ctx.ok("R14.2", u, f"[{label}] trace and outcome match nested with", outcome=str(got))
                    # R14.3
                    left = oc.env["@conts"][oc.env["@field"]]
                    if left:
                        ctx.fail("R14.3", u, _loop_construct(cfg),
                                 "registered exits are still in the container after the unwind: a second unwind "
                                 "(aclose() followed by leaving the block, or aclose() twice) runs them again",
                                 witness=f"[{label}] left in container: {left}")
                    else:
                        ctx.ok("R14.3", u, f"[{label}] container drained")
                if len(table) < 12:
                    table.append({"scenario": label, "trace": str(want_trace), "outcome": str(want_exc)})
    ctx.tables["reference (nested with) sample"] = table


def r14_12(ctx, end: str) -> None:
    """An exit may register a further exit while the stack unwinds (a handler that opens a journal on failure): that exit
    is registered like any other and runs in the same unwind, next, with the exception then in flight - as the stdlib's
    stack does, which keeps taking exits from its own container until it is empty."""
    ctx.rule("R14.12", "an exit registered by an exit during the unwind runs in that unwind (the unwind drains the stack's own "
                       "container, not a detached copy), and nothing is left behind")
    u = ctx.unit("contextlib.ExitStack.__aexit__")
    cfg = cfg_of(u)
    params = u.param_names()
    for n, outcomes in ((1, "G"), (2, "FG"), (2, "GF")):
        for received in (False, True):
            ctx.count("unwind_registration_cells")
            scenario = {f"CB{k + 1}": outcomes[k] for k in range(n)}
            scenario["CBX"] = "F"
            order = tuple(f"CB{k + 1}" for k in range(n))
            stack = order if end == "right" else tuple(reversed(order))
            t0 = triple("E0" if received else None)
            env = {params[0]: "SELF", params[1]: t0[0], params[2]: t0[1], params[3]: t0[2],
                   "@conts": {0: stack}, "@field": 0, "@trace": ()}
            ops = _UnwindOps(scenario)
            ops.end = end
            results = Machine(cfg, ops, resolver=make_resolver(ctx, u, ops, skip=_context_helpers(ctx), coroutines=True)).run(env)
            want = []
            for k in range(n, 0, -1):
                want.append((f"CB{k}", t0))
                if outcomes[k - 1] == "G":
                    want.append(("CBX", t0))
            label = f"stack={n} outcomes={outcomes} (G registers a further exit) received={'E0' if received else 'none'}"
            if not results:
                ctx.note(f"R14.12: [{label}] not evaluable")
                continue
            for oc in results:
                got = oc.env["@trace"]
                left = oc.env["@conts"][oc.env["@field"]]
                ctx.check(got == tuple(want) and not left, "R14.12", u, _loop_construct(cfg),
                          f"[{label}] the exit registered during the unwind runs next, once, and the container is empty afterwards",
                          witness=_diff(tuple(want), got) + f"; left in the stack: {left}")


def _diff(want, got) -> str:
    return f"expected calls {[(c, a[1]) for c, a in want]}; evaluated {[(c, a[1] if len(a) > 1 else a) for c, a in got]}"


def _loop_construct(cfg) -> str:
    for n in cfg.nodes:
        if n.kind in ("siter",) and STACK_ATTR in norm(n.info.get("iter")):
            return "for ... in " + norm(n.info.get("iter"))
    for n in cfg.nodes:
        if n.kind == "nop" and n.info.get("note") == "loop-head" and isinstance(n.ast, ast.While):
            return "while " + norm(n.ast.test)
    return "unwind loop"


def _outcome_construct(oc) -> str:
    for n in reversed(oc.path):
        if n.kind in ("return", "raise"):
            return " ".join(norm(n.ast).split("\n")[0].split())
    return "__aexit__"


# --------------------------------------------------------------------------- R14.4
class _EnterOps:
    """enter_context for a manager that is async (has __aexit__) or sync (AttributeError on
    __aexit__), whose enter succeeds or raises."""

    def __init__(self, cm: str, is_async: bool, enter_ok: bool, has_exit: bool = True):
        self.cm, self.is_async, self.enter_ok, self.has_exit = cm, is_async, enter_ok, has_exit

    def attr(self, value, name, node, env):
        if value == "CM":
            return ("meth", "CM", name)
        if value == "SELF":
            return ("self", name)
        return UNKNOWN

    def _is_enter(self, node) -> Optional[str]:
        e = node.ast
        if node.kind == "await" and isinstance(e, ast.Await):
            e = e.value
            if isinstance(e, ast.Call) and isinstance(e.func, ast.Attribute) and e.func.attr == "__aenter__":
                return "aenter"
            return None
        if node.kind == "call" and isinstance(e, ast.Call) and isinstance(e.func, ast.Attribute) and e.func.attr == "__enter__":
            return "enter"
        return None

    def raises(self, node, env):
        if node.kind == "attr" and isinstance(node.ast, ast.Attribute) and node.ast.attr in ("__aexit__", "__aenter__") \
                and not self.is_async and isinstance(node.ast.value, ast.Name) and env.get(node.ast.value.id) == "CM":
            return ("new", "AttributeError")
        if node.kind == "attr" and isinstance(node.ast, ast.Attribute) and node.ast.attr == "__exit__" and not self.has_exit \
                and isinstance(node.ast.value, ast.Name) and env.get(node.ast.value.id) == "CM":
            return ("new", "AttributeError")
        if self._is_enter(node) and not self.enter_ok:
            return ("new", "EnterError")
        return None

    def matches(self, type_node, exc, env):
        names = [norm(t) for t in (type_node.elts if isinstance(type_node, ast.Tuple) else [type_node])] if type_node is not None else ["BaseException"]
        if isinstance(exc, tuple) and exc[:1] == ("new",):
            return exc[1] in names or "BaseException" in names or ("Exception" in names and exc[1] != "CancelledError")
        return UNKNOWN

    def call(self, func, args, kwargs, node, env):
        if func.split(".")[-1].lstrip("_") == "awaitify" and len(args) == 1:  # (whatever the import alias)
            return ("awaitified", args[0])
        if isinstance(node.func, ast.Attribute) and node.func.attr in ("__enter__", "__aenter__"):
            return ("entered", node.func.attr)
        return UNKNOWN

    def visit(self, node, env, ev):
        kind = self._is_enter(node)
        if kind:
            env["@entered"] = env.get("@entered", ()) + (kind,)
        if node.kind == "call" and isinstance(node.ast.func, ast.Attribute) and node.ast.func.attr in ("append", "appendleft") \
                and ev.eval(node.ast.func.value, env) == ("self", STACK_ATTR):  # (the stack itself, or a local holding it)
            arg = ev.eval(node.ast.args[0], env) if node.ast.args else UNKNOWN
            env["@registered"] = env.get("@registered", ()) + ((arg, env.get("@entered", ())),)


def r14_4(ctx) -> None:
    _derive_stack_attr(ctx)
    u = ctx.unit("contextlib.ExitStack.enter_context")
    cfg = cfg_of(u)
    me, cm = u.param_names()[0], u.param_names()[1]
    table = {}
    for is_async in (True, False):
        for enter_ok in (True, False):
            ctx.count("enter_context_cells")
            cell = f"{'async' if is_async else 'sync'} manager, enter {'succeeds' if enter_ok else 'raises'}"
            ops = _EnterOps(cm, is_async, enter_ok)
            outs = Machine(cfg, ops, resolver=make_resolver(ctx, u, ops, skip=("awaitify",))).run({me: "SELF", cm: "CM"})
            want_exit = ("meth", "CM", "__aexit__") if is_async else ("awaitified", ("meth", "CM", "__exit__"))
            want_enter = ("aenter",) if is_async else ("enter",)
            if not outs:
                ctx.fail("R14.4", u, "enter_context", f"[{cell}] could not be evaluated")
            for oc in outs:
                regs = oc.env.get("@registered", ())
                entered = oc.env.get("@entered", ())
                if enter_ok:
                    ok = oc.terminal.kind == "exit" and entered == want_enter and len(regs) == 1 \
                        and regs[0][0] == want_exit and regs[0][1] == want_enter \
                        and oc.returned == ("entered", "__aenter__" if is_async else "__enter__")
                    what = "the manager is entered once, then its own exit is registered, and the enter result is returned"
                else:
                    ok = oc.terminal.kind == "raise_exit" and not regs and oc.raised == ("new", "EnterError")
                    what = "the enter's exception propagates and nothing is registered (a manager whose enter failed is not exited)"
                table[cell] = f"{oc.terminal.kind}; entered={entered}; registered={[r[0] for r in regs]}"
                ctx.check(ok, "R14.4", u, "enter_context", f"[{cell}] {what}", witness=table[cell] + f"; returned={oc.returned}; raised={oc.raised}")
    # a synchronous object that can be entered but has no __exit__: the protocol is incomplete, so it
    # must not be entered at all (the stdlib looks up both methods before calling __enter__)
    ctx.count("enter_context_cells")
    ops = _EnterOps(cm, False, True, has_exit=False)
    outs = Machine(cfg, ops, resolver=make_resolver(ctx, u, ops, skip=("awaitify",))).run({me: "SELF", cm: "CM"})
    for oc in outs:
        entered, regs = oc.env.get("@entered", ()), oc.env.get("@registered", ())
        ok = oc.terminal.kind == "raise_exit" and not entered and not regs
        table["sync object without __exit__"] = f"{oc.terminal.kind}; entered={entered}; registered={len(regs)}"
        ctx.check(ok, "R14.4", u, "enter_context", "[sync object without __exit__] it is rejected before being entered "
                  "(nothing could ever exit it)", witness=table["sync object without __exit__"])
    # an async manager whose __aenter__ itself raises AttributeError: that error is the caller's — it must not
    # be read as "not an async context manager" (and the sync protocol tried instead)
    ctx.count("enter_context_cells")

    class _AttrErrOps(_EnterOps):
        def raises(self, node, env):
            if self._is_enter(node) == "aenter":
                return ("new", "AttributeError")
            return super().raises(node, env)

    ops = _AttrErrOps(cm, True, True)
    outs = Machine(cfg, ops, resolver=make_resolver(ctx, u, ops, skip=("awaitify",))).run({me: "SELF", cm: "CM"})
    for oc in outs:
        entered, regs = oc.env.get("@entered", ()), oc.env.get("@registered", ())
        ok = oc.terminal.kind == "raise_exit" and not regs and "enter" not in entered
        table["async manager whose __aenter__ raises AttributeError"] = f"{oc.terminal.kind}; entered={entered}; registered={len(regs)}"
        ctx.check(ok, "R14.4", u, "enter_context", "[async manager whose __aenter__ raises AttributeError] the error propagates; "
                  "the manager is not re-entered through the synchronous protocol",
                  witness=table["async manager whose __aenter__ raises AttributeError"])
    ctx.tables["enter_context"] = table


# --------------------------------------------------------------------------- R14.11
class _PushOps(_EnterOps):
    """push(exit) for an object that has / has not __aexit__, __exit__ and is / is not callable: presence is asked
    with hasattr / getattr-with-default / callable() or found out by AttributeError."""

    def __init__(self, cm: str, has_aexit: bool, has_exit: bool, is_callable: bool):
        super().__init__(cm, has_aexit, True, has_exit)
        self.has = {"__aexit__": has_aexit, "__exit__": has_exit}
        self.is_callable = is_callable

    def raises(self, node, env):
        if node.kind == "attr" and isinstance(node.ast, ast.Attribute) and node.ast.attr in self.has \
                and not self.has[node.ast.attr] and isinstance(node.ast.value, ast.Name) and env.get(node.ast.value.id) == "CM":
            return ("new", "AttributeError")
        return None

    def call(self, func, args, kwargs, node, env):
        name = func.split(".")[-1]
        if name == "hasattr" and len(args) == 2 and args[0] == "CM" and args[1] in self.has:
            return self.has[args[1]]
        if name == "getattr" and len(args) == 3 and args[0] == "CM" and args[1] in self.has:
            return ("meth", "CM", args[1]) if self.has[args[1]] else args[2]
        if name == "callable" and args == ["CM"]:
            return self.is_callable
        if name in ("TypeError", "ValueError"):
            return ("new", name)
        return super().call(func, args, kwargs, node, env)

    def truth(self, v, env):
        if isinstance(v, tuple) and v[:1] in (("meth",), ("awaitified",)):
            return True
        return UNKNOWN


def r14_11(ctx) -> None:
    """What push() registers for each kind of argument (the unwind table R14.2 takes the registered exits as given)."""
    ctx.rule("R14.11", "push(exit): an object with __aexit__ is exited through it (also when it has __exit__ as well: the asynchronous "
             "protocol wins, as in `async with` and enter_context), an object with __exit__ only through the awaitified __exit__, "
             "any other callable through awaitify(exit); anything else is rejected and nothing is registered; exit is returned unchanged")
    _derive_stack_attr(ctx)
    u = ctx.unit("contextlib.ExitStack.push")
    view = ctx.inlined(u)
    cfg = cfg_of(view)
    me, cm = u.param_names()[0], u.param_names()[1]
    table = {}
    cells = [("async exit (has __aexit__ only)", True, False, False, ("meth", "CM", "__aexit__")),
             ("sync context manager (has __exit__ only)", False, True, False, ("awaitified", ("meth", "CM", "__exit__"))),
             ("object with both __aexit__ and __exit__", True, True, False, ("meth", "CM", "__aexit__")),
             ("plain callable", False, False, True, ("awaitified", "CM")),
             ("neither an exit nor callable", False, False, False, None)]
    for cell, has_aexit, has_exit, is_callable, want in cells:
        ctx.count("push_cells")
        ops = _PushOps(cm, has_aexit, has_exit, is_callable)
        outs = Machine(cfg, ops, resolver=make_resolver(ctx, view, ops, skip=("awaitify",))).run({me: "SELF", cm: "CM"})
        if not outs:
            ctx.note(f"R14.11: [{cell}] could not be evaluated")
            continue
        for oc in outs:
            regs = [r[0] for r in oc.env.get("@registered", ())]
            got = f"{oc.terminal.kind}; registered={regs}; returned={oc.returned}"
            table[cell] = got
            if UNKNOWN in regs or any(r is UNKNOWN for r in regs):
                ctx.note(f"R14.11: [{cell}] the registered value could not be evaluated")
                continue
            if want is None:
                ok = oc.terminal.kind == "raise_exit" and not regs
                what = "it is rejected and nothing is registered"
            else:
                # an awaitified coroutine method is the method itself to every caller
                same = [r[1] if (r[:1] == ("awaitified",) and want[:1] == ("meth",)) else r for r in regs]
                ok = oc.terminal.kind == "exit" and same == [want] and oc.returned == "CM"
                what = f"exactly {want} is registered and the argument is returned unchanged"
            ctx.check(ok, "R14.11", u, "push", f"[{cell}] {what}", witness=got)
    ctx.tables["push"] = table


# --------------------------------------------------------------------------- R14.5
def _callback_runner(ctx):
    """The coroutine that ``callback()`` registers to run a plain callback as an exit: the
    first argument of the outer ``partial(...)`` (a method of the stack or a module function)."""
    from .common import inline_locals
    m = _callback_unit(ctx)
    mcfg = cfg_of(m)
    for r in mcfg.nodes:
        if r.kind == "call" and not r.tag and isinstance(r.ast.func, ast.Attribute) \
                and _is_stack(m, r.ast.func.value) and r.ast.args:
            e = inline_locals(ctx, m, mcfg, r, r.ast.args[0])
            if isinstance(e, ast.Call) and e.args:
                for f in ctx.vals.expr(m, e.args[0], r):
                    t = ctx.pkg.lib_unit(f[1]) if f[0] == "libfn" else ctx.vals.find_method(f[1], f[2]) if f[0] == "bound" else None
                    if t is not None and t.kind == "coroutine":
                        return t
    return None


def _callback_closure(ctx):
    """Second accepted form: ``callback()`` registers a coroutine function defined inside it
    (a closure over the callback and its arguments).  -> (nested unit, registering call node)"""
    m = _callback_unit(ctx)
    mcfg = cfg_of(m)
    for r in mcfg.nodes:
        if r.kind == "call" and not r.tag and isinstance(r.ast.func, ast.Attribute) \
                and _is_stack(m, r.ast.func.value) and len(r.ast.args) == 1 \
                and isinstance(r.ast.args[0], ast.Name):
            for t in m.module.units.values():
                if t.parent is m and t.node.name == r.ast.args[0].id and t.kind == "coroutine":
                    return t, r
    return None


def _r14_5_closure(ctx, u, reg) -> None:
    from .common import inline_locals
    from .lru import enumerate_paths
    m = _callback_unit(ctx)
    mcfg = cfg_of(m)
    cbp = m.param_names()[1]
    va = m.node.args.vararg.arg if m.node.args.vararg else None
    kw = m.node.args.kwarg.arg if m.node.args.kwarg else None
    regs = [n for n in mcfg.nodes if n.kind == "call" and not n.tag and isinstance(n.ast.func, ast.Attribute)
            and _is_stack(m, n.ast.func.value) and n.ast.args]
    ctx.check(len(regs) == 1, "R14.5", m, "callback", "callback() registers one exit")
    cfg = cfg_of(u)
    own = set(u.param_names()) | {x.id for x in own_nodes(u.node) if isinstance(x, ast.Name) and isinstance(x.ctx, ast.Store)}
    for path in enumerate_paths(cfg, cfg.entry, lambda n: n is cfg.exit):
        nodes = [n for n, _l in path]
        awaits = [n for n in nodes if n.kind == "await"]
        ok = False
        if len(awaits) == 1 and isinstance(awaits[0].info.get("value"), ast.Call):
            call = awaits[0].info["value"]
            f = call.func
            if isinstance(f, ast.Name) and f.id not in own:
                f = inline_locals(ctx, m, mcfg, reg, f)  # the closure variable as bound in callback()
            wrapped = isinstance(f, ast.Call) and ctx.pkg.resolve_expr_global(m.module, f.func).qual.endswith("_core.awaitify") \
                and len(f.args) == 1 and norm(f.args[0]) == cbp
            ok = wrapped and len(call.args) == 1 and isinstance(call.args[0], ast.Starred) and norm(call.args[0].value) == va \
                and va not in own and kw not in own \
                and len(call.keywords) == 1 and call.keywords[0].arg is None and norm(call.keywords[0].value) == kw
            if not ok and not call.args and not call.keywords and isinstance(f, ast.Call):
                # the arguments were bound beforehand: ``bound = partial(awaitify(callback), *args, **kwargs)``
                ok = _binds_callback(ctx, m, f, cbp, va, kw)
        ctx.check(bool(ok), "R14.5", u, awaits[0] if awaits else u.node.name,
                  "the (awaitified) callback is awaited exactly once with *args and **kwargs unchanged")
        rets = [n for n in nodes if n.kind == "return"]
        val = rets[-1].info.get("value") if rets else None
        ctx.check(isinstance(val, ast.Constant) and val.value is False, "R14.5", u, rets[-1] if rets else u.node.name,
                  "a callback can never suppress: constant False is returned")
    # the closure's free variables are not re-bound between their definition and the end of callback()
    for name in (cbp, va, kw):
        rebinds = [n for n in mcfg.nodes if n.kind == "store" and not n.tag and name in node_defs(n)]
        ctx.check(not rebinds, "R14.5", m, rebinds[0] if rebinds else "callback",
                  f"`{name}` captured by the registered closure is not re-bound in callback()")


def _callback_factory(ctx):
    """Third accepted form: ``callback()`` registers ``factory(<bound callback>)`` where ``factory`` is a
    private plain function of the library that returns a coroutine function defined inside it.
    -> (factory unit, nested coroutine unit, registering node, argument expression)"""
    from .common import inline_locals
    m = _callback_unit(ctx)
    mcfg = cfg_of(m)
    for r in mcfg.nodes:
        if r.kind == "call" and not r.tag and isinstance(r.ast.func, ast.Attribute) \
                and _is_stack(m, r.ast.func.value) and len(r.ast.args) == 1:
            e = inline_locals(ctx, m, mcfg, r, r.ast.args[0])
            if not (isinstance(e, ast.Call) and len(e.args) == 1 and not e.keywords):
                continue
            for f in ctx.vals.expr(m, e.func, r):
                t = ctx.pkg.lib_unit(f[1]) if f[0] == "libfn" else ctx.vals.find_method(f[1], f[2]) if f[0] == "bound" else None
                if t is None or t.kind != "sync":
                    continue
                names = t.param_names() if (t.cls is None or t.is_static()) else t.param_names()[1:]
                nested = [x for x in t.module.units.values() if x.parent is t and x.kind == "coroutine"]
                rets = [x for x in own_nodes(t.node) if isinstance(x, ast.Return)]
                if len(names) == 1 and len(nested) == 1 and len(rets) == 1 and isinstance(rets[0].value, ast.Name) \
                        and rets[0].value.id == nested[0].node.name:
                    return t, nested[0], r, e.args[0], names[0]
    return None


def _r14_5_bound_callback(ctx, m, r, inner, e) -> None:
    """``partial(awaitify(callback), *args, **kwargs)``"""
    cbp = m.param_names()[1]
    va = m.node.args.vararg.arg if m.node.args.vararg else None
    kw = m.node.args.kwarg.arg if m.node.args.kwarg else None
    ok = _binds_callback(ctx, m, inner, cbp, va, kw)
    ctx.check(bool(ok), "R14.5", m, r, "callback() binds *args and **kwargs unchanged to the (awaitified) callback",
              node=r, witness=norm(e))


def _binds_callback(ctx, m, inner, cbp, va, kw) -> bool:
    """``partial(awaitify(cb), *args, **kwargs)`` or, equivalently, ``awaitify(partial(cb, *args, **kwargs))``: awaitify looks
    through a partial of a coroutine function and detects every other awaitable result at the call, so both call
    ``cb(*args, **kwargs)`` once and await what it returns."""
    def qual(x):
        return ctx.pkg.resolve_expr_global(m.module, x.func).qual if isinstance(x, ast.Call) else ""

    def is_awaitify(x):
        return qual(x).endswith("_core.awaitify") and len(x.args) == 1 and not x.keywords

    def is_binding(x):
        return qual(x) == "functools.partial" and len(x.args) == 2 and isinstance(x.args[1], ast.Starred) \
            and norm(x.args[1].value) == va and len(x.keywords) == 1 and x.keywords[0].arg is None and norm(x.keywords[0].value) == kw

    if is_binding(inner) and is_awaitify(inner.args[0]) and norm(inner.args[0].args[0]) == cbp:
        return True
    return bool(is_awaitify(inner) and is_binding(inner.args[0]) and norm(inner.args[0].args[0]) == cbp)


def _r14_5_factory(ctx, factory, w, reg, arg, fparam) -> None:
    from .common import inline_locals
    from .lru import enumerate_paths
    m = _callback_unit(ctx)
    mcfg = cfg_of(m)
    regs = [n for n in mcfg.nodes if n.kind == "call" and not n.tag and isinstance(n.ast.func, ast.Attribute)
            and _is_stack(m, n.ast.func.value) and n.ast.args]
    ctx.check(len(regs) == 1, "R14.5", m, "callback", "callback() registers one exit")
    cfg = cfg_of(w)
    own = set(w.param_names()) | {x.id for x in own_nodes(w.node) if isinstance(x, ast.Name) and isinstance(x.ctx, ast.Store)}
    for path in enumerate_paths(cfg, cfg.entry, lambda n: n is cfg.exit):
        nodes = [n for n, _l in path]
        awaits = [n for n in nodes if n.kind == "await"]
        ok = len(awaits) == 1 and isinstance(awaits[0].info.get("value"), ast.Call) \
            and norm(awaits[0].info["value"].func) == fparam and fparam not in own \
            and not awaits[0].info["value"].args and not awaits[0].info["value"].keywords
        ctx.check(ok, "R14.5", w, awaits[0] if awaits else w.node.name,
                  "the stored callback is awaited exactly once (its arguments are already bound)")
        rets = [n for n in nodes if n.kind == "return"]
        val = rets[-1].info.get("value") if rets else None
        ctx.check(isinstance(val, ast.Constant) and val.value is False, "R14.5", w, rets[-1] if rets else w.node.name,
                  "a callback can never suppress: constant False is returned")
    rebinds = [x for x in own_nodes(factory.node) if isinstance(x, ast.Name) and isinstance(x.ctx, ast.Store) and x.id == fparam]
    ctx.check(not rebinds, "R14.5", factory, factory.node.name, f"`{fparam}` captured by the returned coroutine is not re-bound in the factory")
    _r14_5_bound_callback(ctx, m, reg, inline_locals(ctx, m, mcfg, reg, arg), reg.ast.args[0])


def _callback_object(ctx):
    """Fourth accepted form: ``callback()`` registers an object of a private library class whose ``__init__`` only stores its
    arguments and whose coroutine ``__call__(self, exc_type, exc_val, tb)`` is the exit.
    -> (class info, registering node, constructor call)"""
    from .common import inline_locals
    m = _callback_unit(ctx)
    mcfg = cfg_of(m)
    for r in mcfg.nodes:
        if r.kind == "call" and not r.tag and isinstance(r.ast.func, ast.Attribute) \
                and _is_stack(m, r.ast.func.value) and len(r.ast.args) == 1:
            e = inline_locals(ctx, m, mcfg, r, r.ast.args[0])
            if not (isinstance(e, ast.Call) and not e.keywords and not any(isinstance(a, ast.Starred) for a in e.args)):
                continue
            res = ctx.pkg.resolve_expr_global(m.module, e.func)
            info = ctx.pkg.lib_class(res.qual) if res is not None and res.kind == "lib" else None
            if info is None or not info.name.startswith("_"):
                continue
            init, call = info.methods.get("__init__"), info.methods.get("__call__")
            if init is None or call is None or call.kind != "coroutine" or len(call.param_names()) != 4 \
                    or len(init.param_names()) != len(e.args) + 1:
                continue
            return info, r, e
    return None


def _r14_5_object(ctx, info, reg, cons) -> None:
    from .lru import enumerate_paths
    m = _callback_unit(ctx)
    cbp = m.param_names()[1]
    va = m.node.args.vararg.arg if m.node.args.vararg else None
    kw = m.node.args.kwarg.arg if m.node.args.kwarg else None
    init, call = info.methods["__init__"], info.methods["__call__"]
    me = init.param_names()[0]
    stored = {}  # field -> constructor argument expression
    plain = True
    for st in init.node.body:
        if isinstance(st, ast.Expr) and isinstance(st.value, ast.Constant):
            continue
        tg = st.targets[0] if isinstance(st, ast.Assign) and len(st.targets) == 1 else st.target if isinstance(st, ast.AnnAssign) else None
        val = getattr(st, "value", None)
        if isinstance(tg, ast.Attribute) and norm(tg.value) == me and isinstance(val, ast.Name) and val.id in init.param_names()[1:]:
            stored[tg.attr] = cons.args[init.param_names()[1:].index(val.id)]
        else:
            plain = False
    ctx.check(plain and len(stored) == len(cons.args), "R14.5", init, "__init__",
              "the exit object only stores what callback() hands it", witness=str(sorted(stored)))
    cfg = cfg_of(call)
    cme = call.param_names()[0]

    def field_arg(e):
        return stored.get(e.attr) if isinstance(e, ast.Attribute) and norm(e.value) == cme else None
    for path in enumerate_paths(cfg, cfg.entry, lambda n: n is cfg.exit):
        nodes = [n for n, _l in path]
        awaits = [n for n in nodes if n.kind == "await"]
        ok = False
        if len(awaits) == 1 and isinstance(awaits[0].info.get("value"), ast.Call):
            c = awaits[0].info["value"]
            f = field_arg(c.func)
            wrapped = isinstance(f, ast.Call) and ctx.pkg.resolve_expr_global(m.module, f.func).qual.endswith("_core.awaitify") \
                and len(f.args) == 1 and norm(f.args[0]) == cbp
            stars = [a for a in c.args]
            ok = wrapped and len(stars) == 1 and isinstance(stars[0], ast.Starred) and norm(field_arg(stars[0].value)) == va \
                and len(c.keywords) == 1 and c.keywords[0].arg is None and norm(field_arg(c.keywords[0].value)) == kw
            if not ok and not c.args and not c.keywords and isinstance(f, ast.Call):
                ok = _binds_callback(ctx, m, f, cbp, va, kw)  # (the arguments were bound before the object was made)
        ctx.check(bool(ok), "R14.5", call, awaits[0] if awaits else "__call__",
                  "the (awaitified) callback is awaited exactly once with *args and **kwargs unchanged")
        rets = [n for n in nodes if n.kind == "return"]
        val = rets[-1].info.get("value") if rets else None
        ctx.check(isinstance(val, ast.Constant) and val.value is False, "R14.5", call, rets[-1] if rets else "__call__",
                  "a callback can never suppress: constant False is returned")
    others = [x for x in ast.walk(info.node) if isinstance(x, ast.Attribute) and isinstance(x.ctx, (ast.Store, ast.Del))
              and x.attr in stored and not any(x is y for y in ast.walk(init.node))]
    ctx.check(not others, "R14.5", info.methods["__call__"], "__call__", "the stored callback and arguments are never re-bound")


def r14_7(ctx) -> None:
    """An exit adapter of the stack must let its callback's exception through: no ``return`` / ``break`` out of a
    ``finally`` in contextlib (C06's rule, shared) — `try: await cb() finally: return False` would swallow it."""
    from . import c06
    from .common import Relabel, real_units
    ctx.rule("R14.7", "no return / break / continue leaves a finally block in contextlib: an exit that raises replaces the exception in flight (R06.3, shared)")
    for u in real_units(ctx):
        if u.module.short == "contextlib":
            c06._finally_blocks(Relabel(ctx, "R14.7"), u)


_CALLBACK_VIEW = {"inlined": False}


def _callback_unit(ctx):
    """ExitStack.callback as written, or - when none of the accepted forms is recognised in it - its inlined view (the
    registration may go through a private helper of the stack)."""
    u = ctx.unit("contextlib.ExitStack.callback")
    return ctx.inlined(u) if _CALLBACK_VIEW["inlined"] else u


def r14_5(ctx) -> None:
    _derive_stack_attr(ctx)
    for inlined in (False, True):
        _CALLBACK_VIEW["inlined"] = inlined
        u = _callback_runner(ctx)
        if u is not None:
            break
        closure = _callback_closure(ctx)
        if closure is not None:
            _r14_5_closure(ctx, *closure)
            return
        fac = _callback_factory(ctx)
        if fac is not None:
            _r14_5_factory(ctx, *fac)
            return
        obj = _callback_object(ctx)
        if obj is not None:
            _r14_5_object(ctx, *obj)
            return
    if u is None:
        ctx.fail("R14.5", ctx.unit("contextlib.ExitStack.callback"), "callback",
                 "callback() does not register its callback through a library coroutine that ignores the callback's result "
                 "(a plain callback could suppress exceptions)")
        return
    cfg = cfg_of(u)
    cb = u.param_names()[0]
    from .lru import enumerate_paths
    paths = enumerate_paths(cfg, cfg.entry, lambda n: n is cfg.exit)
    for path in paths:
        nodes = [n for n, _l in path]
        awaits = [n for n in nodes if n.kind == "await"]
        ok = len(awaits) == 1 and isinstance(awaits[0].info.get("value"), ast.Call) \
            and norm(awaits[0].info["value"].func) == cb and not awaits[0].info["value"].args
        ctx.check(ok, "R14.5", u, awaits[0] if awaits else u.node.name,
                  "the stored callback is awaited exactly once (its arguments are already bound)")
        rets = [n for n in nodes if n.kind == "return"]
        val = rets[-1].info.get("value") if rets else None
        ctx.check(isinstance(val, ast.Constant) and val.value is False, "R14.5", u, rets[-1] if rets else u.node.name,
                  "a callback can never suppress: constant False is returned")
    runner_name = u.node.name
    m = _callback_unit(ctx)
    mcfg = cfg_of(m)
    cbp = m.param_names()[1]
    va = m.node.args.vararg.arg if m.node.args.vararg else None
    kw = m.node.args.kwarg.arg if m.node.args.kwarg else None
    from .common import inline_locals
    regs = [n for n in mcfg.nodes if n.kind == "call" and not n.tag and isinstance(n.ast.func, ast.Attribute)
            and _is_stack(m, n.ast.func.value) and n.ast.args]
    ctx.check(len(regs) == 1, "R14.5", m, "callback", "callback() registers one exit")
    for r in regs:
        e = inline_locals(ctx, m, mcfg, r, r.ast.args[0])

        def is_partial(x):
            return isinstance(x, ast.Call) and ctx.pkg.resolve_expr_global(m.module, x.func).qual in ("functools.partial",) and x.args

        outer_ok = is_partial(e) and norm(e.args[0]).split(".")[-1] == runner_name and len(e.args) == 2 and not e.keywords
        ctx.check(bool(outer_ok), "R14.5", m, r, f"the bound callback is registered through {runner_name} (cannot suppress)",
                  node=r, witness=norm(e))
        inner = e.args[1] if outer_ok else None
        ok = inner is not None and _binds_callback(ctx, m, inner, cbp, va, kw)
        ctx.check(bool(ok), "R14.5", m, r, "callback() binds *args and **kwargs unchanged to the (awaitified) callback",
                  node=r, witness=norm(e))


# --------------------------------------------------------------------------- R14.6
class _PopAllOps:
    def __init__(self):
        self.fresh = 0

    def attr(self, value, name, node, env):
        if isinstance(value, str) and value in ("SELF", "NEW"):
            return env.get(f"@f:{value}.{name}", ("method", value, name))
        return UNKNOWN

    def call(self, func, args, kwargs, node, env):
        if func == "type" and args == ["SELF"]:
            return ("cls", "SELF")
        if func in ("deque", "list", "collections.deque"):
            self.fresh += 1
            return ("fresh", self.fresh, tuple(args))
        if isinstance(node.func, ast.Call) and norm(node.func) in ("type(self)",):
            return "NEW"
        if func in ("ExitStack", "self.__class__", "type(self)"):
            return "NEW"
        return UNKNOWN

    def other(self, e, env, ev):
        if isinstance(e, ast.List) and not e.elts:
            # ``[]``: a fresh empty list (the container may be a plain list)
            self.fresh += 1
            return ("fresh", self.fresh, ())
        return UNKNOWN

    def store(self, target, value, env, ev):
        if isinstance(target, ast.Attribute):
            base = ev.eval(target.value, env)
            if isinstance(base, str):
                env[f"@f:{base}.{target.attr}"] = value


def r14_6(ctx) -> None:
    _derive_stack_attr(ctx)
    u = ctx.unit("contextlib.ExitStack.pop_all")
    cfg = cfg_of(u)
    env = {u.param_names()[0]: "SELF", f"@f:SELF.{STACK_ATTR}": "OLD", f"@f:NEW.{STACK_ATTR}": ("fresh", 0, ())}
    results = Machine(cfg, _PopAllOps()).run(env)
    for oc in results:
        ret = oc.env.get("@return")
        new_field = oc.env.get(f"@f:NEW.{STACK_ATTR}")
        old_field = oc.env.get(f"@f:SELF.{STACK_ATTR}")
        ctx.check(oc.terminal.kind == "exit" and ret == "NEW", "R14.6", u, "pop_all",
                  "pop_all returns a new stack of the same type", witness=f"returned {ret}")
        ctx.check(new_field == "OLD", "R14.6", u, "pop_all",
                  "the new stack owns the original container object (moved, not copied)", witness=f"new stack holds {new_field}")
        ctx.check(isinstance(old_field, tuple) and old_field[:1] == ("fresh",) and not old_field[2], "R14.6", u, "pop_all",
                  "the original stack continues with a fresh empty container", witness=f"original holds {old_field}")
    ctx.check(bool(results), "R14.6", u, "pop_all", "pop_all could be evaluated")
