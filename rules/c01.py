"""C01 — iterator tools equal their stdlib namesakes (necessary clauses only).

R01.1 merge tie orientation ("merge is stable for both sort directions"): the heap entries of
      ``merge`` are (head holder, position); ``_KeyIter.__lt__`` / ``__eq__`` are abstractly
      evaluated over the order outcome of the two head keys in {LT, EQ, GT} x reverse in
      {False, True}; with Python's tuple rule (first non-equal component decides) and the
      position expression evaluated for iterables i < j the popped entry must be: the
      smaller (larger, when reversed) key, and on ties the entry of iterable i — in both
      directions.
R01.2 end-of-iteration type: every explicit ``raise`` in a C01 tool raises the class the
      stdlib raises for that condition (frozen table incl. the documented accumulate
      deviation); nothing else is raised explicitly.
R01.3 pass-through identity ("the very same objects"): in the pass-through tools every
      yielded value is an item of a source (or fillvalue / counter) or a tuple of such; no
      call or operator is applied to an item between pull and yield.  Transforming tools
      yield exactly the awaited result of the user function (or the initial value).
R01.4 source order: tools combining several sources visit them in argument order (the loop
      iterable is the bare container or ``enumerate(container)``).
R01.5-R01.9 see LEVEL; R01.10 islice table (rules/c05.py); R01.11 zip_longest table
      (rules/lockstep.py): rows and items taken per source over 124 cells.
"""
from __future__ import annotations

import ast
from typing import Any, Dict, List, Optional

from asl.absint import UNKNOWN, AbsEval, Machine
from asl.cfg import cfg_of
from asl.loader import AnalysisError, norm, own_nodes
from asl.values import atoms_deep
from .c02 import _IntOps
from .common import raised_class
from .common import present_units as _present

LEVEL = {
    "decided": "C01 (necessary clauses): (R01.1) merge pops the smaller (resp. larger) head and breaks ties in favour "
               "of the earlier iterable for reverse in {False, True} — abstract evaluation of _KeyIter.__lt__/__eq__ "
               "and the position term under the tuple-comparison rule; (R01.2) explicit raises match the stdlib "
               "exception classes; (R01.3) pass-through tools yield the very source objects (origin analysis of every "
               "yield); (R01.4) multi-source tools visit their sources in argument order (zip arguments of lock-step tools in parameter "
               "order); (R01.5) a finishing tee child removes exactly its own buffer; (R01.6) merge recomputes the sort key "
               "for every newly pulled head; (R01.7) items are opaque: identity tests on items only against private sentinels; (R01.8) "
               "public defaults equal the stdlib's; (R01.9) every yield is reachable and one-to-one tools yield between pulls; "
               "(R01.10) islice and (R01.11) zip_longest as finite tables by abstract evaluation: islice's yielded indexes and "
               "items pulled for 64 slicings x 3 source lengths, zip_longest's rows and items taken per source for 1-3 argument "
               "positions holding 1-3 iterator objects (one object possibly in several positions) of 0-3 items each, both "
               "against the rule of the itertools function (the thorough tier checks those rules against the interpreter's itertools).",
    "not_decided": "value-level equality of the produced sequences for arbitrary inputs and parameters (islice and zip_longest "
                   "beyond the stated cubes, zip/batched lengths, accumulate values, tee contents) — a "
                   "function of run-time data that no static argument here bounds.",
    "technique": "static analysis: order algebra and islice / zip_longest tables by finite-domain abstract evaluation, "
                 "raise-type table, yield-origin dataflow",
}
LEVEL["decided"] += " (R01.12) fourteen tools (takewhile, dropwhile, filterfalse, filter, pairwise, batched, accumulate, starmap, enumerate, map, compress, chain, cycle, iter with sentinel) and the two inner generators of zip as finite tables by abstract evaluation — the items yielded and the way the generator ends (C05/C06 also compare items taken and calls), 373 cells, compared with the stdlib tool executed on the same symbols; (R01.13) the library's scope managers around the sources never suppress an exception."
LEVEL["decided"] += " (R01.14) tee: every history of next / close operations on 2-3 children over sources of up to 3 items gives each child the items of the source in order (object model with generator frames, compared with itertools.tee after every operation); (R01.15) merge as a table of 548 cells (1-3 sources, every sorted ranking with ties, key, reverse) against heapq.merge; (R01.16/R01.17) awaitify never wraps a plain library function, and no helper updates a user's value in place."
LEVEL["decided"] += ' (R01.18) the adapter that turns an argument into an iterator accepts what the stdlib accepts (R03.2/R03.3, shared); (R01.19) fault cells, items only: for every use of a source / callable that either side makes, with that use raising, the same items come out and the tool ends the same way.'
LEVEL["decided"] += ' R01.7 also: a private sentinel is told from an item by identity, never by == / !=.'
LEVEL["technique"] += '; tee histories and the merge table by abstract evaluation over an object model with generator frames, compared with the executed stdlib'
LEVEL["decided"] += ' (R01.20) the truth value of a predicate / function / key never decides whether it is used (R03.12, shared); the adapter table of the synchronous wrapper runs for an iterator and for a collection that produces its items when asked.'

PASS_THROUGH = ["builtins.zip", "builtins._zip_inner", "builtins._zip_inner_strict", "builtins.filter",
                "builtins.enumerate", "itertools.cycle", "itertools.batched", "itertools.chain._chain_iterator",
                "itertools.compress", "itertools.dropwhile", "itertools.filterfalse", "itertools.islice",
                "itertools.takewhile", "itertools.tee_peer", "itertools.pairwise", "itertools.zip_longest",
                "itertools._repeat", "heapq.merge"]
TRANSFORMING = ["builtins.map", "itertools.starmap", "itertools.accumulate", "builtins.acallable_iterator"]
RAISES = {
    ("builtins._zip_inner_strict", "ValueError"): 2,
    ("itertools.batched", "ValueError"): 2,
    ("itertools.accumulate", "TypeError"): 1,
    ("builtins.iter", "TypeError"): 1,
}
MULTI_SOURCE = ["builtins.zip", "builtins._zip_inner", "builtins._zip_inner_strict", "itertools.zip_longest",
                "heapq.merge", "heapq._KeyIter.from_iters"]


def run(ctx) -> None:
    for rid, text in (("R01.1", "merge tie orientation table"), ("R01.2", "explicit raise classes vs stdlib table"),
                      ("R01.3", "yield origins: the very source objects"), ("R01.4", "sources visited in argument order")):
        ctx.rule(rid, text)
    ctx.assume("heapq keeps a min-heap using < on entries; tuple comparison uses == to find the first differing "
               "component and < on it")
    r01_1(ctx)
    r01_2(ctx)
    r01_3(ctx)
    r01_4(ctx)
    r01_5(ctx)
    r01_6(ctx)
    r01_7(ctx)
    r01_8(ctx)
    r01_9(ctx)
    r01_10(ctx)
    from . import lockstep
    lockstep.zip_longest_table(ctx, "R01.11", consumption=False)
    ctx.floor("zip_longest_cells_decided", 118)
    # "ends the same way": the scopes the tools run their sources in never swallow what the source,
    # the predicate or the function raised (C06's rule on library __aexit__ methods, shared)
    from . import c06
    from .common import Relabel
    ctx.rule("R01.13", "the library's own context managers around the sources never suppress an exception (R06.3, shared)")
    c06._aexit_falsy(Relabel(ctx, "R01.13"))
    # items pass through untouched: no tool probes an item for awaitability (awaitify only ever wraps user
    # callables, R03.9) and the library's default reduction builds a new value (no in-place operator on an item)
    from . import c03
    from .common import real_units
    ctx.rule("R01.16", "awaitify wraps user callables only: items of awaitable type are never awaited by the library (R03.9, shared)")
    tool_shorts = set(PASS_THROUGH + TRANSFORMING)
    for u_ in real_units(ctx):
        if ctx.pkg.canonical(u_) in tool_shorts or (u_.parent is not None and ctx.pkg.canonical(u_.parent) in tool_shorts):
            for n_ in cfg_of(u_).nodes:
                if n_.kind == "call" and not n_.tag and c03._is_awaitify(ctx.vals.expr(u_, n_.ast.func, n_)):
                    ctx.count("tool_awaitify_sites")
                    c03.awaitify_argument(ctx, "R01.16", u_, n_)
    ctx.rule("R01.17", "the default reduction of accumulate returns a new object: no augmented assignment on its arguments")
    if ctx.pkg.has_unit("itertools.add"):
        add = ctx.unit("itertools.add")
        aug = [x for x in own_nodes(add.node) if isinstance(x, ast.AugAssign) and isinstance(x.target, ast.Name)
               and x.target.id in add.param_names()]
        ctx.check(not aug, "R01.17", add, aug[0] if aug else "add",
                  "the default reduction computes `x + y` (an in-place `x += y` would mutate the running total the consumer already holds)",
                  line=aug[0].lineno if aug else None)
    from . import tooltables
    tooltables.tool_tables(ctx, "R01.12", tooltables.ITEMS_AND_END)
    from . import objmodel
    objmodel.tee_histories(ctx, "R01.14", depth=7 if getattr(ctx, "tier", "quick") == "thorough" else 5)
    ctx.floor("tee_operations", 1000)
    objmodel.merge_table(ctx, "R01.15")
    ctx.floor("merge_table_cells_decided", 520)
    from . import c03
    from .common import Relabel
    ctx.rule("R01.18", "every tool accepts what the stdlib tool accepts: the adapter that turns an argument into an iterator does not "
                       "type-test it against synchronous ABCs and wraps whatever is not async iterable (R03.2 / R03.3, shared)")
    c03.r03_2(Relabel(ctx, "R01.18"))
    c03.r03_3(Relabel(ctx, "R01.18"))
    tooltables.fault_tables(ctx, "R01.19", items_only=True)
    ctx.rule("R01.20", "every predicate / function / key is called like the stdlib tool calls it, also one that is falsy (a callable "
                       "object with __len__ or __bool__): whether one was given is decided by `is None`, never by its truth value "
                       "(R03.12, shared)")
    c03.r03_12(Relabel(ctx, "R01.20"), modules=("builtins", "itertools", "heapq", "_core"))
    ctx.floor("tool_cells_decided", 340)
    if not ctx.__dict__.get("_r01_1_not_applicable"):
        ctx.floor("merge_cells", 6)
    ctx.floor("yield_sites", 18)
    ctx.floor("source_loops", 4)


# --------------------------------------------------------------------------- R01.1
class _HolderOps:
    def __init__(self, outcome: str, reverse: bool, roles: Optional[dict] = None):
        self.outcome = outcome  # key(A) vs key(B)
        self.reverse = reverse
        self.roles = roles or {"flag": {"reverse"}, "key": {"head_key"}}

    def attr(self, value, name, node, env):
        if value in ("A", "B"):
            if name in self.roles["flag"]:
                return self.reverse
            if name in self.roles["key"]:
                return ("key", value)
            return ("field", value, name)
        return UNKNOWN

    def compare(self, op, left, right, env):
        if isinstance(left, tuple) and isinstance(right, tuple) and left[:1] == ("key",) and right[:1] == ("key",):
            if left[1] == right[1]:
                rel = "EQ"
            else:
                rel = self.outcome if left[1] == "A" else {"LT": "GT", "GT": "LT", "EQ": "EQ"}[self.outcome]
            return {"Lt": rel == "LT", "Gt": rel == "GT", "LtE": rel != "GT", "GtE": rel != "LT",
                    "Eq": rel == "EQ", "NotEq": rel != "EQ"}.get(op, UNKNOWN)
        return UNKNOWN

    def binop(self, op, left, right, env):
        if isinstance(left, bool) and isinstance(right, bool):
            return {"BitXor": left ^ right, "BitAnd": left & right, "BitOr": left | right}.get(op, UNKNOWN)
        return UNKNOWN


def _self_field(t: ast.AST, self_name: str) -> Optional[str]:
    if isinstance(t, ast.Attribute) and isinstance(t.value, ast.Name) and t.value.id == self_name:
        return t.attr
    return None


def holder_roles(ctx) -> dict:
    """Which slots of the merge head holder play which part, read off the class itself (so
    renaming a slot changes nothing): ``flag`` — set in __init__ from a bool parameter;
    ``tail`` — the iterator whose __anext__ the pulling method awaits; ``head`` — receives the
    pulled item; ``key`` — the other slot(s) the pulling method stores (the sort key)."""
    cached = ctx.__dict__.get("_holder_roles")
    if cached is not None:
        return cached
    info = ctx.pkg.cls("heapq._KeyIter")
    roles = {"flag": set(), "tail": set(), "head": set(), "key": set(), "puller": None}
    init = info.methods.get("__init__")
    if init is not None:
        me = init.param_names()[0]
        bools = {p.arg for p in init.params() if p.annotation is not None and norm(p.annotation) == "bool"}
        for st in own_nodes(init.node):
            if isinstance(st, ast.Assign) and isinstance(st.value, ast.Name) and st.value.id in bools:
                for t in st.targets:
                    f = _self_field(t, me)
                    if f:
                        roles["flag"].add(f)
    # the pulling step: a coroutine method of the holder, or a module-level coroutine of its module whose first parameter is
    # the holder (``await entry.tail.__anext__()``) - the same step, written as a function
    outside = [u_ for u_ in info.module.units.values() if u_.cls is None and u_.parent is None and u_.kind == "coroutine"
               and u_.params() and u_.params()[0].annotation is not None and info.name in norm(u_.params()[0].annotation)]
    for m in list(info.methods.values()) + outside:
        if m.kind != "coroutine" or "classmethod" in m.decorators or "staticmethod" in m.decorators or not m.param_names():
            continue
        me = m.param_names()[0]
        pulls = [x for x in own_nodes(m.node) if isinstance(x, ast.Await) and isinstance(x.value, ast.Call)
                 and isinstance(x.value.func, ast.Attribute) and x.value.func.attr == "__anext__"
                 and _self_field(x.value.func.value, me)]
        if not pulls:
            continue
        roles["puller"] = m
        roles["tail"].add(_self_field(pulls[0].value.func.value, me))
        cfg = cfg_of(m)
        locals_of_pull = set()
        for n in cfg.nodes:
            if n.kind == "store" and not n.tag and n.info.get("value") is pulls[0]:
                for t in n.info["targets"]:
                    if isinstance(t, ast.Name):
                        locals_of_pull.add(t.id)
                    f = _self_field(t, me)
                    if f:
                        roles["head"].add(f)
        for n in cfg.nodes:
            if n.kind == "store" and not n.tag and n.info.get("value") is not pulls[0]:
                v = n.info.get("value")
                for t in n.info["targets"]:
                    f = _self_field(t, me)
                    if not f:
                        continue
                    if isinstance(v, ast.Name) and v.id in locals_of_pull:
                        roles["head"].add(f)
                    elif isinstance(v, ast.Constant) and (isinstance(v.value, bool) or v.value is None):
                        roles.setdefault("status", set()).add(f)  # (a status slot - "the tail has ended" -, not a sort key)
                    else:
                        roles["key"].add(f)
        roles["pull_locals"] = locals_of_pull
        roles["pull"] = pulls[0]
    if not roles["flag"] or not roles["key"] or roles["puller"] is None:
        raise AnalysisError("heapq._KeyIter: cannot identify the direction flag / sort key slots / pulling method "
                            f"(anchor moved): {roles}")
    ctx.__dict__["_holder_roles"] = roles
    return roles


def r01_6(ctx) -> None:
    """merge compares the key of the *current* head: whenever the holder takes a new head,
    its sort key is recomputed from that head before the holder is used again."""
    from asl.flow import find_path, pretty_path
    ctx.rule("R01.6", "merge: every newly pulled head gets its sort key recomputed (from that head) before the holder is reused")
    roles = holder_roles(ctx)
    m = roles["puller"]
    me = m.param_names()[0]
    cfg = cfg_of(m)
    pull_nodes = [n for n in cfg.nodes if n.kind == "await" and n.ast is roles["pull"] and not n.tag]
    if not pull_nodes:
        raise AnalysisError("heapq._KeyIter: the pull of the next head is not in the CFG")

    def key_store(n):
        return n.kind == "store" and any(_self_field(t, me) in roles["key"] for t in n.info.get("targets", []))

    for pn in pull_nodes:
        starts = pn.nsucc("n")
        for s0 in starts:
            if key_store(s0):
                continue
            path = find_path(s0, lambda n: n.kind == "exit", avoid=key_store,
                             edge_ok=lambda a, lab, b: lab not in ("e", "h", "p"))
            ctx.check(path is None, "R01.6", m, pn,
                      "after a successful pull every path to the normal return stores the sort key of the new head",
                      node=pn, witness="path keeping the previous head's key: " + pretty_path(path) if path else "")
    for n in cfg.nodes:
        if key_store(n) and not n.tag:
            v = n.info.get("value")
            names = {x.id for x in ast.walk(v) if isinstance(x, ast.Name)} if v is not None else set()
            fields = {_self_field(x, me) for x in ast.walk(v) if isinstance(x, ast.Attribute)} if v is not None else set()
            ctx.check(bool(names & roles.get("pull_locals", set())) or bool(fields & roles["head"]), "R01.6", m, n,
                      "the stored sort key is computed from the head that was just pulled", node=n)


def r01_7(ctx) -> None:
    """Items are opaque: a value obtained from a user's iterable is only ever identity-tested
    against a private sentinel of the library.  ``is None`` (or any constant) would give a
    meaning to an item the stdlib counterpart passes through — None is a legal item."""
    from .common import real_units
    ctx.rule("R01.7", "an item of a user iterable is identity-compared only with a library-private sentinel, never "
                      "with None / a constant (None is a legal item)")
    for u in real_units(ctx):
        if u.module.short not in ("builtins", "itertools", "heapq", "_core", "asynctools", "functools"):
            continue  # the iterator tools and aggregations (contextlib's generator protocol is C13's)
        cfg = cfg_of(u)
        seen = set()
        for n in cfg.nodes:
            if n.tag or n.ast is None:
                continue
            for e in ast.walk(n.ast):
                if isinstance(e, ast.Compare) and id(e) not in seen and any(isinstance(o, (ast.Eq, ast.NotEq)) for o in e.ops):
                    # ``item != SENTINEL``: equality runs the item's own __eq__ / __ne__ (an item may equal everything)
                    ops_ = [e.left] + list(e.comparators)
                    ks = [{a[0] for a in ctx.vals.expr(u, o, n)} for o in ops_]
                    if any(k & {"item", "usernext"} for k in ks) and any(k and k <= {"sentinel"} for k in ks):
                        seen.add(id(e))
                        ctx.count("item_identity_tests")
                        ctx.fail("R01.7", u, e, "a private sentinel is told from an item by identity, never by == / != (that would run "
                                 "the item's own comparison)", node=n, witness="operand origins: " + str([sorted(k) for k in ks]))
                    continue
                if not (isinstance(e, ast.Compare) and any(isinstance(o, (ast.Is, ast.IsNot)) for o in e.ops)) or id(e) in seen:
                    continue
                seen.add(id(e))
                operands = [e.left] + list(e.comparators)
                kinds = [{a[0] for a in ctx.vals.expr(u, o, n)} for o in operands]
                if not any(k & {"item", "usernext"} for k in kinds):
                    continue
                ctx.count("item_identity_tests")
                others = [k for k in kinds if not (k & {"item", "usernext"})]
                ok = all(k and k <= {"sentinel", "self", "libinst"} for k in others) and len(others) >= 1
                ctx.check(ok, "R01.7", u, e, "the item is compared by identity with a private sentinel only", node=n,
                          witness="operand origins: " + str([sorted(k) for k in kinds]))


# public defaults that are part of "behaves like the stdlib namesake" (stdlib signature -> default)
DEFAULTS = {
    ("heapq.merge", "key"): None, ("heapq.merge", "reverse"): False,
    ("heapq.nlargest", "key"): None, ("heapq.nsmallest", "key"): None,
    ("builtins.zip", "strict"): False, ("builtins.enumerate", "start"): 0,
    ("builtins.sorted", "key"): None, ("builtins.sorted", "reverse"): False,
    ("builtins.min", "key"): None, ("builtins.max", "key"): None, ("builtins.sum", "start"): 0,
    ("itertools.batched", "strict"): False, ("itertools.zip_longest", "fillvalue"): None,
    ("itertools.tee", "n"): 2, ("itertools.Tee.__init__", "n"): 2,
    ("functools.cache", None): None,
}


def r01_8(ctx) -> None:
    """Default parameter values of the public tools equal those of their stdlib namesakes."""
    ctx.rule("R01.8", "defaults of the public tools equal the stdlib's (reverse=False, strict=False, start=0, key=None, ...)")
    for (short, pname), want in DEFAULTS.items():
        if pname is None or not ctx.pkg.has_unit(short):
            continue
        u = ctx.unit(short)
        a = u.node.args
        pos = list(a.posonlyargs) + list(a.args)
        dflt = dict(zip([p.arg for p in pos][len(pos) - len(a.defaults):], a.defaults))
        dflt.update({p.arg: d for p, d in zip(a.kwonlyargs, a.kw_defaults) if d is not None})
        d = dflt.get(pname)
        ctx.count("defaults_checked")
        ok = isinstance(d, ast.Constant) and d.value == want and type(d.value) is type(want)
        ctx.check(ok, "R01.8", u, d if d is not None else f"{pname}",
                  f"default of `{pname}` is {want!r} like the stdlib's", witness=norm(d) if d is not None else "no default")


# tools that hand every pulled item (or its image) to the consumer before pulling again
IMMEDIATE = ["itertools.cycle", "builtins.enumerate", "builtins.map", "itertools.starmap", "itertools.accumulate",
             "_core._aiter_sync", "builtins.acallable_iterator"]


def r01_9(ctx) -> None:
    """Liveness: every ``yield`` of a tool is reachable, and the tools that map items one to one
    yield between two pulls of their source (the first pass of ``cycle`` included)."""
    from asl.flow import find_path, live_nodes, pretty_path
    from .c05 import pull_nodes
    ctx.rule("R01.9", "every yield of a tool is reachable; one-to-one tools yield between consecutive pulls")
    for short in _present(ctx, PASS_THROUGH + TRANSFORMING):
        u = ctx.inlined(ctx.unit(short))
        cfg = cfg_of(u)
        alive = live_nodes(cfg)
        dead = [n for n in cfg.nodes if n.kind == "yield" and not n.tag and n not in alive]
        ctx.check(not dead, "R01.9", u, dead[0] if dead else "yields", "every yield is reachable (no loop that can never run)",
                  node=dead[0] if dead else None)
    for short in IMMEDIATE:
        if not ctx.pkg.has_unit(short):
            continue
        u = ctx.inlined(ctx.unit(short))
        cfg = cfg_of(u)
        for p in pull_nodes(ctx, u):
            if p.kind not in ("pull", "snext", "await"):
                continue
            starts = [s for (lab, s) in p.succ if lab == "n"]
            for s0 in starts:
                path = find_path(s0, lambda x: x is p or x is cfg.exit, avoid=lambda x: x.kind == "yield",
                                 edge_ok=lambda a, lab, b: lab not in ("e", "p", "h"), include_src=False)
                if s0.kind == "yield":
                    path = None
                ctx.count("immediate_pulls")
                ctx.check(path is None, "R01.9", u, p, "the item just pulled is yielded before the source is pulled again "
                          "(or the tool ends)", node=p, witness=pretty_path(path))


def r01_10(ctx) -> None:
    from . import c05
    from .common import Relabel
    ctx.rule("R01.10", "islice yields what itertools.islice yields on a cube of slicings (the table of R05.5, compared on the items only)")
    c05.r05_5(Relabel(ctx, "R01.10"), consumption=False)


def _eval_method(ctx, cls_short: str, mname: str, outcome: str, reverse: bool, a: str, b: str):
    info = ctx.pkg.cls(cls_short)
    m = info.methods.get(mname)
    if m is None:
        return None
    params = m.param_names()
    from .common import make_resolver
    ops = _HolderOps(outcome if a == "A" else {"LT": "GT", "GT": "LT", "EQ": "EQ"}[outcome], reverse, holder_roles(ctx))
    results = Machine(cfg_of(m), ops, resolver=make_resolver(ctx, m, ops)).run({params[0]: "A", params[1]: "B"})
    vals = {oc.env.get("@return") for oc in results if oc.terminal.kind == "exit"}
    if len(vals) != 1:
        return UNKNOWN
    return vals.pop()


def r01_1(ctx) -> None:
    u = ctx.inlined(ctx.unit("heapq.merge"))  # (the heap may be built by a private step)
    holder = "heapq._KeyIter"
    # the heap entries: tuples (holder, position) that enter the heap for the first time —
    # a comprehension element, an ``append`` argument or a ``heappush`` argument
    cfg = cfg_of(u)
    entries = []
    parents = {}
    for x in ast.walk(u.node):
        for c in ast.iter_child_nodes(x):
            parents[id(c)] = x
    for n in own_nodes(u.node):
        if not (isinstance(n, ast.Tuple) and len(n.elts) == 2 and isinstance(n.ctx, ast.Load) and isinstance(n.elts[0], ast.Name)):
            continue
        par = parents.get(id(n))
        first_time = isinstance(par, ast.ListComp) and par.elt is n
        if isinstance(par, ast.Call) and n in par.args:
            fname = norm(par.func).split(".")[-1]
            first_time = fname in ("append", "heappush")
        if not first_time:
            continue
        nodes = [m for m in cfg.nodes if m.ast is par or (m.kind == "collect" and m.ast is par)]
        at = nodes[0] if nodes else None
        v = ctx.vals.expr(u, n.elts[0], at)
        if any(a[0] == "libinst" and a[1] == ctx.pkg.cls(holder).fq for a in v) or isinstance(par, ast.ListComp):
            entries.append(n)
    if len(entries) != 1:
        # the order algebra reads one construction site; however the heap is built, the merge table R01.15 decides the order
        ctx.note(f"R01.1: the heap entries of merge are not built by one (holder, position) display ({[norm(e) for e in entries]}); "
                 "the order of ties is decided by the merge table R01.15 alone")
        ctx.__dict__["_r01_1_not_applicable"] = True
        return
    flag = [p.arg for p in u.params() if p.annotation is not None and norm(p.annotation) == "bool"]
    idx_names = [x.id for x in ast.walk(entries[0].elts[1]) if isinstance(x, ast.Name) and x.id not in flag]
    idx_name = idx_names[0] if idx_names else None
    if not flag or (idx_name is None and not isinstance(entries[0].elts[1], ast.Constant)):
        raise AnalysisError("merge: heap entry construction changed shape (anchor moved)")
    if idx_name is None:
        idx_name = "_no_index_"
    ev = AbsEval(_IntOps())
    table = {}
    pos_expr = entries[0].elts[1]
    par = parents.get(id(entries[0]))
    if isinstance(pos_expr, ast.Call) and norm(pos_expr.func).split(".")[-1] == "len" and len(pos_expr.args) == 1 \
            and isinstance(par, ast.Call) and isinstance(par.func, ast.Attribute) and par.func.attr == "append" \
            and norm(par.func.value) == norm(pos_expr.args[0]):
        # ``heap.append((holder, len(heap)))``: the position is the number of entries before this one
        pos_expr = ast.Name(id=idx_name, ctx=ast.Load())
    for reverse in (False, True):
        p_i = ev.eval(pos_expr, {idx_name: 1, flag[0]: reverse})
        p_j = ev.eval(pos_expr, {idx_name: 2, flag[0]: reverse})
        if not isinstance(p_i, int) or not isinstance(p_j, int):
            # the order algebra cannot read how positions are numbered here; the merge table R01.15 decides the order of ties
            ctx.note(f"R01.1: the position `{norm(entries[0].elts[1])}` of a heap entry of merge could not be evaluated; "
                     "the order of ties is decided by the merge table R01.15 alone")
            ctx.__dict__["_r01_1_not_applicable"] = True
            return
        for outcome in ("LT", "EQ", "GT"):
            ctx.count("merge_cells")
            # entry_i < entry_j ?   (A = holder of iterable i, B = holder of iterable j)
            eq = _eval_method(ctx, holder, "__eq__", outcome, reverse, "A", "B")
            lt_ab = _eval_method(ctx, holder, "__lt__", outcome, reverse, "A", "B")
            lt_ba = _eval_method(ctx, holder, "__lt__", {"LT": "GT", "GT": "LT", "EQ": "EQ"}[outcome], reverse, "A", "B")
            if eq is None:
                eq = False  # no __eq__: identity, two distinct holders are never equal
            cell = f"reverse={reverse}, head key of iterable i {outcome} head key of iterable j"
            if UNKNOWN in (eq, lt_ab, lt_ba) or not isinstance(p_i, int) or not isinstance(p_j, int):
                ctx.fail("R01.1", u, entries[0], f"[{cell}] the entry ordering could not be evaluated",
                         witness=f"eq={eq} lt={lt_ab}/{lt_ba} positions={p_i},{p_j}")
                continue
            if eq:
                i_first, j_first = p_i < p_j, p_j < p_i
                how = f"holders compare equal -> position {p_i} vs {p_j}"
            else:
                i_first, j_first = bool(lt_ab), bool(lt_ba)
                how = f"holders differ -> holder_i < holder_j is {lt_ab}, holder_j < holder_i is {lt_ba}"
            if outcome == "EQ":
                want_i = True
            elif outcome == "LT":
                want_i = not reverse
            else:
                want_i = reverse
            decided = i_first != j_first
            ok = decided and (i_first == want_i)
            table[cell] = ("i first" if i_first and not j_first else "j first" if j_first and not i_first else "UNDECIDED (heap layout)")
            ctx.check(ok, "R01.1", u, entries[0] if eq or outcome == "EQ" else f"{holder}.__lt__",
                      f"[{cell}] the heap pops the entry of iterable {'i' if want_i else 'j'} first"
                      + (" (ties go to the iterable given first, in both directions)" if outcome == "EQ" else ""),
                      witness=f"{how}; evaluated: {table[cell]}")
    ctx.tables["merge entry order"] = table
    # R01.1b: ordering decisions go through the heap entries only (holder + position); a direct
    # comparison of two holders bypasses the position tie-break
    units = [x for x in u.module.units.values() if x is u or x.parent is u]
    direct = []
    for x in units:
        xcfg = cfg_of(x)
        for n in xcfg.nodes:
            if n.kind == "op" and n.info.get("op") == "compare" and not n.tag:
                vals = [ctx.vals.expr(x, o, n) for o in n.info.get("operands", [])]
                if sum(1 for v in vals if any(a[0] == "libinst" and a[1] == ctx.pkg.cls(holder).fq for a in v)) >= 2:
                    direct.append((x, n))
    ctx.count("merge_units", len(units))
    for x, n in direct:
        ctx.fail("R01.1", x, n, "two head holders are compared directly, outside the (holder, position) heap entries: "
                 "for equal heads the decision ignores the position of the iterable, so merge is no longer stable", node=n)
    if not direct:
        ctx.ok("R01.1", u, "head holders are only ordered through the (holder, position) heap entries")


# --------------------------------------------------------------------------- R01.5
def r01_5(ctx) -> None:
    """tee children: the child-local premises that keep every child's item sequence intact
    (shared with C04 R04.5 / C09): a finishing child removes exactly its own buffer."""
    from . import c04
    ctx.rule("R01.5", "tee: a finishing child removes exactly its own buffer (siblings keep receiving every item)")

    class _R:
        def __init__(self, c):
            self._c = c

        def __getattr__(self, name):
            return getattr(self._c, name)

        def ok(self, rule, *a, **k):
            return self._c.ok("R01.5", *a, **k)

        def check(self, cond, rule, *a, **k):
            return self._c.check(cond, "R01.5", *a, **k)

        def fail(self, rule, *a, **k):
            return self._c.fail("R01.5", *a, **k)

    c04.r04_5(_R(ctx))


# --------------------------------------------------------------------------- R01.2
def r01_2(ctx) -> None:
    seen: Dict = {}
    for short in _present(ctx, PASS_THROUGH + TRANSFORMING + ["heapq._KeyIter.from_iters"]) + [
            "builtins.iter", "itertools.Tee.__init__", "itertools.chain.__init__"]:
        u = ctx.inlined(ctx.unit(short))  # an error may be raised from a private helper of the tool
        for r in own_nodes(u.node):
            if isinstance(r, ast.Raise):
                if r.exc is None:
                    continue
                cls = raised_class(ctx, u, r)
                seen[(short, cls)] = seen.get((short, cls), 0) + 1
                ok = (short, cls) in RAISES
                ctx.check(ok, "R01.2", u, r, f"`raise {cls}` is the stdlib's exception class for this condition" if ok
                          else f"`raise {cls}` is not an exception the stdlib counterpart raises here")
    for key, n in RAISES.items():
        ctx.check(seen.get(key, 0) >= 1, "R01.2", key[0], f"raise {key[1]}",
                  f"{key[0]} still signals its error condition with {key[1]}", witness=f"found {seen.get(key, 0)}")


# --------------------------------------------------------------------------- R01.3
def _allowed(ctx, atom, unit_short: str, transforming: bool, depth: int = 0) -> Optional[str]:
    k = atom[0]
    if k in ("item", "user", "iter", "usernext"):
        if transforming and not unit_short.endswith("accumulate"):
            return f"an input item ({atom[1]}) instead of the function's result"
        return None
    if k in ("const", "none", "sentinel", "fresh"):
        if k == "const" and atom[1] in ("computed", "str"):
            return f"computed value {atom}"
        return None
    if k == "tuple":
        for part in atom[1]:
            for a in part:
                why = _allowed(ctx, a, unit_short, transforming, depth + 1)
                if why:
                    return why
        return None
    if k == "elems":
        return _allowed(ctx, atom[1], unit_short, transforming, depth + 1)
    if k == "libyield":
        return None
    if k == "libinst":
        return None if atom[1] == ctx.pkg.cls("heapq._KeyIter").fq else f"library object {atom[1]}"
    if k == "result":
        if transforming and depth == 0:
            return None
        return f"result of an operation on the item ({atom[1]})"
    return f"value of origin {atom}"


def r01_3(ctx) -> None:
    for short in _present(ctx, PASS_THROUGH + TRANSFORMING):
        u = ctx.unit(short)
        cfg = cfg_of(u)
        transforming = short in TRANSFORMING
        bad = 0
        for n in cfg.nodes:
            if n.kind != "yield" or n.tag:
                continue
            ctx.count("yield_sites")
            value = n.info.get("value")
            v = ctx.vals.expr(u, value, n)
            for a in v:
                why = _allowed(ctx, a, short, transforming)
                if why:
                    bad += 1
                    ctx.fail("R01.3", u, n, "a yielded value is not the very object obtained from the source: " + why
                             if not transforming else "a transforming tool yields something other than the user "
                             "function's awaited result / the initial value: " + why, node=n)
            # no call other than tuple()/container reads is applied syntactically
            if value is not None and not transforming:
                for sub in ast.walk(value):
                    if isinstance(sub, ast.Call) and norm(sub.func) not in ("tuple", "cast", "typing.cast") and not (
                            isinstance(sub.func, ast.Attribute) and sub.func.attr in ("popleft", "pop")) and any(
                            any(x[0] in ("item", "result") for x in ctx.vals.expr(u, a.value if isinstance(a, ast.Starred) else a, n))
                            for a in sub.args):
                        # (a private library helper that hands its argument back as it came in - ``yield remember(item)`` -
                        # applies nothing to the item: what the call evaluates to is the argument itself)
                        fv = ctx.vals.expr(u, sub.func, n)
                        if fv and all(f[0] == "libfn" and f[1].split(".")[-1].startswith("_") for f in fv):
                            got = ctx.vals.expr(u, sub, n)
                            handed = frozenset(x for a in sub.args if not isinstance(a, ast.Starred) for x in ctx.vals.expr(u, a, n))
                            if got and got <= handed and all(x[0] in ("item", "result") for x in got):
                                continue
                        bad += 1
                        ctx.fail("R01.3", u, n, f"`{norm(sub.func)}(...)` is applied to an item on its way from the source "
                                 "to the consumer", node=n)
        if not bad:
            ctx.ok("R01.3", u, "every yield hands out source items (or tuples of them) unchanged" if not transforming
                   else "every yield is the user function's awaited result or the initial value")


# --------------------------------------------------------------------------- R01.4
def _lockstep_order(ctx) -> None:
    """A tool that advances several of its iterable parameters in lock-step through the
    library's zip hands them over in parameter order (zip pulls left to right): the stdlib
    counterpart pulls ``data`` before ``selectors``."""
    from asl.values import mentions
    from .common import real_units
    for u in real_units(ctx):
        if u.kind not in ("asyncgen", "coroutine") or u.module.short not in ("builtins", "itertools", "heapq"):
            continue
        params = [p.arg for p in u.params()]
        cfg = None
        for call in own_nodes(u.node):
            if not (isinstance(call, ast.Call) and len(call.args) >= 2 and not any(isinstance(a, ast.Starred) for a in call.args)):
                continue
            r = ctx.pkg.resolve_expr_global(u.module, call.func)
            if not (r.kind == "lib" and r.qual.rsplit(".", 1)[-1] in ("zip", "zip_longest")):
                continue
            cfg = cfg or cfg_of(u)
            at = next((n for n in cfg.nodes if n.ast is not None and not n.tag and any(x is call for x in ast.walk(n.ast))), None)
            order = []
            for a in call.args:
                v = ctx.vals.expr(u, a, at)
                idx = [i for i, pn in enumerate(params) if mentions(v, f"{u.short}:{pn}")]
                order.append(idx[0] if len(idx) == 1 else None)
            if None in order or len(set(order)) != len(order):
                continue
            ctx.count("lockstep_calls")
            ctx.check(order == sorted(order), "R01.4", u, call,
                      "sources advanced in lock-step are handed to zip in parameter order (pulled left to right like "
                      "the stdlib counterpart)", witness=f"parameter positions {order}", line=call.lineno)


def r01_4(ctx) -> None:
    _lockstep_order(ctx)
    for short in _present(ctx, MULTI_SOURCE):
        u = ctx.unit(short)
        cfg = cfg_of(u)
        for n in cfg.nodes:
            if n.kind != "siter" or n.tag or any(k == "finally" for (k, _a) in n.regions):
                continue
            it = n.info.get("iter")
            v = ctx.vals.expr(u, it, n)
            holds_sources = any(a[0] in ("user", "iter") for a in atoms_deep(ctx.vals.element_of(v)))
            if not holds_sources:
                continue
            ctx.count("source_loops")
            inner = it
            if isinstance(it, ast.Call) and it.args and ctx.pkg.resolve_expr_global(u.module, it.func).qual.split(".")[-1] == "enumerate" \
                    and ctx.pkg.resolve_expr_global(u.module, it.func).kind in ("builtin", "stdlib"):
                inner = it.args[0]  # (the builtin enumerate under whatever name it was imported)
            if isinstance(inner, ast.Subscript) and isinstance(inner.slice, ast.Slice) and (
                    inner.slice.step is None or (isinstance(inner.slice.step, ast.Constant) and isinstance(inner.slice.step.value, int)
                                                 and inner.slice.step.value > 0)):
                inner = inner.value  # a forward slice keeps the order (which sources take part is the tables' matter)
            ok = isinstance(inner, ast.Name)
            ctx.check(ok, "R01.4", u, it, "the sources are visited in argument order (bare container, a forward slice or enumerate of it)"
                      if ok else f"the sources are visited through `{norm(it)}`, not in plain argument order", node=n)


def run_thorough(ctx) -> None:
    from . import lockstep
    lockstep.thorough_oracle(ctx, "R01.T")
