"""C13 — contextmanager equals asynccontextmanager for every generator and body outcome.

The property's own quantifier is a finite product (block outcome class x generator reaction
class) and ``__aexit__`` touches its inputs only through class matching and identity tests,
so it is decided by finite-domain abstract evaluation (asl/absint.py):

R13.1 ``__aexit__`` decision table: for every feasible (block outcome, generator reaction)
      cell the evaluated result — return falsy (the block's exception, or none, propagates
      unchanged) / return truthy (suppressed) / raise a new RuntimeError / re-raise the
      generator's exception object — equals the frozen specification table.
R13.2 exactly one interaction with the generator per exit: ``__anext__()`` when the block
      ended normally, ``aclose()`` for GeneratorExit (documented deviation), ``athrow(exc_val)``
      with the very exception object otherwise.
R13.3 ``__aenter__``: one ``__anext__``; its value is returned; StopAsyncIteration becomes a
      new RuntimeError; any other exception propagates as the same object.
Thorough tier: the same evaluator derives the table from the interpreter's own
``contextlib._AsyncGeneratorContextManager.__aexit__`` source; every non-GeneratorExit cell of
the frozen table must agree with it (guards the oracle, not the repository).
"""
from __future__ import annotations

import ast
import contextlib as _py_contextlib
from typing import Any, Dict, List, Optional, Tuple

from asl.absint import UNKNOWN, AbsEval, Machine
from asl.cfg import CFG, Node, cfg_of
from asl.loader import AnalysisError, Unit, norm
from .common import make_resolver

LEVEL = {
    "decided": "C13: (R13.1) _AsyncGeneratorContextManager.__aexit__ abstractly evaluated over all 42 feasible "
               "(block outcome class x generator reaction class) cells equals the specification table written from the "
               "statement (same object propagates / suppressed / RuntimeError for 'did not stop'; Stop*/RuntimeError "
               "never misattributed; GeneratorExit closes and propagates); (R13.2) exactly one generator interaction "
               "per exit with the right method and the very exception object; (R13.3) __aenter__ table.",
    "not_decided": "what the user's generator body does (user code, the reaction classes are the domain); cells "
                   "excluded as infeasible by CPython rules are listed in the evidence.",
    "technique": "static analysis: finite-domain abstract evaluation of __aexit__ against a frozen decision table",
}
LEVEL["decided"] += " The table includes reactions that raise a new exception explicitly chained to the block's (`raise New from err`); (R13.4) decorator use creates a new manager per call (R15.2, shared)."
LEVEL["decided"] += ' (R13.5) decorator use: the call runs the function inside one context and returns its result from inside it (R15.1, shared).'
LEVEL["decided"] += ' R13.3 has a fourth enter cell: a RuntimeError the generator raises before its first yield reaches the caller as it is.'
LEVEL["decided"] += ' The table has 44 cells: a block that ended normally and a generator that raises a RuntimeError (with or without a StopAsyncIteration of its own as cause) propagates it.'

HIER = {
    "BaseException": None, "Exception": "BaseException", "GeneratorExit": "BaseException",
    "OtherBase": "BaseException", "StopIteration": "Exception", "StopAsyncIteration": "Exception",
    "RuntimeError": "Exception", "OtherExc": "Exception", "OtherExc2": "Exception",
}


def issub(cls: str, target: str) -> bool:
    while cls is not None:
        if cls == target:
            return True
        cls = HIER.get(cls)  # type: ignore[assignment]
    return False


def exc(ident: str, cls: str, cause: Optional[str] = None):
    return ("exc", ident, cls, cause)


BLOCKS = ["none", "GeneratorExit", "StopIteration", "StopAsyncIteration", "RuntimeError", "OtherExc", "OtherBase"]

# reaction -> what the single generator interaction does
#   ('stop',)            raises a new StopAsyncIteration (generator finished)
#   ('yield',)           returns a value (generator yielded again)
#   ('none',)            aclose() returns None
#   ('same',)            raises the very object passed in
#   ('new', cls, cause)  raises a new object of class cls (cause: 'V' = caused by the passed object)
SPEC: Dict[str, Dict[Tuple, str]] = {
    # (cause "S": the generator's own ``raise StopAsyncIteration`` after the yield, which CPython promotes to a RuntimeError
    #  caused by it - an error of the generator like any other, asynccontextmanager lets it propagate)
    "none": {("stop",): "F", ("yield",): "RT", ("new", "OtherExc", None): "PROP", ("new", "RuntimeError", None): "PROP",
             ("new", "RuntimeError", "S"): "PROP"},
    "GeneratorExit": {("none",): "F", ("new", "RuntimeError", None): "PROP", ("new", "OtherExc", None): "PROP",
                      ("new", "OtherExc", "V"): "PROP"},
    "StopIteration": {("stop",): "T", ("yield",): "RT", ("new", "RuntimeError", "V"): "F",
                      ("new", "RuntimeError", None): "PROP", ("new", "OtherExc", None): "PROP",
                      ("new", "OtherExc", "V"): "PROP"},
    "StopAsyncIteration": {("stop",): "T", ("yield",): "RT", ("new", "RuntimeError", "V"): "F",
                           ("new", "RuntimeError", None): "PROP", ("new", "OtherExc", None): "PROP",
                           ("new", "OtherExc", "V"): "PROP"},
    # (cause "V": the generator's handler raises explicitly chained, ``raise New(...) from err`` — only the
    #  RuntimeError that CPython itself chains to a thrown-in Stop*Iteration means "our exception came back")
    "RuntimeError": {("stop",): "T", ("yield",): "RT", ("same",): "F",
                     ("new", "RuntimeError", None): "PROP", ("new", "OtherExc", None): "PROP",
                     ("new", "RuntimeError", "V"): "PROP", ("new", "OtherExc", "V"): "PROP"},
    "OtherExc": {("stop",): "T", ("yield",): "RT", ("same",): "F", ("new", "OtherExc", None): "PROP",
                 ("new", "OtherExc2", None): "PROP", ("new", "RuntimeError", None): "PROP",
                 ("new", "OtherExc2", "V"): "PROP", ("new", "RuntimeError", "V"): "PROP"},
    "OtherBase": {("stop",): "T", ("yield",): "RT", ("same",): "F", ("new", "OtherBase", None): "PROP",
                  ("new", "OtherExc", None): "PROP", ("new", "RuntimeError", None): "PROP",
                  ("new", "OtherExc", "V"): "PROP", ("new", "RuntimeError", "V"): "PROP"},
}
INFEASIBLE = [
    "Stop*/('same',): an async generator cannot re-raise the StopIteration/StopAsyncIteration thrown into it; "
    "CPython promotes it to RuntimeError (PEP 479 / PEP 525) — covered by ('new','RuntimeError','V')",
    "Stop*/('new', same class): raising StopIteration/StopAsyncIteration inside an async generator is promoted likewise",
    "GeneratorExit/('stop',),('yield',): aclose() never returns a yielded value; a generator that yields after "
    "GeneratorExit makes aclose() raise RuntimeError — covered by ('new','RuntimeError',None)",
    "none/('same',): nothing was passed in",
]
MEANING = {
    "F": "return falsy: the block's exception (or none) propagates unchanged",
    "T": "return truthy: the exception is suppressed",
    "RT": "raise a new RuntimeError (generator did not stop)",
    "PROP": "the exception raised by the generator propagates as the same object",
}


class _CmOps:
    def __init__(self, reaction: Tuple, passed: Optional[Tuple]):
        self.reaction = reaction
        self.passed = passed
        self.counter = 0

    def name(self, ident, env):
        # (exception classes are globals: also visible inside helper methods evaluated by a nested machine)
        return ("cls", ident) if ident in HIER else UNKNOWN

    def _fresh(self, cls: str, cause=None):
        self.counter += 1
        return exc(f"N{self.counter}", cls, cause)

    def attr(self, value, name, node, env):
        if value == "SELF" and name == "gen":
            return ("GEN",)
        if name == "__cause__" and isinstance(value, tuple) and value[:1] == ("exc",):
            if value[3] == "S":
                return exc("S-of-" + str(value[1]), "StopAsyncIteration", None)  # (an object of the generator's own making)
            return self.passed if value[3] == "V" else None
        if name == "__traceback__":
            return ("tb", value)
        return UNKNOWN

    def store(self, target, value, env, ev):
        return None  # attribute stores (e.g. __traceback__) are irrelevant to the decision

    def truth(self, v, env):
        if isinstance(v, tuple) and v[:1] == ("exc",) and v == self.passed:
            return UNKNOWN  # the caller's exception instance may be falsy (__bool__ / __len__): never branch on it
        if isinstance(v, tuple) and v[:1] in (("exc",), ("cls",)):
            return True
        if v == "YIELDED":
            return True
        return UNKNOWN

    def compare(self, op, left, right, env):
        if op in ("Is", "IsNot"):
            if left is None or right is None:
                same = left is None and right is None
            else:
                same = left == right
            return same if op == "Is" else not same
        return UNKNOWN

    def call(self, func, args, kwargs, node, env):
        if func == "isinstance" and len(args) == 2 and isinstance(args[0], tuple) and args[0][:1] == ("exc",):
            targets = args[1] if isinstance(args[1], tuple) and args[1][:1] != ("cls",) else (args[1],)
            if all(isinstance(t, tuple) and t[:1] == ("cls",) for t in targets):
                return any(issub(args[0][2], t[1]) for t in targets)
            return UNKNOWN
        if func in HIER or func in ("ValueError", "TypeError"):
            return self._fresh(func if func in HIER else "OtherExc")
        if func in ("self.gen.__anext__", "self.gen.athrow", "self.gen.aclose", "anext"):
            # non-raising completion of the interaction (the raising cases go through raises())
            return "YIELDED" if self.reaction == ("yield",) else None
        if func == "typ" or func == "exc_type":
            return UNKNOWN
        return UNKNOWN

    GEN_METHODS = ("self.gen.__anext__", "self.gen.athrow", "self.gen.aclose", "anext")

    def raises(self, node: Node, env):
        """The single interaction with the generator is modelled at the *call* node that
        creates its awaitable (the await follows in the same protected region), so the
        operand of the await may be any expression (e.g. a conditional expression)."""
        if node.kind != "call":
            return None
        call = node.ast
        text = norm(call.func)
        if text not in self.GEN_METHODS:
            return None
        if text == "anext" and not (call.args and norm(call.args[0]) == "self.gen"):
            return None
        ev = AbsEval(self)
        args = tuple(ev.eval(a, env) for a in call.args)
        method = text.rsplit(".", 1)[-1]
        if method == "anext":
            method, args = "__anext__", ()
        env["@trace"] = env["@trace"] + ((method, args),)
        if len(env["@trace"]) > 1:
            return None  # a second interaction (e.g. closing after 'did not stop') completes normally
        r = self.reaction
        if r == ("stop",):
            return self._fresh("StopAsyncIteration")
        if r == ("same",):
            return self.passed
        if r[0] == "new":
            return self._fresh(r[1], r[2])
        return None

    def matches(self, type_ast, e, env):
        if type_ast is None:
            return True
        ev = AbsEval(self)
        t = ev.eval(type_ast, env)
        if not (isinstance(e, tuple) and e[:1] == ("exc",)):
            return UNKNOWN
        targets = t if isinstance(t, tuple) and t[:1] != ("cls",) else (t,)
        if all(isinstance(x, tuple) and x[:1] == ("cls",) for x in targets):
            return any(issub(e[2], x[1]) for x in targets)
        if any(x is None for x in targets):
            # ``except None:`` — Python raises TypeError ("catching classes that do not inherit
            # from BaseException is not allowed") as soon as an exception reaches the clause
            env["@exc"] = ("exc", "typeerror-in-except-clause", "TypeError", None)
            return False
        return UNKNOWN


def base_env(params: List[str], block: str) -> Tuple[Dict[str, Any], Optional[Tuple]]:
    env: Dict[str, Any] = {name: ("cls", name) for name in HIER}
    env["@trace"] = ()
    env[params[0]] = "SELF"
    if block == "none":
        env[params[1]] = None
        env[params[2]] = None
        env[params[3]] = None
        return env, None
    passed = exc("V", block)
    env[params[1]] = ("cls", block)
    env[params[2]] = passed
    env[params[3]] = ("tb", "TB")
    return env, passed


def classify(oc, passed) -> str:
    if oc.terminal.kind == "raise_exit":
        e = oc.env.get("@exc")
        if isinstance(e, tuple) and e[:1] == ("exc",):
            created_here = e in oc.env.get("@created_in_exit", ())
            return "RT" if created_here else ("PROP" if e != passed else "RAISE_PASSED")
        return "RAISE?"
    r = oc.env.get("@return")
    if r is UNKNOWN:
        return "RETURN?"
    return "T" if r else "F"


def evaluate_exit(cfg: CFG, params: List[str], block: str, reaction: Tuple, ctx=None, unit=None) -> List[Tuple[str, Tuple, Any]]:
    env, passed = base_env(params, block)
    ops = _CmOps(reaction, passed)
    resolver = make_resolver(ctx, unit, ops) if ctx is not None and unit is not None else None
    gen_excs: List[Tuple] = []
    orig_raises = ops.raises

    def raises(node, e):
        sym = orig_raises(node, e)
        if sym is not None:
            gen_excs.append(sym)
        return sym

    ops.raises = raises  # type: ignore[method-assign]
    out = []
    for oc in Machine(cfg, ops, resolver=resolver).run(env):
        if oc.terminal.kind == "raise_exit":
            e = oc.env.get("@exc")
            if isinstance(e, tuple) and e[:1] == ("exc",):
                if e == passed:
                    res = "RAISE_PASSED"
                elif e in gen_excs:
                    res = "PROP"
                elif e[2] == "RuntimeError":
                    res = "RT"
                else:
                    res = "RAISE_NEW_" + e[2]
            else:
                res = "RAISE?"
        else:
            r = oc.env.get("@return")
            res = "RETURN?" if r is UNKNOWN else ("T" if r else "F")
        out.append((res, oc.env["@trace"], oc))
    return out


def run(ctx) -> None:
    ctx.rule("R13.1", "__aexit__ decision table over (block outcome x generator reaction) equals the specification")
    ctx.rule("R13.2", "exactly one generator interaction per exit, right method, very same exception object")
    ctx.rule("R13.3", "__aenter__: one __anext__, value returned, StopAsyncIteration -> RuntimeError")
    ctx.assume("CPython promotes StopIteration/StopAsyncIteration escaping an async generator to RuntimeError "
               "with __cause__ set (PEP 479 / 525) — used to mark cells infeasible")
    ctx.tables["infeasible cells"] = INFEASIBLE
    ctx.tables["outcome legend"] = MEANING
    u = ctx.inlined(ctx.unit("contextlib._AsyncGeneratorContextManager.__aexit__"))  # the cases may live in private methods
    cfg = cfg_of(u)
    params = u.param_names()
    if len(params) != 4:
        raise AnalysisError("__aexit__ signature changed (anchor moved)")
    table: Dict[str, Dict[str, str]] = {}
    for block in BLOCKS:
        for reaction, want in SPEC[block].items():
            ctx.count("cells")
            cell = f"block={block} generator={_rtext(reaction)}"
            results = evaluate_exit(cfg, params, block, reaction, ctx, u)
            if not results:
                ctx.fail("R13.1", u, "__aexit__", f"[{cell}] abstract evaluation produced no outcome")
                continue
            got_all = sorted({r for r, _t, _o in results})
            table.setdefault(block, {})[_rtext(reaction)] = "/".join(got_all)
            for res, trace, oc in results:
                if block == "none" and res == "T" and want == "F":
                    res = "F"  # without an exception in flight the return value of __aexit__ is ignored
                if res != want:
                    ctx.fail("R13.1", u, _decider(oc),
                             f"exit outcome differs from asynccontextmanager for a block ending with {block} "
                             f"when the generator {_rtext(reaction)}: expected {want} ({MEANING[want]}), "
                             f"evaluated {res}" + (f" ({MEANING[res]})" if res in MEANING else ""),
                             witness=f"[{cell}] path: " + " -> ".join(f"L{n.line}" for n in oc.path if n.kind in ("branch", "handler", "return", "raise", "await")))
                else:
                    ctx.ok("R13.1", u, f"[{cell}] -> {res}: {MEANING[res]}")
                # R13.2
                method = "__anext__" if block == "none" else "aclose" if block == "GeneratorExit" else "athrow"
                wargs: Tuple = () if method != "athrow" else (exc("V", block),)
                ok = trace == ((method, wargs),)
                ctx.check(ok, "R13.2", u, f"generator interaction for block outcome {block}",
                          f"[{cell}] exactly one generator interaction: {method}" + ("(the very exception object)" if wargs else "()"),
                          witness=f"evaluated interactions: {trace}")
    ctx.tables["evaluated decision table"] = table
    r13_3(ctx)
    # like asynccontextmanager, the manager can decorate a function: every call then enters a manager of
    # its own (a fresh generator), so overlapping or repeated calls behave like separate `async with` blocks
    from . import c15
    from .common import Relabel
    ctx.rule("R13.4", "decorator use: every call gets a new manager built from the original (func, args, kwds), hence a fresh generator (R15.2, shared)")
    c15.r15_2(Relabel(ctx, "R13.4"))
    ctx.rule("R13.5", "decorator use: the call runs the function inside one context and returns its result from inside it - also "
                      "when the generator swallowed the function's exception (R15.1, shared)")
    c15.r15_1(Relabel(ctx, "R13.5"))
    ctx.floor("cells", 42)
    ctx.floor("enter_cells", 3)
    # informational: the always-true identity test (differs from the stdlib only in an infeasible cell)
    for n in ast.walk(u.node):
        if isinstance(n, ast.Compare) and norm(n) == "exc is not exc_tb":
            ctx.note("informational: `exc is not exc_tb` in the StopAsyncIteration handler is always true; the stdlib "
                     "tests `exc is not value`, which differs only in the infeasible cell where athrow re-raises the "
                     "very StopAsyncIteration passed in")


def _rtext(r: Tuple) -> str:
    return {"stop": "stops", "yield": "yields again", "none": "is closed (aclose returns None)",
            "same": "re-raises the very object passed in"}.get(r[0]) or \
        f"raises a new {r[1]}" + (" caused by the passed object" if r[2] == "V" else " caused by a StopAsyncIteration of its own" if r[2] else "")


def _decider(oc) -> str:
    for n in reversed(oc.path):
        if n.kind in ("return", "raise"):
            return " ".join(norm(n.ast).split("\n")[0].split())
    return "__aexit__"


def r13_3(ctx) -> None:
    u = ctx.inlined(ctx.unit("contextlib._AsyncGeneratorContextManager.__aenter__"))
    cfg = cfg_of(u)
    params = u.param_names()
    # (whatever the generator raises before its first yield reaches the caller as it is - a RuntimeError of its own included)
    spec = {("yield",): "RETURN_YIELDED", ("stop",): "RT", ("new", "OtherExc", None): "PROP", ("new", "RuntimeError", None): "PROP"}
    for reaction, want in spec.items():
        ctx.count("enter_cells")
        env: Dict[str, Any] = {name: ("cls", name) for name in HIER}
        env["@trace"] = ()
        env[params[0]] = "SELF"
        ops = _CmOps(reaction, None)
        gen_excs: List[Tuple] = []
        orig = ops.raises

        def raises(node, e, orig=orig):
            s = orig(node, e)
            if s is not None:
                gen_excs.append(s)
            return s

        ops.raises = raises  # type: ignore[method-assign]
        for oc in Machine(cfg, ops).run(env):
            if oc.terminal.kind == "raise_exit":
                e = oc.env.get("@exc")
                got = "PROP" if e in gen_excs else ("RT" if isinstance(e, tuple) and e[2] == "RuntimeError" else "RAISE?")
            else:
                got = "RETURN_YIELDED" if oc.env.get("@return") == "YIELDED" else "RETURN_OTHER"
            ctx.check(got == want, "R13.3", u, _decider(oc),
                      f"[enter: generator {_rtext(reaction)}] -> {want}", witness=f"evaluated {got}")
            ctx.check(oc.env["@trace"] == (("__anext__", ()),), "R13.3", u, "generator interaction on enter",
                      "exactly one __anext__() on enter", witness=str(oc.env["@trace"]))


# --------------------------------------------------------------------------- thorough: oracle cross-validation
def run_thorough(ctx) -> None:
    """Derive the table from the interpreter's own contextlib and compare (guards the
    frozen specification, not the repository)."""
    ctx.rule("R13.T", "specification table agrees with contextlib._AsyncGeneratorContextManager.__aexit__ (non-GeneratorExit cells)")
    path = _py_contextlib.__file__
    with open(path) as fh:
        tree = ast.parse(fh.read())
    fn = None
    for node in ast.walk(tree):
        if isinstance(node, ast.ClassDef) and node.name == "_AsyncGeneratorContextManager":
            for sub in node.body:
                if isinstance(sub, ast.AsyncFunctionDef) and sub.name == "__aexit__":
                    fn = sub
    if fn is None:
        raise AnalysisError("stdlib contextlib._AsyncGeneratorContextManager.__aexit__ not found")

    class _M:
        name = "contextlib(stdlib)"
        short = "stdlib.contextlib"
        relpath = path
        units: Dict[str, Any] = {}

    unit = Unit(_M(), "_AsyncGeneratorContextManager.__aexit__", fn, "coroutine")  # type: ignore[arg-type]
    cfg = CFG(unit)
    params = [a.arg for a in fn.args.args]
    for block in BLOCKS:
        if block == "GeneratorExit":
            continue
        for reaction, want in SPEC[block].items():
            results = evaluate_exit(cfg, params, block, reaction)
            got = sorted({r for r, _t, _o in results})
            ctx.count("oracle_cells")
            ok = got == [want]
            if not ok:
                raise AnalysisError(f"specification table disagrees with the stdlib sibling in cell block={block} "
                                    f"generator={_rtext(reaction)}: table {want}, stdlib evaluates to {got}")
            ctx.ok("R13.T", "stdlib contextlib", f"[block={block} generator={_rtext(reaction)}] stdlib -> {want}")
