"""
Single-source iterator tools as tables (shared by C01 / C05).

Each tool below is a generator whose control flow depends on nothing but small integers, on
"the source is exhausted or not" and on the truth value a user's predicate returns.  It is
evaluated abstractly — never run — by the finite-domain machine over a small concrete model
(rules/lockstep.py: iterator objects with symbolic items, lists as objects) and its observable
trace

    items yielded (the very symbols pulled) / items taken from the source /
    calls of the user's callable with their arguments / how the generator ends

is compared, cell by cell, with the trace of the *standard-library* tool of the same name applied
to the same symbolic data.  The stdlib function is really executed by the checker (it is the
oracle; the repository's code is not); documented deviations are listed in DEVIATIONS.

A cell whose evaluation forks on a condition the model cannot interpret is "not evaluable" and
is never reported as a violation; a floor on the number of decided cells guards against a table
that silently decides nothing.
"""
from __future__ import annotations

import ast
import os
import itertools as _it
from typing import Any, Callable, Dict, List, Optional, Tuple

from asl.absint import UNKNOWN, Machine
from asl.cfg import cfg_of
from asl.loader import AnalysisError, norm
from asl.loader import own_nodes as own_nodes_
from .common import make_resolver
from .lockstep import StepOps

EXC_NAMES = {"ValueError", "TypeError", "RuntimeError", "StopAsyncIteration", "StopIteration", "KeyError",
             "IndexError", "AttributeError", "LookupError", "Exception", "BaseException"}


class _Undecided(Exception):
    pass


class _W:
    """an entry of a model list while Python's own heapq / sort works on it: ``<`` is the model's"""
    __slots__ = ("ops", "v")

    def __init__(self, ops, v):
        self.ops, self.v = ops, v

    def __lt__(self, other):
        return self.ops.lt(self.v, other.v)


class ToolOps(StepOps):
    """StepOps + user callables ("FN", name) whose results come from the cell's model."""

    def __init__(self, ctx, unit, lengths, items: Optional[Dict[int, List[Any]]] = None,
                 fns: Optional[Dict[str, Callable[[Tuple[Any, ...]], Any]]] = None, truths=None, ranks=None):
        super().__init__(ctx, unit, lengths)
        self.items = items or {}
        self.fns = fns or {}
        self.truths: Dict[Any, bool] = truths or {}
        self.ranks: Dict[Any, int] = ranks or {}
        self.seq_items: Dict[int, List[Any]] = {}
        self._cmp_env: Optional[Dict[str, Any]] = None
        self.undecided = False  # a primitive of the model gave up (unknown ordering, unknown container): the cell is not decided
        self._wrappers: Dict[str, Any] = {}
        self.lambdas: Dict[int, ast.Lambda] = {}
        #: fault cells: ("poll", k, j) - the j-th request to source k (requests that find it exhausted included) fails;
        #: ("call", name, j) - the j-th call of the user's callable fails
        self.fault_at: Optional[Tuple[str, Any, int]] = None

    def _use(self, env, kind: str, key) -> bool:
        """count one use of a source or user callable; True: this is the use that fails"""
        uses = dict(env.get("@uses", {}))
        n = uses.get((kind, key), 0) + 1
        uses[(kind, key)] = n
        env["@uses"] = uses
        return self.fault_at == (kind, key, n)

    def raises(self, node, env):
        if node.kind == "call" and isinstance(node.ast, ast.Call) and isinstance(node.ast.func, (ast.Name, ast.Attribute)) \
                and not node.ast.keywords:
            fv = self.ev.eval(node.ast.func, env)  # (a name, or a field the callable is kept in)
            if isinstance(fv, tuple) and fv[:1] == ("FN",) and fv[1] in self.fns:
                # a user callable is used here (counted once, at the call)
                if self._use(env, "call", fv[1]):
                    args = self._call_args(node.ast, env)
                    self._trace(env, "call", fv[1], tuple(args) if args is not None else UNKNOWN)
                    self._trace(env, "failed")
                    return ("exc", "Boom")
                return None
        return super().raises(node, env)

    def _call_args(self, call, env):
        args: List[Any] = []
        for a in call.args:
            if isinstance(a, ast.Starred):
                v = self.ev.eval(a.value, env)
                el = self._elements(v, env)
                if el is None:
                    el = list(v) if isinstance(v, tuple) else None
                if el is None:
                    return None
                args.extend(el)
            else:
                args.append(self.ev.eval(a, env))
        return args

    def _pull(self, it, env):
        if it[0] == "IT" and self._use(env, "poll", it[1]):
            self._trace(env, "failed")
            return ("@raise", "Boom")
        if it[0] == "SEQIT":
            pos = dict(env.get("@seqpos", {}))
            i = pos.get(it[1], 0)
            if i >= len(self.seq_items[it[1]]):
                return ("@raise", "StopAsyncIteration")
            pos[it[1]] = i + 1
            env["@seqpos"] = pos
            return self.seq_items[it[1]][i]
        v = super()._pull(it, env)
        if isinstance(v, tuple) and v[:1] == ("item",) and v[1] in self.items:
            return self.items[v[1]][v[2]]
        return v

    def name(self, ident, env):
        return ("GLOBAL", ident)

    @staticmethod
    def _is_iter(v) -> bool:
        return isinstance(v, tuple) and v[:1] in (("IT",), ("REPEAT",), ("ZIP",), ("SEQIT",))

    def entered(self, item, env, ev):
        return ev.eval(item.context_expr, env)

    def call(self, func, args, kwargs, node, env):
        last = self._resolved(node.func)
        if last == "awaitify" and len(args) == 1:
            return args[0]
        if last == "range" and args and all(isinstance(a, int) and not isinstance(a, bool) for a in args) and len(args) <= 3:
            return ("SEQ", tuple(range(*args)))
        if last in EXC_NAMES:
            return ("exc", last)
        if last == "object" and not node.args and not node.keywords:
            n_obj = env.get("@objects", 0)
            env["@objects"] = n_obj + 1
            return ("OBJ", n_obj)  # a fresh private marker
        if last in ("ScopedIter", "aiter", "iter") and len(args) == 1 and not self._is_iter(args[0]) \
                and self._elements(args[0], env) is not None and not self._is_list(args[0]):
            # a (synchronous) sequence of the model, e.g. the tuple of ``*iterables``: iterating it hands out its elements
            n_seq = env.get("@seqs", 0)
            env["@seqs"] = n_seq + 1
            self.seq_items[n_seq] = list(self._elements(args[0], env))
            return ("SEQIT", n_seq)
        if last == "ScopedIter" and len(args) == 1 and self._is_iter(args[0]):
            return args[0]
        if last == "zip" and not node.keywords:
            t = self._lib_unit(node.func)
            if t is not None and self.ctx.pkg.canonical(t) == "builtins.zip":
                its: List[Any] = []
                for a in node.args:
                    v = self.ev.eval(a.value if isinstance(a, ast.Starred) else a, env)
                    el = self._elements(v, env) if isinstance(a, ast.Starred) else [v]
                    if el is None:
                        return UNKNOWN
                    for x in el:
                        if not self._is_iter(x):
                            inner = self._elements(x, env)  # a finite sequence of the model (``range(n)``)
                            if inner is None or self._is_list(x):
                                return UNKNOWN
                            n_seq = env.get("@seqs", 0)
                            env["@seqs"] = n_seq + 1
                            self.seq_items[n_seq] = list(inner)
                            x = ("SEQIT", n_seq)
                        its.append(x)
                return ("ZIP", tuple(its)) if its else UNKNOWN
        return super().call(func, args, kwargs, node, env)

    def binop(self, op, left, right, env):
        if op == "BitXor" and isinstance(left, bool) and isinstance(right, bool):
            return left ^ right
        r = super().binop(op, left, right, env)
        if r is UNKNOWN and op == "Add" and left is not UNKNOWN and right is not UNKNOWN:
            return ("+", left, right)  # user-defined addition, kept symbolic (operand order matters)
        return r

    def compare(self, op, left, right, env):
        if isinstance(left, tuple) and isinstance(right, tuple) and left in self.ranks and right in self.ranks:
            a, b = self.ranks[left], self.ranks[right]
            if op in ("Lt", "LtE", "Gt", "GtE", "Eq", "NotEq"):
                return {"Lt": a < b, "LtE": a <= b, "Gt": a > b, "GtE": a >= b, "Eq": a == b, "NotEq": a != b}[op]
        if op in ("Lt", "Gt") and isinstance(left, tuple) and isinstance(right, tuple) \
                and (left[:1] == ("REV",) or self._plain_tuple(left)):
            try:
                return self.lt(left, right) if op == "Lt" else self.lt(right, left)
            except _Undecided:
                return UNKNOWN
        r = super().compare(op, left, right, env)
        if r is UNKNOWN and op in ("Eq", "NotEq"):
            # values returned by the cell's callable model are distinct constants ("v", i) / a marker string
            def const(v):
                return isinstance(v, str) or (isinstance(v, tuple) and v[:1] == ("v",))
            if const(left) and const(right):
                # ("v", name, copy): equal values may be distinct objects — == looks at the name only
                a_ = left[:2] if isinstance(left, tuple) else left
                b_ = right[:2] if isinstance(right, tuple) else right
                return (a_ == b_) if op == "Eq" else (a_ != b_)
        if r is UNKNOWN and op in ("Is", "IsNot"):
            def ident(v):
                return isinstance(v, tuple) and v[:1] in (("GLOBAL",), ("item",), ("FN",), ("OBJ",), ("v",)) or isinstance(v, str)
            if ident(left) and ident(right):
                return (left == right) if op == "Is" else (left != right)
            if (left is None) != (right is None):
                return op == "IsNot"
        return r

    # ---- the model's ordering: ranked symbols, ints, reversed wrappers, tuples (lexicographic, == first)
    def eq(self, a, b) -> bool:
        if isinstance(a, tuple) and isinstance(b, tuple) and a[:1] == ("REV",) and b[:1] == ("REV",):
            if a[3] == "rank":
                return not (self.lt(a[1], b[1]) or self.lt(b[1], a[1]))
            return a[2] == b[2]  # no __eq__ of its own: identity
        if isinstance(a, tuple) and isinstance(b, tuple) and a in self.ranks and b in self.ranks:
            return self.ranks[a] == self.ranks[b]
        if isinstance(a, int) and isinstance(b, int):
            return a == b
        if self._plain_tuple(a) and self._plain_tuple(b):
            return len(a) == len(b) and all(self.eq(x, y) for x, y in zip(a, b))
        if isinstance(a, tuple) and isinstance(b, tuple) and a[:1] == ("item",) and b[:1] == ("item",):
            return a == b
        raise _Undecided()

    def lt(self, a, b) -> bool:
        if isinstance(a, tuple) and isinstance(b, tuple) and a[:1] == ("REV",) and b[:1] == ("REV",):
            return self.lt(b[1], a[1])
        if isinstance(a, tuple) and isinstance(b, tuple) and a in self.ranks and b in self.ranks:
            return self.ranks[a] < self.ranks[b]
        if isinstance(a, int) and isinstance(b, int) and not isinstance(a, bool) and not isinstance(b, bool):
            return a < b
        if self._plain_tuple(a) and self._plain_tuple(b):
            for x, y in zip(a, b):
                if not self.eq(x, y):
                    return self.lt(x, y)
            return len(a) < len(b)
        raise _Undecided()

    @staticmethod
    def _plain_tuple(v) -> bool:
        return isinstance(v, tuple) and (not v or not isinstance(v[0], str))

    def _wrapper_class(self, name: str):
        """a library class wrapping one value to reverse its ordering: ('REV', eq semantics) / ('ID',) / None"""
        if name in self._wrappers:
            return self._wrappers[name]
        out = None
        r = self.ctx.pkg.resolve_global(self.module, name)
        info = self.ctx.pkg.lib_class(r.qual) if r.kind == "lib" else None
        if info is not None and "__lt__" in info.methods and "__init__" in info.methods:
            init, lt = info.methods["__init__"], info.methods["__lt__"]
            stores = [s_ for s_ in own_nodes_(init.node) if isinstance(s_, ast.Assign) and isinstance(s_.targets[0], ast.Attribute)
                      and isinstance(s_.value, ast.Name)]
            rets = [s_ for s_ in own_nodes_(lt.node) if isinstance(s_, ast.Return)]
            if len(init.param_names()) == 2 and len(stores) == 1 and len(rets) == 1 and isinstance(rets[0].value, ast.Compare) \
                    and len(rets[0].value.ops) == 1 and isinstance(rets[0].value.ops[0], ast.Lt):
                f = stores[0].targets[0].attr
                me, other = lt.param_names()[0], lt.param_names()[1]
                left, right = norm(rets[0].value.left), norm(rets[0].value.comparators[0])
                eq = info.methods.get("__eq__")
                if eq is None:
                    eqsem = "identity"
                else:
                    er = [s_ for s_ in own_nodes_(eq.node) if isinstance(s_, ast.Return)]
                    text = norm(er[0].value) if len(er) == 1 else ""
                    a_, b_ = f"{eq.param_names()[0]}.{f}", f"{eq.param_names()[1]}.{f}"
                    eqsem = "rank" if text in (f"not ({a_} < {b_} or {b_} < {a_})", f"not ({b_} < {a_} or {a_} < {b_})",
                                               f"{a_} == {b_}", f"{b_} == {a_}") else None
                if (left, right) == (f"{other}.{f}", f"{me}.{f}") and eqsem:
                    out = ("REV", eqsem)
                elif (left, right) == (f"{me}.{f}", f"{other}.{f}") and eqsem == "rank":
                    out = ("ID",)
        self._wrappers[name] = out
        return out

    def _sort(self, base, call, env, ev) -> bool:
        """``L.sort(key=..., reverse=...)`` on a list object of the model: Python's own (stable) sort is
        run on the ranks of the sort keys; a key that is not ranked leaves the list unknown."""
        items = list(self._get(env, base))
        key_node = next((k.value for k in call.keywords if k.arg == "key"), None)
        rev_node = next((k.value for k in call.keywords if k.arg == "reverse"), None)
        if any(k.arg not in ("key", "reverse") for k in call.keywords):
            self._set(env, base, [UNKNOWN for _ in items])
            return False
        reverse = ev.eval(rev_node, env) if rev_node is not None else False

        def key_of(x):
            if key_node is None:
                return x
            if isinstance(key_node, ast.Lambda) and len(key_node.args.args) == 1:
                env2 = dict(env)
                env2[key_node.args.args[0].arg] = x
                return ev.eval(key_node.body, env2)
            if isinstance(key_node, ast.Call) and self._resolved(key_node.func) == "itemgetter" and len(key_node.args) == 1 \
                    and isinstance(key_node.args[0], ast.Constant) and isinstance(x, tuple):
                return x[key_node.args[0].value]
            return UNKNOWN

        keys = [key_of(x) for x in items]
        self._cmp_env = env
        try:
            if not isinstance(reverse, bool) or any(k is UNKNOWN for k in keys):
                raise _Undecided()
            order = sorted(range(len(items)), key=lambda i: _W(self, keys[i]), reverse=reverse)
        except _Undecided:
            self.undecided = True
            self._set(env, base, [UNKNOWN for _ in items])
            return False
        self._set(env, base, [items[i] for i in order])
        return True

    def resolves(self, call, env) -> bool:
        if isinstance(call.func, ast.Name) and call.func.id in env:
            v = env[call.func.id]
            return not (isinstance(v, tuple) and v[:1] in (("FN",), ("LAMBDA",)))
        return True

    def callee_unit(self, call, env):
        """the library function a local name is bound to in *this* execution (``ordered = A if flag else b``)"""
        if isinstance(call.func, ast.Name):
            v = env.get(call.func.id)
            if isinstance(v, tuple) and v[:1] == ("GLOBAL",):
                r = self.ctx.pkg.resolve_global(self.module, v[1])
                return self.ctx.pkg.lib_unit(r.qual) if r.kind == "lib" else None
            if v is None or v is UNKNOWN:
                # a function defined inside the function being evaluated (a closure over its locals)
                here = env.get("@unit") or self.unit
                outer = {id(here.node), id(getattr(here, "inlined_from", here).node)}
                for x in self.module.units.values():
                    if x.parent is not None and id(x.parent.node) in outer and getattr(x.node, "name", None) == call.func.id \
                            and x.kind in ("sync", "coroutine"):
                        return x
        return None

    def other(self, e, env, ev):
        if isinstance(e, ast.Lambda):
            self.lambdas[id(e)] = e
            return ("LAMBDA", id(e))
        return super().other(e, env, ev)

    def truth(self, v, env):
        if isinstance(v, tuple) and v[:1] in (("LAMBDA",), ("REV",)):
            return True
        if isinstance(v, tuple) and v[:1] == ("FN",):
            return True
        if isinstance(v, tuple) and v in self.truths:
            return self.truths[v]
        return super().truth(v, env)

    def visit(self, node, env, ev):
        if node.kind == "call":
            call = node.ast
            f = call.func
            fv = ev.eval(f, env) if isinstance(f, ast.Name) else None
            if isinstance(fv, tuple) and fv[:1] == ("FN",) and fv[1] in self.fns and not call.keywords:
                args = self._call_args(call, env)
                if args is None:
                    return
                self._trace(env, "call", fv[1], tuple(args))
                vals = dict(env.get("@callvals", {}))
                try:
                    vals[id(call)] = self.fns[fv[1]](tuple(args))
                except (KeyError, IndexError, TypeError):
                    vals[id(call)] = UNKNOWN  # called with something the cell's model does not know: undecided
                env["@callvals"] = vals
                return
            if isinstance(fv, tuple) and fv[:1] == ("LAMBDA",) and not call.keywords:
                lam = self.lambdas[fv[1]]
                if len(lam.args.args) == len(call.args) and not any(isinstance(a, ast.Starred) for a in call.args):
                    env2 = dict(env)
                    for p_, a in zip(lam.args.args, call.args):
                        env2[p_.arg] = ev.eval(a, env)
                    vals = dict(env.get("@callvals", {}))
                    vals[id(call)] = ev.eval(lam.body, env2)
                    env["@callvals"] = vals
                    return
            if isinstance(fv, tuple) and fv[:1] == ("GLOBAL",) and len(call.args) == 1 and not call.keywords:
                w = self._wrapper_class(fv[1])
                if w is not None:
                    arg = ev.eval(call.args[0], env)
                    n_obj = env.get("@objects", 0)
                    env["@objects"] = n_obj + 1
                    vals = dict(env.get("@callvals", {}))
                    vals[id(call)] = ("REV", arg, n_obj, w[1]) if w[0] == "REV" else arg
                    env["@callvals"] = vals
                    return
            hq = self._resolved(f) if self._resolved_kind(f) == "stdlib" else ""
            if hq in ("heapify", "heapreplace", "heappush", "heappop", "heappushpop") and call.args and not call.keywords \
                    and self.ctx.pkg.resolve_expr_global(self.module, f).qual.startswith("heapq."):
                import heapq as _hq
                base = ev.eval(call.args[0], env)
                if self._is_list(base):
                    self._cmp_env = env
                    heap = [_W(self, x) for x in self._get(env, base)]
                    extra = [_W(self, ev.eval(a, env)) for a in call.args[1:]]
                    try:
                        result = getattr(_hq, hq)(heap, *extra)
                        result = result.v if isinstance(result, _W) else result
                        self._set(env, base, [w_.v for w_ in heap])
                    except (_Undecided, IndexError):
                        result = UNKNOWN
                        self.undecided = True
                        self._set(env, base, [UNKNOWN for _ in heap])
                    vals = dict(env.get("@callvals", {}))
                    vals[id(call)] = result
                    env["@callvals"] = vals
                    return
            if self._resolved(f) == "sorted" and self._resolved_kind(f) in ("builtin", "stdlib") and len(call.args) == 1:
                # the builtin ``sorted(L, key=.., reverse=..)`` on a finite sequence of the model: a sorted copy
                el = self._elements(ev.eval(call.args[0], env), env)
                if el is not None:
                    copy_ = self._new(env, el)
                    done = self._sort(copy_, call, env, ev)
                    vals = dict(env.get("@callvals", {}))
                    vals[id(call)] = copy_ if done else UNKNOWN
                    env["@callvals"] = vals
                    return
            if isinstance(f, ast.Attribute) and f.attr == "sort" and not call.args:
                base = ev.eval(f.value, env)
                if self._is_list(base):
                    done = self._sort(base, call, env, ev)
                    vals = dict(env.get("@callvals", {}))
                    vals[id(call)] = None if done else UNKNOWN
                    env["@callvals"] = vals
                    return
            if isinstance(f, ast.Attribute) and f.attr == "clear" and not call.args:
                base = ev.eval(f.value, env)
                if self._is_list(base):
                    self._set(env, base, [])
                    vals = dict(env.get("@callvals", {}))
                    vals[id(call)] = None
                    env["@callvals"] = vals
                    return
        super().visit(node, env, ev)


# ---------------------------------------------------------------------------------- oracle side
class _Boom(Exception):
    """the failure of a source / user callable in a fault cell"""


_Boom.__name__ = "Boom"
_FAULT: Dict[str, Any] = {"at": None, "uses": {}, "srcs": 0, "events": []}


def _tick(kind: str, key) -> None:
    """one use of a source or user callable in the oracle run; the chosen use fails"""
    n = _FAULT["uses"].get((kind, key), 0) + 1
    _FAULT["uses"][(kind, key)] = n
    _FAULT["events"].append(("asks", key) if kind == "poll" else ("calls", key))
    if _FAULT["at"] == (kind, key, n):
        raise _Boom()


class _Calls(list):
    """the log of calls of the user's callable in an oracle run (a logged call is a use)"""
    def append(self, entry) -> None:
        super().append(entry)
        _tick("call", entry[0])


class _Src:
    def __init__(self, values: List[Any]):
        self.values, self.taken, self.ends = list(values), 0, 0
        self.k = _FAULT["srcs"]  # (sources are created in argument order)
        _FAULT["srcs"] += 1

    def __iter__(self):
        return self

    def __next__(self):
        _tick("poll", self.k)
        if self.taken >= len(self.values):
            self.ends += 1
            raise StopIteration
        self.taken += 1
        return self.values[self.taken - 1]


def _observe(make, srcs: List[_Src], calls: List[Any]):
    """run a stdlib tool to its end: (yields, taken per source, calls, end)"""
    ys: List[Any] = []
    end: Any = "return"
    try:
        for v in make():
            _FAULT["events"].append(("yields",))
            ys.append(v)
            if len(ys) > 50:
                end = "endless"
                break
    except Exception as exc:  # noqa: BLE001  (the oracle's own outcome)
        end = ("raise", type(exc).__name__)
    return _Obs((ys, [s.taken for s in srcs], list(calls), end), [s.ends for s in srcs])


class _Obs(tuple):
    """an oracle observation that also knows how often each source was asked once it had nothing left"""
    def __new__(cls, fields, ends):
        self = super().__new__(cls, fields)
        self.ends = list(ends)
        return self


def _observe_call(make, srcs: List[_Src], calls: List[Any]):
    """run a stdlib aggregation: (no yields, taken, calls, end, result)"""
    try:
        result = make()
        end: Any = "return"
    except Exception as exc:  # noqa: BLE001
        result, end = None, ("raise", type(exc).__name__)
    return _Obs(([], [s.taken for s in srcs], list(calls), end, result), [s.ends for s in srcs])


class _Sym:
    """an item of the oracle run: truth value, rank (ordering) and symbolic addition as chosen by the cell"""
    def __init__(self, sym, truth=True, rank=0, eq_by_rank=False):
        self.sym, self.truth, self.rank, self.eq_by_rank = sym, truth, rank, eq_by_rank

    def __bool__(self):
        return self.truth

    def __lt__(self, other):
        return self.rank < other.rank

    def __gt__(self, other):
        return self.rank > other.rank

    def __add__(self, other):
        return _Sym(("+", self.sym, _unsym(other)))

    def __radd__(self, other):
        return _Sym(("+", _unsym(other), self.sym))

    def __hash__(self):
        return hash(self.sym)

    def __eq__(self, other):
        if self.eq_by_rank and isinstance(other, _Sym):
            return self.rank == other.rank  # "equal elements": == agrees with the ordering
        return isinstance(other, _Sym) and other.sym == self.sym


def _unsym(v):
    if isinstance(v, _Sym):
        return v.sym
    if isinstance(v, (list, tuple)):
        return tuple(_unsym(x) for x in v)
    if isinstance(v, (set, frozenset)):
        return ("SET", frozenset(_unsym(x) for x in v))
    return v


def _items(k: int, n: int) -> List[Any]:
    return [("item", k, i) for i in range(n)]


class Cell:
    def __init__(self, label: str, pos: List[Any], kw: Dict[str, Any], lengths: Dict[int, int],
                 oracle: Callable[[], Any], items=None, fns=None, truths=None, ranks=None, limit=None, make_fns=None):
        self.label, self.pos, self.kw, self.lengths, self.oracle = label, pos, kw, lengths, oracle
        self.items, self._fns, self.truths, self.ranks, self.limit = items, fns, truths, ranks, limit
        self.make_fns = make_fns  # (a callable model with a state of its own is made anew for every evaluation)

    @property
    def fns(self):
        return self.make_fns() if self.make_fns is not None else self._fns


def _pred_cells(stdlib_fn, pred_first: bool = True):
    for n in range(0, 4):
        for pattern in _it.product((True, False), repeat=n):
            truth = {("item", 0, i): pattern[i] for i in range(n)}

            def oracle(n=n, truth=truth):
                calls: List[Any] = _Calls()
                src = _Src(_items(0, n))

                def pred(x):
                    calls.append(("P", (x,)))
                    return truth[x]
                return _observe(lambda: stdlib_fn(pred, src), [src], calls)

            yield Cell(f"{n} items, predicate says {''.join('T' if p else 'F' for p in pattern) or '-'}",
                       [("FN", "P"), ("IT", 0)], {}, {0: n}, oracle, fns={"P": lambda a, truth=truth: truth[a[0]]})


def _pairwise_cells():
    for n in range(0, 5):
        def oracle(n=n):
            src = _Src(_items(0, n))
            return _observe(lambda: _it.pairwise(src), [src], [])
        yield Cell(f"{n} items", [("IT", 0)], {}, {0: n}, oracle)


def _batched_spec(values: List[Any], n: int, strict: bool):
    """itertools.batched (strict as of Python 3.13): (yields, taken, end)"""
    if n < 1:
        return [], 0, ("raise", "ValueError")
    ys = []
    for i in range(0, len(values), n):
        chunk = tuple(values[i:i + n])
        if strict and len(chunk) < n:
            return ys, len(values), ("raise", "ValueError")
        ys.append(chunk)
    return ys, len(values), "return"


def _batched_like_313(src, n: int, strict: bool):
    """itertools.batched as of Python 3.13 (``strict``), written over the instrumented source"""
    if n < 1:
        raise ValueError("n must be at least one")
    it = iter(src)
    while True:
        batch = tuple(_it.islice(it, n))
        if not batch:
            return
        if strict and len(batch) != n:
            raise ValueError("batched(): incomplete batch")
        yield batch


def _batched_cells():
    for n in (0, 1, 2, 3):
        for length in range(0, 6):
            for strict in (False, True):
                def oracle(n=n, length=length, strict=strict):
                    src = _Src(_items(0, length))
                    if not strict and hasattr(_it, "batched"):
                        return _observe(lambda: _it.batched(src, n), [src], [])
                    return _observe(lambda: _batched_like_313(src, n, strict), [src], [])
                yield Cell(f"{length} items, n={n}, strict={strict}", [("IT", 0), n], {"strict": strict}, {0: length}, oracle)


def _accumulate_cells():
    def f(a):
        return ("f",) + tuple(a)
    for n in range(0, 4):
        for with_initial in (False, True):
            def oracle(n=n, with_initial=with_initial):
                calls: List[Any] = _Calls()
                src = _Src(_items(0, n))

                def fn(x, y):
                    calls.append(("F", (x, y)))
                    return ("f", x, y)
                if with_initial:
                    return _observe(lambda: _it.accumulate(src, fn, initial="INIT"), [src], calls)
                return _observe(lambda: _it.accumulate(src, fn), [src], calls)
            kw = {"initial": "INIT"} if with_initial else {}
            yield Cell(f"{n} items, {'with' if with_initial else 'no'} initial", [("IT", 0), ("FN", "F")], kw, {0: n}, oracle,
                       fns={"F": f})


def _starmap_cells():
    for n in range(0, 4):
        items = [(("a", i), ("b", i)) for i in range(n)]

        def oracle(n=n, items=items):
            calls: List[Any] = _Calls()
            src = _Src(items)

            def fn(*a):
                calls.append(("F", tuple(a)))
                return ("f",) + tuple(a)
            return _observe(lambda: _it.starmap(fn, src), [src], calls)
        yield Cell(f"{n} argument tuples", [("FN", "F"), ("IT", 0)], {}, {0: n}, oracle, items={0: items},
                   fns={"F": lambda a: ("f",) + tuple(a)})


def _enumerate_cells():
    for n in range(0, 4):
        for start in (0, 5):
            def oracle(n=n, start=start):
                src = _Src(_items(0, n))
                return _observe(lambda: enumerate(src, start), [src], [])
            yield Cell(f"{n} items, start={start}", [("IT", 0), start], {}, {0: n}, oracle)


def _map_cells():
    for lens in [(n,) for n in range(0, 4)] + [(a, b) for a in range(0, 3) for b in range(0, 3)]:
        def oracle(lens=lens):
            calls: List[Any] = _Calls()
            srcs = [_Src(_items(k, n)) for k, n in enumerate(lens)]

            def fn(*a):
                calls.append(("F", tuple(a)))
                return ("f",) + tuple(a)
            return _observe(lambda: map(fn, *srcs), srcs, calls)
        yield Cell(f"iterables of {', '.join(map(str, lens))} items", [("FN", "F")] + [("IT", k) for k in range(len(lens))], {},
                   dict(enumerate(lens)), oracle, fns={"F": lambda a: ("f",) + tuple(a)})


class _Truthy:
    """a selector object of the oracle run with a chosen truth value"""
    def __init__(self, sym, value):
        self.sym, self.value = sym, value

    def __bool__(self):
        return self.value


def _compress_cells():
    for nd in range(0, 4):
        for ns in range(0, 4):
            for pattern in _it.product((True, False), repeat=ns):
                if ns > 2 and pattern.count(True) not in (0, 1, ns):
                    continue
                truths = {("item", 1, i): pattern[i] for i in range(ns)}

                def oracle(nd=nd, ns=ns, pattern=pattern):
                    data = _Src(_items(0, nd))
                    sel = _Src([_Truthy(("item", 1, i), pattern[i]) for i in range(ns)])
                    return _observe(lambda: _it.compress(data, sel), [data, sel], [])
                yield Cell(f"{nd} data items, selectors {''.join('T' if p else 'F' for p in pattern) or '-'}",
                           [("IT", 0), ("IT", 1)], {}, {0: nd, 1: ns}, oracle, truths=truths)
    # one iterator object as data *and* selectors: items and selectors alternate in the one stream
    for n in range(0, 6):
        for pattern in _it.product((True, False), repeat=n):
            if n > 3 and pattern.count(True) not in (0, 1, n - 1, n):
                continue
            truths = {("item", 0, i): pattern[i] for i in range(n)}

            def oracle(n=n, pattern=pattern):
                src = _Src([_Truthy(("item", 0, i), pattern[i]) for i in range(n)])
                ys, taken, calls, end = _observe(lambda: _it.compress(src, src), [src], [])
                return [y.sym for y in ys], taken, calls, end
            yield Cell(f"compress(it, it): {n} items with truth values {''.join('T' if p else 'F' for p in pattern) or '-'}",
                       [("IT", 0), ("IT", 0)], {}, {0: n}, oracle, truths=truths)


def _reduce_cells():
    import functools as _ft
    for n in range(0, 4):
        # (an initial value of None is an initial value like any other: the stdlib folds it in)
        for with_initial in (False, True, None):
            def oracle(n=n, with_initial=with_initial):
                calls: List[Any] = _Calls()
                src = _Src(_items(0, n))

                def fn(x, y):
                    calls.append(("F", (x, y)))
                    return ("f", x, y)
                if with_initial is None:
                    return _observe_call(lambda: _ft.reduce(fn, src, None), [src], calls)
                if with_initial:
                    return _observe_call(lambda: _ft.reduce(fn, src, "INIT"), [src], calls)
                return _observe_call(lambda: _ft.reduce(fn, src), [src], calls)
            pos = [("FN", "F"), ("IT", 0)] + ([None] if with_initial is None else ["INIT"] if with_initial else [])
            yield Cell(f"{n} items, {'initial None' if with_initial is None else 'with initial' if with_initial else 'no initial'}",
                       pos, {}, {0: n}, oracle, fns={"F": lambda a: ("f",) + tuple(a)})


def _sum_cells():
    for n in range(0, 4):
        for start in (None, "S"):
            def oracle(n=n, start=start):
                src = _Src([_Sym(x) for x in _items(0, n)])
                if start is None:
                    obs = _observe_call(lambda: sum(src), [src], [])
                else:
                    obs = _observe_call(lambda: sum(src, _Sym("S")), [src], [])
                return obs[:4] + (_unsym(obs[4]),)
            yield Cell(f"{n} items, {'default start' if start is None else 'start given'}", [("IT", 0)] + ([] if start is None else ["S"]),
                       {}, {0: n}, oracle)


def _truth_cells(stdlib_fn):
    for n in range(0, 4):
        for pattern in _it.product((True, False), repeat=n):
            truths = {("item", 0, i): pattern[i] for i in range(n)}

            def oracle(n=n, pattern=pattern):
                src = _Src([_Sym(("item", 0, i), truth=pattern[i]) for i in range(n)])
                return _observe_call(lambda: stdlib_fn(src), [src], [])
            yield Cell(f"{n} items, truth values {''.join('T' if p else 'F' for p in pattern) or '-'}", [("IT", 0)], {}, {0: n},
                       oracle, truths=truths)


def _minmax_cells(stdlib_fn):
    for n in range(0, 4):
        for ranks in _it.product((0, 1, 2), repeat=n):
            for with_key in (False, True):
                # (a default of None is a default like any other: returned for empty input)
                for with_default in ((False, True, None) if n < 2 else (False, True)):
                    rk = {("item", 0, i): ranks[i] for i in range(n)}
                    rk.update({("key", ("item", 0, i)): ranks[i] for i in range(n)})

                    def oracle(n=n, ranks=ranks, with_key=with_key, with_default=with_default):
                        calls: List[Any] = _Calls()
                        src = _Src([_Sym(("item", 0, i), rank=ranks[i]) for i in range(n)])

                        def key(x):
                            calls.append(("K", (x.sym,)))
                            return _Sym(("key", x.sym), rank=x.rank)
                        kw: Dict[str, Any] = {}
                        if with_key:
                            kw["key"] = key
                        if with_default is None:
                            kw["default"] = None
                        elif with_default:
                            kw["default"] = "DEFAULT"
                        obs = _observe_call(lambda: stdlib_fn(src, **kw), [src], calls)
                        return obs[:4] + (_unsym(obs[4]),)
                    kw2: Dict[str, Any] = {}
                    if with_key:
                        kw2["key"] = ("FN", "K")
                    if with_default is None:
                        kw2["default"] = None
                    elif with_default:
                        kw2["default"] = "DEFAULT"
                    yield Cell(f"{n} items ranked {ranks or '-'}, {'key' if with_key else 'no key'}, "
                               f"{'default None' if with_default is None else 'default' if with_default else 'no default'}", [("IT", 0)], kw2, {0: n}, oracle,
                               fns={"K": lambda a: ("key", a[0])}, ranks=rk)


def _minmax_repeat_cells(stdlib_fn):
    """the same *object* more than once in the input (the current best shows up again): the key is called for every
    item pulled, also for one that is the best so far"""
    for shape in ((0, 1, 0), (1, 0, 1), (0, 0), (0, 1, 0, 1)):
        for ranks2 in _it.product((0, 1), repeat=2):
            objs = [("item", 0, 0), ("item", 0, 1)]
            items = [objs[k] for k in shape]
            rk = {objs[k]: ranks2[k] for k in (0, 1)}
            rk.update({("key", objs[k]): ranks2[k] for k in (0, 1)})

            def oracle(shape=shape, ranks2=ranks2, objs=objs):
                calls: List[Any] = _Calls()
                syms = [_Sym(objs[k], rank=ranks2[k]) for k in (0, 1)]
                src = _Src([syms[k] for k in shape])

                def key(x):
                    calls.append(("K", (x.sym,)))
                    return _Sym(("key", x.sym), rank=x.rank)
                obs = _observe_call(lambda: stdlib_fn(src, key=key), [src], calls)
                return obs[:4] + (_unsym(obs[4]),)
            yield Cell(f"objects {''.join('ab'[k] for k in shape)} (the same object more than once) ranked {ranks2}, key",
                       [("IT", 0)], {"key": ("FN", "K")}, {0: len(shape)}, oracle, items={0: items},
                       fns={"K": lambda a: ("key", a[0])}, ranks=rk)


def _collect_cells(stdlib_fn):
    for n in range(0, 4):
        def oracle(n=n):
            src = _Src([_Sym(x) for x in _items(0, n)])
            obs = _observe_call(lambda: stdlib_fn(src), [src], [])
            r = obs[4]
            r = ("LIST",) + _unsym(r) if isinstance(r, list) else _unsym(r)
            return obs[:4] + (r,)
        yield Cell(f"{n} items", [("IT", 0)], {}, {0: n}, oracle)


def _sorted_cells():
    for n in range(0, 4):
        for ranks in _it.product((0, 1, 2), repeat=n):
            for with_key in (False, True):
                for reverse in (False, True):
                    rk = {("item", 0, i): ranks[i] for i in range(n)}
                    rk.update({("key", ("item", 0, i)): ranks[i] for i in range(n)})

                    def oracle(n=n, ranks=ranks, with_key=with_key, reverse=reverse):
                        calls: List[Any] = _Calls()
                        src = _Src([_Sym(("item", 0, i), rank=ranks[i]) for i in range(n)])

                        def key(x):
                            calls.append(("K", (x.sym,)))
                            return _Sym(("key", x.sym), rank=x.rank)
                        kw: Dict[str, Any] = {"reverse": reverse}
                        if with_key:
                            kw["key"] = key
                        obs = _observe_call(lambda: sorted(src, **kw), [src], calls)
                        r = obs[4]
                        return obs[:4] + ((("LIST",) + _unsym(r)) if isinstance(r, list) else r,)
                    kw2: Dict[str, Any] = {"reverse": reverse}
                    if with_key:
                        kw2["key"] = ("FN", "K")
                    yield Cell(f"{n} items ranked {ranks or '-'}, {'key' if with_key else 'no key'}, reverse={reverse}",
                               [("IT", 0)], kw2, {0: n}, oracle, fns={"K": lambda a: ("key", a[0])}, ranks=rk)


def _nbest_cells(stdlib_fn):
    import heapq as _hq
    fn = getattr(_hq, stdlib_fn)
    for n_items in range(0, 5):
        for ranks in _it.product((0, 1), repeat=n_items):
            for n in (0, 1, 2, 3):
                for with_key in (False, True):
                    if n_items == 4 and (with_key or n == 0):
                        continue
                    rk = {("item", 0, i): ranks[i] for i in range(n_items)}
                    rk.update({("key", ("item", 0, i)): ranks[i] for i in range(n_items)})

                    def oracle(n_items=n_items, ranks=ranks, n=n, with_key=with_key):
                        calls: List[Any] = _Calls()
                        src = _Src([_Sym(("item", 0, i), rank=ranks[i], eq_by_rank=True) for i in range(n_items)])

                        def key(x):
                            calls.append(("K", (x.sym,)))
                            return _Sym(("key", x.sym), rank=x.rank, eq_by_rank=True)
                        obs = _observe_call(lambda: fn(n, src, key=key) if with_key else fn(n, src), [src], calls)
                        r = obs[4]
                        return obs[:4] + ((("LIST",) + _unsym(r)) if isinstance(r, list) else r,)
                    kw2: Dict[str, Any] = {"key": ("FN", "K")} if with_key else {}
                    yield Cell(f"{n_items} items ranked {ranks or '-'}, n={n}, {'key' if with_key else 'no key'}",
                               [("IT", 0), n], kw2, {0: n_items}, oracle, fns={"K": lambda a: ("key", a[0])}, ranks=rk)


AGGREGATES: List[Tuple[str, Callable[[], Any]]] = [
    ("functools.reduce", _reduce_cells),
    ("builtins.sum", _sum_cells),
    ("builtins.all", lambda: _truth_cells(all)),
    ("builtins.any", lambda: _truth_cells(any)),
    ("builtins.min", lambda: _it.chain(_minmax_cells(min), _minmax_repeat_cells(min))),
    ("builtins.max", lambda: _it.chain(_minmax_cells(max), _minmax_repeat_cells(max))),
    ("builtins.list", lambda: _collect_cells(list)),
    ("builtins.tuple", lambda: _collect_cells(tuple)),
    ("builtins.set", lambda: _collect_cells(set)),
    ("builtins.sorted", _sorted_cells),
]
# evaluated on the object model (rules/objmodel.py): the key wrapper is a library class whose own
# __lt__ / __eq__ order the heap entries
OBJECT_AGGREGATES: List[Tuple[str, Callable[[], Any]]] = [
    ("heapq.nlargest", lambda: _nbest_cells("nlargest")),
    ("heapq.nsmallest", lambda: _nbest_cells("nsmallest")),
]

def _zip_cells(strict: bool):
    shapes = [(0,), (0, 1), (0, 1, 2), (0, 0)]
    for slots in shapes:
        ids = sorted(set(slots))
        top = 5 if slots == (0, 0) else 3
        for lens in _it.product(range(0, top), repeat=len(ids)):
            lengths = dict(zip(ids, lens))

            def oracle(slots=slots, lengths=lengths):
                srcs = {k: _Src(_items(k, n)) for k, n in lengths.items()}
                return _observe(lambda: zip(*[srcs[s] for s in slots], strict=strict), [srcs[k] for k in sorted(srcs)], [])
            yield Cell(f"zip({', '.join('it%d' % s for s in slots)}{', strict=True' if strict else ''}) with "
                       + ", ".join(f"len(it{k})={n}" for k, n in lengths.items()),
                       [("SEQ", tuple(("IT", s) for s in slots))], {}, lengths, oracle)


def _chain_cells():
    for shape in [(), (0,), (0, 1), (0, 1, 2)]:
        for lens in _it.product((0, 1, 2), repeat=len(shape)):
            lengths = dict(zip(shape, lens))

            def oracle(shape=shape, lengths=lengths):
                srcs = [_Src(_items(k, lengths[k])) for k in shape]
                return _observe(lambda: _it.chain(*srcs), srcs, [])
            yield Cell("chain(" + ", ".join(f"<{lengths[k]} items>" for k in shape) + ")",
                       [("SEQ", tuple(("IT", k) for k in shape))], {}, lengths, oracle)


LIMIT = 7  # an endless generator is observed for this many items


def _cycle_cells():
    for n in range(0, 4):
        def oracle(n=n):
            src = _Src(_items(0, n))
            return _observe(lambda: _it.islice(_it.cycle(src), LIMIT), [src], [])
        yield Cell(f"{n} items, first {LIMIT} results", [("IT", 0)], {}, {0: n}, oracle, limit=LIMIT)


class _Val:
    """a value of the oracle run that is equal to every other value of the same name, yet a distinct object"""
    def __init__(self, sym):
        self.sym = sym

    def __eq__(self, other):
        return isinstance(other, _Val) and other.sym[:2] == self.sym[:2]

    def __hash__(self):
        return hash(self.sym[:2])


def _callable_iter_cells():
    for n in range(0, 4):
        for stop_at in range(0, n + 1):
            # the callable returns n values and an object *equal to* (not identical with) the sentinel in between
            values = [("v", i, 0) for i in range(n)] + [("v", "S", 1)]
            values = values[:stop_at] + [("v", "S", 1)] + values[stop_at:]

            def make_fn(values=values):
                state = {"i": 0}

                def fn(_a):
                    state["i"] += 1
                    if state["i"] > len(values):
                        return ("v", "more", state["i"])  # (asked again after the end: ever new values)
                    return values[state["i"] - 1]
                return fn

            def oracle(values=values):
                calls: List[Any] = _Calls()
                state = {"i": 0}

                def f():
                    calls.append(("F", ()))
                    state["i"] += 1
                    return _Val(values[state["i"] - 1])
                ys, taken, calls_, end = _observe(lambda: iter(f, _Val(("v", "S", 0))), [], calls)
                return [y.sym for y in ys], taken, calls_, end
            yield Cell(f"callable returning {stop_at} values, then an object equal to the sentinel", [("FN", "F"), ("v", "S", 0)], {}, {},
                       oracle, make_fns=lambda make_fn=make_fn: {"F": make_fn()})


def _plain_iteration_cells():
    for flavour in ("iterator", "collection"):
        for n in range(0, 4):
            def oracle(n=n):
                src = _Src(_items(0, n))
                return _observe(lambda: iter(src), [src], [])
            c = Cell(f"{n} items" + (" of a collection that produces its items when asked (isinstance(x, Collection) holds)"
                                     if flavour == "collection" else ""), [("IT", 0)], {}, {0: n}, oracle)
            c.flavour = flavour
            yield c


def sync_wrapper_table(ctx, rid: str) -> None:
    """``_aiter_sync``: the async view of a synchronous iterable yields exactly its items, one per step."""
    _tables(ctx, rid, [("_core._aiter_sync", _plain_iteration_cells)], "asyncgen", "adapter_table_cells", ALL)


def _islice_cells():
    shapes = [(s_,) for s_ in (0, 1, 2, 3)] + [(a, b) for a in (0, 1, 2) for b in (None, 0, 1, 2, 4)] + \
             [(a, b, c) for a in (0, 1, 2) for b in (None, 1, 3, 4) for c in (1, 2, 3)]
    for args in shapes:
        for n in (0, 2, 5):
            def oracle(args=args, n=n):
                src = _Src(_items(0, n))
                return _observe(lambda: _it.islice(src, *args), [src], [])
            yield Cell(f"islice(<{n} items>, {', '.join(map(str, args))})", [("IT", 0)] + list(args), {}, {0: n}, oracle)


def _zip_longest_cells():
    from .lockstep import FILL
    for slots in [(0,), (0, 1), (0, 0), (0, 1, 2), (0, 0, 1)]:
        ids = sorted(set(slots))
        for lens in _it.product((0, 1, 2), repeat=len(ids)):
            lengths = dict(zip(ids, lens))

            def oracle(slots=slots, lengths=lengths):
                srcs = {k: _Src(_items(k, n)) for k, n in sorted(lengths.items())}
                return _observe(lambda: _it.zip_longest(*[srcs[s_] for s_ in slots], fillvalue=FILL), [srcs[k] for k in sorted(srcs)], [])
            yield Cell("zip_longest(" + ", ".join(f"it{s_}" for s_ in slots) + ") with " + ", ".join(f"len(it{k})={n}" for k, n in lengths.items()),
                       [("IT", s_) for s_ in slots], {"fillvalue": FILL}, lengths, oracle)


TOOLS: List[Tuple[str, Callable[[], Any]]] = [
    ("itertools.takewhile", lambda: _pred_cells(_it.takewhile)),
    ("itertools.dropwhile", lambda: _pred_cells(_it.dropwhile)),
    ("itertools.filterfalse", lambda: _pred_cells(_it.filterfalse)),
    ("builtins.filter", lambda: _pred_cells(filter)),
    ("itertools.pairwise", _pairwise_cells),
    ("itertools.batched", _batched_cells),
    ("itertools.accumulate", _accumulate_cells),
    ("itertools.starmap", _starmap_cells),
    ("builtins.enumerate", _enumerate_cells),
    ("builtins.map", _map_cells),
    ("itertools.compress", _compress_cells),
    ("itertools.chain._chain_iterator", _chain_cells),
    ("itertools.cycle", _cycle_cells),
    ("builtins.acallable_iterator", _callable_iter_cells),
    ("builtins._zip_inner", lambda: _zip_cells(False)),
    ("builtins._zip_inner_strict", lambda: _zip_cells(True)),
]
#: tools that drive a library generator of their own (islice iterates ``enumerate(borrow(it))``) or may keep their state in an
#: object of a private class: evaluated on the object model
OBJECT_TOOLS: List[Tuple[str, Callable[[], Any]]] = [
    ("itertools.islice", _islice_cells),
    ("itertools.zip_longest", _zip_longest_cells),
]

STDLIB_NAME = {"builtins._zip_inner": "zip", "builtins._zip_inner_strict": "zip(strict=True)"}

# documented deviations from the stdlib: (tool, predicate on the cell label) -> expected trace override
DEVIATIONS = {
    "itertools.accumulate": "an empty iterable without initial raises TypeError (documented; the stdlib yields nothing)",
}


def _expected(tool: str, cell: Cell, fault_at=None):
    """the oracle's observation (+ the uses of sources / callables it made: {("poll", k) | ("call", name): count})"""
    _FAULT["at"], _FAULT["uses"], _FAULT["srcs"], _FAULT["events"] = fault_at, {}, 0, []
    try:
        obs = cell.oracle()
    finally:
        uses = dict(_FAULT["uses"])
        events = list(_FAULT["events"])
        _FAULT["at"], _FAULT["uses"], _FAULT["srcs"], _FAULT["events"] = None, {}, 0, []
    ys, taken, calls, end = obs[:4]
    result = obs[4] if len(obs) > 4 else None
    if tool == "itertools.accumulate" and cell.lengths[0] == 0 and "initial" not in cell.kw and fault_at is None:
        end = ("raise", "TypeError")
    return ys, taken, calls, end, result, getattr(obs, "ends", None), uses, events


def _bind(ctx, u, ops, cell: Cell) -> Optional[Dict[str, Any]]:
    a = u.node.args
    names = [p.arg for p in list(a.posonlyargs) + list(a.args)]
    env: Dict[str, Any] = {"@lists": {}}
    pos = list(cell.pos)
    if a.vararg is not None:
        fixed, rest = pos[:len(names)], pos[len(names):]
        env[a.vararg.arg] = ("SEQ", tuple(rest))
        pos = fixed
    if len(pos) > len(names):
        return None
    for n, v in zip(names, pos):
        env[n] = v
    defaults = dict(zip(names[len(names) - len(a.defaults):], a.defaults))
    for p, d in zip(a.kwonlyargs, a.kw_defaults):
        if d is not None:
            defaults[p.arg] = d
    every = names + [p.arg for p in a.kwonlyargs]
    for k, v in cell.kw.items():
        if k not in every:
            return None
        env[k] = v
    for n in every:
        if n not in env:
            if n not in defaults:
                return None
            env[n] = ops.ev.eval(defaults[n], {})
    return env


def _norm(v):
    if isinstance(v, tuple) and len(v) == 2 and v[0] == "SET" and isinstance(v[1], frozenset):
        return ("SET", frozenset(_norm(x) for x in v[1]))
    if isinstance(v, tuple):
        return tuple(_norm(x) for x in v)
    if isinstance(v, list):
        return tuple(_norm(x) for x in v)
    return v


ALL = ("yields", "items taken", "calls", "end", "result", "end-of-source detections", "uses", "interleaving")
#: which parts of the trace a property speaks about (a rule never demands more than its property states)
ITEMS_AND_END = ("yields", "end", "result")          # C01: same items, same objects, same order, same end
RESULT_AND_CALLS = ("end", "result", "calls")        # C02: same value / exception; a default is never passed to key
CONSUMPTION = ("yields", "items taken", "calls", "end", "result", "end-of-source detections", "interleaving")  # C05: the whole trace
#: C06 speaks of what is delivered before a failing use and of no use after it; how often an exhausted source is
#: asked is C05's clause ("end-of-source detections"), not C06's
USES = ("yields", "items taken", "calls", "end", "result")


def aggregate_tables(ctx, rid: str, fields=RESULT_AND_CALLS) -> None:
    ctx.rule(rid, "aggregations as tables: reduce, sum, all, any, min, max, sorted, nlargest, nsmallest, list, tuple, set are evaluated abstractly over sources "
                  "of 0-3 symbolic items (every truth pattern, every ranking with ties, with / without key, default, initial, "
                  "start); the result (the very item, the symbolic sum with its operand order), the items taken, the calls "
                  "of the user's callable and the exception class equal those of the stdlib function executed on the same symbols")
    _tables(ctx, rid, AGGREGATES, "coroutine", "agg_cells", fields)
    from . import objmodel

    def factory(ctx_, u, cell):
        ops = objmodel.make_ops(ctx_, u, cell.lengths, cell.items, cell.fns)
        ops.ranks = cell.ranks or {}
        ops.truths = cell.truths or {}
        return ops

    _tables(ctx, rid, OBJECT_AGGREGATES, "coroutine", "agg_cells", fields, make_ops=factory)


def _object_factory(ctx_, u, cell):
    from . import objmodel
    ops = objmodel.make_ops(ctx_, u, cell.lengths, cell.items, cell.fns)
    ops.ranks = cell.ranks or {}
    ops.truths = cell.truths or {}
    return ops


def fault_tables(ctx, rid: str, items_only: bool = False) -> None:
    """C06 as tables: every cell of the tool and aggregation tables once more per use of a source / user callable, that use failing"""
    if items_only:
        # C01: "terminates or raises the same": with a source / callable that fails at some use, the same items come out and the
        # operation ends the same way (a tool that uses its callable where the counterpart does not fails where that one goes on)
        ctx.rule(rid, "fault cells, items only: for every use of a source / user callable that either side makes, with that use "
                      "raising, the items yielded and the way the tool ends equal the stdlib tool's (R06.10, shared)")
        _tables(ctx, rid, TOOLS, "asyncgen", "fault_base_cells", ITEMS_AND_END, faults=True, fault_fields=("yields", "end", "result"))
        _tables(ctx, rid, OBJECT_TOOLS, "asyncgen", "fault_base_cells", ITEMS_AND_END, make_ops=_object_factory, faults=True,
                fault_fields=("yields", "end", "result"))
        return
    ctx.rule(rid, "fault cells: every cell of the tool and aggregation tables is evaluated once more for each use of a source (a request "
                  "that finds it exhausted included) or of the user's callable, with exactly that use raising; the items delivered "
                  "before, the uses made (none after the failure) and the exception that ends the operation equal those of the stdlib "
                  "function executed with the same use failing")
    # (every end-of-source check is a use that can fail: a tool that asks its exhausted source less often than the counterpart
    # never raises the failure of the request it leaves out - the number of such requests is part of the base comparison)
    _tables(ctx, rid, TOOLS, "asyncgen", "fault_base_cells", USES + ("end-of-source detections",), faults=True)
    _tables(ctx, rid, OBJECT_TOOLS, "asyncgen", "fault_base_cells", USES + ("end-of-source detections",), make_ops=_object_factory, faults=True)
    _tables(ctx, rid, AGGREGATES, "coroutine", "fault_base_cells", USES, faults=True)
    from . import objmodel

    def factory(ctx_, u, cell):
        ops = objmodel.make_ops(ctx_, u, cell.lengths, cell.items, cell.fns)
        ops.ranks = cell.ranks or {}
        ops.truths = cell.truths or {}
        return ops

    _tables(ctx, rid, OBJECT_AGGREGATES, "coroutine", "fault_base_cells", USES, make_ops=factory, faults=True)
    objmodel.merge_table(ctx, rid, USES, faults=True)


def tool_tables(ctx, rid: str, fields=CONSUMPTION) -> None:
    ctx.rule(rid, "single-source tools as tables: takewhile, dropwhile, filterfalse, filter, pairwise, batched, accumulate, "
                  "starmap, enumerate, map, compress are evaluated abstractly over sources of 0-5 symbolic items and every "
                  "truth pattern of the predicate; items yielded, items taken, calls of the user's callable and the way the "
                  "generator ends equal those of the stdlib tool executed on the same symbols")
    ctx.tables[f"{rid} documented deviations"] = DEVIATIONS
    _tables(ctx, rid, TOOLS, "asyncgen", "tool_cells", fields)
    _tables(ctx, rid, OBJECT_TOOLS, "asyncgen", "tool_cells", fields, make_ops=_object_factory)


def _tables(ctx, rid: str, tools, kind: str, counter: str, fields=ALL, make_ops=None, faults: bool = False,
            fault_fields=None) -> None:
    """``faults``: every cell whose fault-free trace equals the counterpart's completely is evaluated again once per use
    of a source or user callable, with exactly that use failing (exception class Boom), and compared with the counterpart
    whose same use fails: what was yielded before, what was used, and that the very exception ends the operation."""
    for short, cells in tools:
        if not ctx.pkg.has_unit(short):
            ctx.note(f"{rid}: {short} no longer exists under this name; not tabulated")
            continue
        real = ctx.unit(short)
        u = ctx.inlined(real)
        if u.kind != kind:
            ctx.note(f"{rid}: {short} is not a(n) {kind} function any more; not tabulated")
            continue
        cfg = cfg_of(u)
        name = short.split(".")[-1]
        std = STDLIB_NAME.get(short, name)
        bad = decided = total = fault_bad = fault_decided = bad_other = 0
        early_reported = False

        def evaluate(cell, fault_at=None):
            """('skip' | 'undecided' | 'endless' | 'ok', got, want)"""
            if make_ops is not None:
                ops = make_ops(ctx, u, cell)
                resolver = ops.resolver
            else:
                ops = ToolOps(ctx, u, cell.lengths, cell.items, cell.fns, cell.truths, cell.ranks)
                resolver = make_resolver(ctx, u, ops, skip=("aiter", "iter", "borrow", "anext", "awaitify"), coroutines=True)
            ops.fault_at = fault_at
            ops.flavour = getattr(cell, "flavour", "iterator")
            ops.ran_from_entry = True
            env = _bind(ctx, u, ops, cell)
            if env is None:
                return "skip", None, None
            machine = Machine(cfg, ops, max_steps=6000 if make_ops is not None else 3000, resolver=resolver)
            want = _expected(short, cell, fault_at)
            halt = None
            if cell.limit is not None:
                def halt(node, e, k=cell.limit):
                    return sum(1 for ev_ in e.get("@trace", ()) if ev_[0] == "yield") >= k
            try:
                outs = machine.run(env, halt=halt)
            except AnalysisError as exc_:
                if not machine.forked and not ops.undecided and want[3] != "endless":
                    return "endless", None, want
                if os.environ.get("ASL_DEBUG_CELLS"):
                    print(f"DEBUG undecided [{short}: {cell.label}] {exc_} forked={machine.forked} ops.undecided={ops.undecided}")
                return "undecided", None, want
            if len(outs) != 1 or ops.undecided or outs[0].env.get("@undecided"):
                if os.environ.get("ASL_DEBUG_CELLS"):
                    print(f"DEBUG undecided [{short}: {cell.label}] outcomes={len(outs)} ops.undecided={ops.undecided} "
                          f"env.undecided={[o.env.get('@undecided') for o in outs]} forked={machine.forked} "
                          f"ends={[(o.terminal.kind, getattr(o.terminal, 'line', None), o.raised) for o in outs]}")
                return "undecided", None, want
            oc = outs[0]
            tr = oc.env.get("@trace", ())
            ys = [_norm(e[1]) for e in tr if e[0] == "yield"]
            calls = [(e[1], _norm(e[2])) for e in tr if e[0] == "call"]
            taken = [oc.env.get("@itpos", {}).get(k, 0) for k in sorted(cell.lengths)]
            if cell.limit is not None and oc.terminal.kind not in ("exit", "raise_exit"):
                end: Any = "return"  # observed for the agreed number of items (the oracle was cut there as well)
            elif oc.terminal.kind == "exit":
                end = "return"
            else:
                exc = oc.raised
                end = ("raise", exc[1] if isinstance(exc, tuple) and exc[:1] == ("exc",) else str(exc))
            result = _norm(ops.resolve(oc.returned, oc.env)) if kind == "coroutine" and end == "return" else None
            ends = [sum(1 for e in tr if e[:2] == ("poll", k)) - n for k, n in zip(sorted(cell.lengths), taken)]
            # the order in which sources are asked, the callable is called and items are handed out
            inter = [("asks", e[1]) if e[0] == "poll" else ("calls", e[1]) if e[0] == "call" else ("yields",)
                     for e in tr if e[0] in ("poll", "call", "yield")]
            comparable = want[5] is not None and (want[7] or not (ys or calls or any(taken)))
            got = ([_norm(y) for y in ys], taken, calls, end, result, ends if want[5] is not None else None,
                   dict(oc.env.get("@uses", {})), inter if comparable else None, tr)
            exp = ([_norm(y) for y in want[0]], list(want[1]), [(c[0], _norm(c[1])) for c in want[2]], want[3],
                   _norm(want[4]) if kind == "coroutine" and want[3] == "return" else None, want[5], want[6],
                   want[7] if comparable else None)
            return "ok", got, exp

        def differences(got, exp, which):
            return [f"{label}: evaluated {_show(g)}, stdlib {_show(w)}" for label, g, w in zip(ALL, got, exp) if g != w and label in which]

        for cell in cells():
            if total >= 8 and decided == 0:
                # nothing of this tool is evaluable over the model: the remaining cells would only burn the work budget
                ctx.note(f"{rid}: {short}: the first {total} cells are not evaluable over the model; the rest is skipped")
                break
            total += 1
            ctx.count(counter)
            status, got, exp = evaluate(cell)
            if status == "endless":
                bad += 1
                decided += 1
                if bad <= 2:
                    ctx.fail(rid, real, name, f"[{name}: {cell.label}] the evaluation does not reach the end of the generator: "
                             f"it keeps running where the stdlib {std} stops")
                continue
            if status != "ok":
                continue
            decided += 1
            ctx.count(counter + "_decided")
            parts = differences(got, exp, fields)
            if parts:
                bad += 1
                construct = name
                differing = {label for label, g, w in zip(ALL, got, exp) if g != w and label in fields}
                if differing <= {"end-of-source detections", "interleaving"} and got[5] is not None and exp[5] is not None \
                        and all(g <= w for g, w in zip(got[5], exp[5])) and (got[7] is None or exp[7][:len(got[7])] == got[7]):
                    # everything agrees up to the point where the evaluated tool has finished: the counterpart asks its
                    # (exhausted) source once more before it finishes as well
                    construct = f"{name}: finishes without asking its exhausted source again where the stdlib tool asks once more"
                    early = True
                    if "end-of-source detections" not in fields:
                        continue  # (this projection compares the order of requests and results up to the end of the source only)
                else:
                    early = False
                if (early and not early_reported) or (not early and bad_other < 2):
                    ctx.fail(rid, real, construct, f"[{name}: {cell.label}] differs from the stdlib {std}", witness="; ".join(parts)[:600])
                if early:
                    early_reported = True
                else:
                    bad_other += 1
                continue
            if not faults:
                continue
            if fault_fields is None and ((kind == "asyncgen" and differences(got, exp, USES)) or got[6] != exp[6] or not exp[6]):
                continue  # (the same failing use must exist on both sides)
            # every use either side makes (a use only the evaluated tool makes fails there and nowhere in the counterpart)
            uses = {k_: max(exp[6].get(k_, 0), got[6].get(k_, 0) if fault_fields is not None else 0) for k_ in set(exp[6]) | set(got[6])}
            # (a source fails at a request for an item or at the request that would have found it exhausted; an iterator
            # that has reported its end keeps doing so - the iterator protocol -, so later requests are no fault positions)
            positions = [(what, key, j) for (what, key), n in sorted(uses.items(), key=str) for j in range(1, n + 1)
                         if what != "poll" or j <= cell.lengths.get(key, 0) + 1]
            for at in positions:
                k = f"{'request' if at[0] == 'poll' else 'call'} {at[2]} of {uses[at[:2]]} " + \
                    (f"to source {at[1]}" if at[0] == "poll" else f"of the callable {at[1]}")
                ctx.count("fault_cells")
                status, fgot, fexp = evaluate(cell, fault_at=at)
                if status == "endless":
                    fault_bad += 1
                    fault_decided += 1
                    if fault_bad <= 2:
                        ctx.fail(rid, real, name, f"[{name}: {cell.label}; {k} fails] the evaluation does not reach the "
                                 f"end: it keeps running where the stdlib {std} raises the failure")
                    continue
                if status != "ok":
                    continue
                fault_decided += 1
                ctx.count("fault_cells_decided")
                # a tool is in lock-step with its counterpart (C05), so everything up to the failure is comparable; an
                # aggregation may interleave its uses differently: what it delivers and how it ends is compared
                parts = differences(fgot, fexp, fault_fields or (FAULT_FIELDS if kind == "asyncgen" else ("end", "result")))
                tr = fgot[8]
                after = [e for e in tr[[e[0] for e in tr].index("failed") + 1:] if e[0] in ("poll", "call")] \
                    if any(e[0] == "failed" for e in tr) else []
                if after and fault_fields is None:
                    parts.append(f"used again after the failure: {_show(after[:3])}")
                if parts:
                    fault_bad += 1
                    if fault_bad <= 2:
                        ctx.fail(rid, real, name, f"[{name}: {cell.label}; {k} fails] differs "
                                 f"from the stdlib {std} whose same use fails", witness="; ".join(parts)[:600])
        ctx.count(f"decided:{short}", decided)
        if decided < total:
            ctx.note(f"{rid}: {short}: {total - decided} of {total} cell(s) not evaluable over the model")
        if not bad and decided and not faults:
            ctx.ok(rid, real, f"{short.split('.')[-1]} equals the stdlib tool on {decided} cells ({', '.join(fields)})")
        if faults and not fault_bad and fault_decided:
            ctx.ok(rid, real, f"{name}: a failing k-th use of a source / callable surfaces as in the stdlib {std} in {fault_decided} "
                   "fault cells (same items before, same uses, nothing used afterwards, the failure itself ends the operation)")


#: what a fault cell compares: items delivered before the failure, what was used (and not used again), how it ends
FAULT_FIELDS = ("yields", "items taken", "calls", "end", "result")


def _show(v) -> str:
    def one(x):
        if isinstance(x, tuple) and x[:1] == ("item",) and len(x) == 3:
            return f"{'xyzuvw'[x[1]] if isinstance(x[1], int) and x[1] < 6 else 's'}{x[2]}"  # x: first source, y: second, ...
        if isinstance(x, (tuple, list)):
            return "(" + ", ".join(one(y) for y in x) + ")"
        return str(x)
    return one(v)
