"""Shared analysis of the three lru_cache wrapper classes (used by C10, C11, C18)."""
from __future__ import annotations

import ast
import operator
from typing import Dict, List, Optional, Tuple

from asl.cfg import CFG, Node, cfg_of
from asl.flow import reachable
from asl.loader import AnalysisError, Unit, norm, own_nodes

CLASSES = {
    "uncached": "_lrucache.UncachedLRUAsyncCallable",
    "memoized": "_lrucache.MemoizedLRUAsyncCallable",
    "cached": "_lrucache.CachedLRUAsyncCallable",
}


class LruClass:
    """Field roles of one wrapper class, derived from the code (not from names):
    cache_info() passes (hits, misses, maxsize, size) positionally to CacheInfo."""

    def __init__(self, ctx, kind: str):
        self.ctx = ctx
        self.kind = kind
        self.short = CLASSES[kind]
        self.info = ctx.pkg.cls(self.short)
        # methods inherited from a *private* base class of the module (shared bookkeeping of the storing wrappers) count as
        # the class's own
        inherited = {}
        for base in reversed(ctx.vals.mro(self.info.fq)[1:]):
            if base.node.name.startswith("_"):
                inherited.update(base.methods)
        if inherited:
            import copy as _copy
            merged = _copy.copy(self.info)
            merged.methods = {**inherited, **self.info.methods}
            self.info = merged
        for m in ("__call__", "cache_info", "cache_clear", "cache_discard", "cache_parameters", "__init__"):
            if m not in self.info.methods:
                raise AnalysisError(f"{self.short} has no method {m} (anchor moved)")
        # the miss path may live in a private coroutine of the class: analyse what __call__ does
        self.call = ctx.inlined(self.info.methods["__call__"])
        self.hits: Optional[str] = None
        self.misses: Optional[str] = None
        self.maxsize: Optional[str] = None
        self.cache: Optional[str] = None
        self.info_args: List[ast.AST] = []
        self._roles()

    def _roles(self) -> None:
        ci = self.info.methods["cache_info"]
        calls = [n for n in ast.walk(ci.node) if isinstance(n, ast.Call) and norm(n.func).endswith("CacheInfo")]
        if len(calls) != 1:
            raise AnalysisError(f"{self.short}.cache_info does not build exactly one CacheInfo")
        call = calls[0]
        fields = self.cacheinfo_fields()
        args: Dict[str, ast.AST] = {}
        for i, a in enumerate(call.args):
            if i < len(fields):
                args[fields[i]] = a
        for kw in call.keywords:
            if kw.arg:
                args[kw.arg] = kw.value
        self.info_by_field = args
        self.info_args = list(call.args)

        def self_attr(e: Optional[ast.AST]) -> Optional[str]:
            if isinstance(e, ast.Attribute) and isinstance(e.value, ast.Name) and e.value.id == "self":
                return e.attr
            return None

        self.hits = self_attr(args.get("hits"))
        self.misses = self_attr(args.get("misses"))
        self.maxsize = self_attr(args.get("maxsize"))
        size = args.get("currsize")
        if isinstance(size, ast.Call) and norm(size.func) == "len" and size.args:
            self.cache = self_attr(size.args[0])

    def field_inits(self) -> Dict[str, ast.AST]:
        """{field: the expression the constructor puts into it, in terms of the class's own ``__init__``} - an assignment in
        ``__init__`` itself, or one in the ``__init__`` of a private base class reached through ``super().__init__(..)`` with
        the base's parameters replaced by the arguments passed"""
        out: Dict[str, ast.AST] = {}
        own = self.ctx.pkg.cls(self.short)
        mro = [c for c in self.ctx.vals.mro(own.fq)]

        def collect(info_idx: int, subst: Dict[str, ast.AST]) -> None:
            if info_idx >= len(mro) or "__init__" not in mro[info_idx].methods:
                if info_idx + 1 < len(mro):
                    collect(info_idx + 1, subst)
                return
            init = mro[info_idx].methods["__init__"]
            for n in own_nodes(init.node):
                tgt = n.targets[0] if isinstance(n, ast.Assign) and len(n.targets) == 1 else n.target if isinstance(n, ast.AnnAssign) else None
                val = getattr(n, "value", None)
                if isinstance(tgt, ast.Attribute) and isinstance(tgt.value, ast.Name) and tgt.value.id == "self" and val is not None:
                    if isinstance(val, ast.Name) and val.id in subst:
                        val = subst[val.id]
                    out.setdefault(tgt.attr, val)
                if isinstance(n, ast.Call) and isinstance(n.func, ast.Attribute) and n.func.attr == "__init__" \
                        and isinstance(n.func.value, ast.Call) and norm(n.func.value.func) == "super" and not n.keywords \
                        and info_idx + 1 < len(mro) and mro[info_idx + 1].node.name.startswith("_"):
                    base_init = mro[info_idx + 1].methods.get("__init__")
                    if base_init is not None:
                        names = base_init.param_names()[1:]
                        inner = {p: (subst.get(a.id, a) if isinstance(a, ast.Name) else a) for p, a in zip(names, n.args)}
                        collect(info_idx + 1, inner)
        collect(0, {})
        return out

    def cacheinfo_fields(self) -> List[str]:
        info = self.ctx.pkg.cls("_lrucache.CacheInfo")
        return [s.target.id for s in info.node.body if isinstance(s, ast.AnnAssign) and isinstance(s.target, ast.Name)]

    # ---- node predicates on __call__ -------------------------------------
    def is_self_attr(self, e: Optional[ast.AST], attr: Optional[str]) -> bool:
        # (``cast(OrderedDict, self.__cache)`` is ``self.__cache``)
        while isinstance(e, ast.Call) and norm(e.func).split(".")[-1] == "cast" and len(e.args) == 2:
            e = e.args[1]
        return attr is not None and isinstance(e, ast.Attribute) and e.attr == attr \
            and isinstance(e.value, ast.Name) and e.value.id == "self"

    def is_wrapped_await(self, unit: Unit, n: Node) -> bool:
        if n.kind != "await":
            return False
        v = self.ctx.vals.expr(unit, n.info.get("value"), n)
        call = n.info.get("value")
        return isinstance(call, ast.Call) and self.is_self_attr(call.func, "__wrapped__") and bool(v)

    def counter_inc(self, n: Node) -> Optional[Tuple[str, int]]:
        """(field, delta) for `self.<counter> += k` / `-= k` / plain assignment nodes."""
        if n.kind == "store" and n.info.get("aug"):
            s = n.ast
            assert isinstance(s, ast.AugAssign)
            for fld in (self.hits, self.misses):
                if self.is_self_attr(s.target, fld):
                    k = s.value.value if isinstance(s.value, ast.Constant) and isinstance(s.value.value, int) else None
                    if k is None:
                        return (fld, 10**6)  # type: ignore[return-value]
                    return (fld, k if isinstance(s.op, ast.Add) else -k if isinstance(s.op, ast.Sub) else 10**6)  # type: ignore[return-value]
        elif n.kind == "store":
            for t in n.info.get("targets", []):
                for fld in (self.hits, self.misses):
                    if self.is_self_attr(t, fld):
                        return (fld, 10**6)  # type: ignore[return-value]
        return None

    def cache_store(self, n: Node) -> bool:
        if n.kind == "store":
            for t in n.info.get("targets", []):
                if isinstance(t, ast.Subscript) and self.is_self_attr(t.value, self.cache):
                    return True
        if n.kind == "call":
            f = n.ast.func  # type: ignore[union-attr]
            if isinstance(f, ast.Attribute) and self.is_self_attr(f.value, self.cache) and \
                    f.attr in ("setdefault", "update", "__setitem__"):
                return True
        return False

    def cache_evict(self, n: Node) -> Optional[ast.Call]:
        if n.kind == "call":
            f = n.ast.func  # type: ignore[union-attr]
            if isinstance(f, ast.Attribute) and self.is_self_attr(f.value, self.cache) and \
                    f.attr in ("popitem", "pop", "clear", "__delitem__"):
                return n.ast  # type: ignore[return-value]
        if n.kind == "del":
            for t in n.info.get("targets", []):
                if isinstance(t, ast.Subscript) and self.is_self_attr(t.value, self.cache):
                    return ast.Call(func=ast.Name(id="del"), args=[], keywords=[])
        return None

    def cache_read(self, n: Node) -> bool:
        return n.kind == "sub" and isinstance(n.ast, ast.Subscript) and self.is_self_attr(n.ast.value, self.cache)

    def membership_test(self, n: Node) -> Optional[bool]:
        """For a branch node testing `key in cache` / `key not in cache`: returns True if
        the branch's 't' edge means *present*; None if not such a test."""
        if n.kind != "branch" or not isinstance(n.ast, ast.Compare) or len(n.ast.ops) != 1:
            return None
        if not self.is_self_attr(n.ast.comparators[0], self.cache):
            return None
        if isinstance(n.ast.ops[0], ast.In):
            return True
        if isinstance(n.ast.ops[0], ast.NotIn):
            return False
        return None

    def full_test(self, n: Node):
        """For a branch node comparing len(cache) with maxsize: a function
        (size, maxsize) -> bool giving the outcome of the test; else None."""
        if n.kind != "branch" or not isinstance(n.ast, ast.Compare) or len(n.ast.ops) != 1:
            return None
        if isinstance(n.ast.ops[0], (ast.Is, ast.IsNot)):
            # ``self.<maxsize> is [not] None``: in the bounded class the capacity is a number
            sides = [n.ast.left, n.ast.comparators[0]]
            if any(self.is_self_attr(s_, self.maxsize) for s_ in sides) and any(
                    isinstance(s_, ast.Constant) and s_.value is None for s_ in sides):
                outcome = isinstance(n.ast.ops[0], ast.IsNot)
                return lambda size, mx, outcome=outcome: outcome
            return None
        ops = {ast.GtE: operator.ge, ast.Gt: operator.gt, ast.Eq: operator.eq, ast.LtE: operator.le,
               ast.Lt: operator.lt, ast.NotEq: operator.ne}
        op = ops.get(type(n.ast.ops[0]))
        if op is None:
            return None
        left, right = n.ast.left, n.ast.comparators[0]

        def side(e):
            if isinstance(e, ast.Call) and norm(e.func) == "len" and e.args and self.is_self_attr(e.args[0], self.cache):
                return "size"
            if self.is_self_attr(e, self.maxsize):
                return "max"
            return None

        ls, rs = side(left), side(right)
        if {ls, rs} != {"size", "max"}:
            return None
        return lambda size, mx: op(size if ls == "size" else mx, size if rs == "size" else mx)


def enumerate_paths(cfg: CFG, start: Node, stop, edge_ok=None, limit: int = 4000) -> List[List[Tuple[Node, str]]]:
    """All acyclic paths (as lists of (node, outgoing label)) from start to a node
    satisfying ``stop``; normal edges only unless edge_ok says otherwise."""
    out: List[List[Tuple[Node, str]]] = []
    stack: List[Tuple[Node, List[Tuple[Node, str]], frozenset]] = [(start, [], frozenset([start]))]
    while stack:
        node, path, seen = stack.pop()
        if stop(node) and path:
            out.append(path + [(node, "")])
            continue
        for lab, s in node.succ:
            if edge_ok is not None:
                if not edge_ok(node, lab, s):
                    continue
            elif lab in ("e", "p"):
                continue
            if s in seen:
                if s is start and stop(s):
                    out.append(path + [(node, lab), (s, "")])  # a full loop iteration back to the start
                continue
            stack.append((s, path + [(node, lab)], seen | {s}))
            if len(out) + len(stack) > limit:
                raise AnalysisError(f"{cfg.unit.short}: path enumeration exceeds {limit} (unexpected loop structure)")
    return out


def call_paths(cfg: CFG) -> List[List[Tuple[Node, str]]]:
    """Normal paths entry -> exit of a __call__, following the KeyError handler edge
    (cache miss) as a normal continuation of the failed subscript load."""

    def edge(a: Node, lab: str, b: Node) -> bool:
        if lab == "p":
            return False
        if lab == "e":
            # a cache lookup that misses: sub --e--> dispatch --h--> handler(KeyError)
            return a.kind == "sub" and b.kind == "dispatch"
        if a.kind == "dispatch":
            return lab == "h" and "KeyError" in norm(b.info.get("type"))
        return True

    return enumerate_paths(cfg, cfg.entry, lambda n: n is cfg.exit, edge_ok=edge)
