"""C10 — lru_cache equals functools.lru_cache over sequential call histories (necessary clauses).

R10.1 key construction agrees with the stdlib sibling ``functools._make_key``: keyword part
      only when keywords are given and separated by a unique marker object; keyword items
      in call order (no sorting); ``typed`` appends the type of every positional and every
      keyword value; the unwrapped fast path only when not typed, for a single argument
      whose *exact* type is in the fast-type table, and that table equals the stdlib's;
      CallKey equality/hash are those of the value tuple.
R10.2 LRU orientation: refresh-on-hit end = insertion end != eviction end; the store is an
      OrderedDict.
R10.3 statistics discipline outside __call__: cache_clear resets every counter and empties
      the store; cache_info passes (hits, misses, maxsize, size) in CacheInfo field order;
      (per-path counting in __call__ is R11.5, shared).
R10.4 maxsize normalisation, by abstract evaluation of the decorator front-end over the
      classes {None, negative, zero, positive, callable, other}: None -> memoized, <= 0 ->
      disabled (reported maxsize 0), positive -> bounded(maxsize), callable -> bounded(128 =
      the stdlib default), other -> TypeError.
R10.5 discard key = call key: every key construction of a class passes the same
      (args, kwargs, typed) triple; the bound wrapper prepends the instance identically in
      __call__ and cache_discard; cache_discard removes exactly that key.
R10.6 errors are never cached — C11 R11.4 (shared).
"""
from __future__ import annotations

import ast
import functools as _py_functools
from typing import Any, Dict, List, Optional, Tuple

from asl import absint
from asl.absint import UNKNOWN, AbsEval
from asl.cfg import cfg_of
from asl.flow import find_path, pretty_path
from asl.loader import AnalysisError, norm, own_nodes
from . import c11
from .lru import CLASSES, LruClass, call_paths

LEVEL = {
    "decided": "C10 (necessary clauses): (R10.1) the call key as a table: from_call evaluated over symbolic tuples for 36 "
               "call shapes equals functools._make_key's rule (marker, order, typed suffix, fast path), the fast-type table "
               "equals the one parsed from the interpreter's own functools.py, CallKey.__eq__ as a truth table; (R10.2) refresh end = insertion end != "
               "eviction end on an OrderedDict; (R10.3) cache_clear/cache_info/cache_parameters field discipline plus the "
               "per-path hit/miss counting of R11.5; (R10.4) maxsize normalisation table by abstract evaluation of the "
               "decorator front-end over {None, <0, 0, >0, callable, other}; (R10.5) discard key = call key, bound wrapper "
               "prepends the instance identically; (R10.6) errors never cached (R11.4).",
    "not_decided": "whole-history equivalence with functools.lru_cache (results and exact eviction sequence for a "
                   "given history) — that needs execution or state exploration.",
    "technique": "static analysis: structural sibling comparison with stdlib source + finite-domain abstract evaluation",
}
LEVEL["decided"] += " (R10.7) the descriptor decides 'looked up on the class' by `instance is None` only."
LEVEL["decided"] += ' R10.3 is path-based: every path through cache_clear resets hits, misses and the store together.'
LEVEL["decided"] += ' (R10.8) hit or miss is decided by the presence of the key, never by comparing a looked-up value with None / a constant.'
LEVEL["decided"] += ' (R10.10) cache_info keeps nothing between queries, or what it keeps is dropped by every operation that changes a counter or the store.'
LEVEL["decided"] += ' (R10.9) __call__ and cache_discard of every wrapper (bound wrapper included) take nothing but self, positional-only, besides *args / **kwargs: every argument pattern of the function is accepted, also a keyword named self.'


def run(ctx) -> None:
    ctx.rule("R10.1", "call-key construction clauses vs functools._make_key")
    ctx.rule("R10.2", "LRU end orientation on an OrderedDict")
    ctx.rule("R10.3", "cache_clear / cache_info / cache_parameters discipline")
    ctx.rule("R10.4", "maxsize normalisation table (abstract evaluation)")
    ctx.rule("R10.5", "discard key = call key; bound wrapper prepends the instance identically")
    ctx.rule("R10.6", "errors never cached (R11.4) and per-path statistics (R11.5)")
    r10_1(ctx)
    classes = {k: LruClass(ctx, k) for k in CLASSES}
    r10_2(ctx, classes["cached"])
    for lc in classes.values():
        ctx.count("wrapper_classes")
        r10_3(ctx, lc)
        c11.check_call(_Relabel(ctx, {"R11.5": "R10.6", "R11.4": "R10.6", "R11.1": "R10.6",
                                      "R11.3": "R10.6", "R11.6": "R10.6"}), lc)
    ctx.rule("R10.10", "cache_info reports the state at the time of the query: a report kept between queries is dropped by every "
                       "operation that changes a counter or the store (call, clear, discard), before the next suspension point or return")
    for lc in classes.values():
        r10_10(ctx, lc)
    r10_4(ctx)
    r10_5(ctx, classes)
    from .common import descriptor_binding
    descriptor_binding(ctx, "R10.7", ("_lrucache",))
    r10_8(ctx, classes)
    from .common import keywords_cannot_collide
    ctx.rule("R10.9", "every argument pattern the function accepts is accepted by its cached wrapper: __call__ and cache_discard "
                      "(also of the bound wrapper) take nothing but self, positional-only, besides *args / **kwargs - a keyword "
                      "argument named `self` belongs to the function (functools.lru_cache accepts it)")
    for lc in classes.values():
        for mname in ("__call__", "cache_discard"):
            ctx.count("forwarding_methods")
            keywords_cannot_collide(ctx, "R10.9", lc.info.methods[mname], "the cached function")
    for info in ctx.pkg.module("_lrucache").classes.values():
        if info not in [lc.info for lc in classes.values()]:
            for mname in ("__call__", "cache_discard"):
                m = info.methods.get(mname)
                if m is not None and m.node.args.kwarg is not None:
                    ctx.count("forwarding_methods")
                    keywords_cannot_collide(ctx, "R10.9", m, "the cached function")
    ctx.floor("forwarding_methods", 6)
    ctx.floor("descriptors", 2)
    ctx.floor("wrapper_classes", 3)
    ctx.floor("maxsize_classes", 6)
    ctx.floor("key_cells", 24)


class _Relabel:
    """Run shared C11 rules under a C10 rule id."""

    def __init__(self, ctx, mapping: Dict[str, str]):
        self._ctx = ctx
        self._map = mapping

    def __getattr__(self, name: str) -> Any:
        return getattr(self._ctx, name)

    def ok(self, rule, *a, **k):
        return self._ctx.ok(self._map.get(rule, rule), *a, **k)

    def fail(self, rule, *a, **k):
        return self._ctx.fail(self._map.get(rule, rule), *a, **k)

    def check(self, cond, rule, *a, **k):
        return self._ctx.check(cond, self._map.get(rule, rule), *a, **k)


# --------------------------------------------------------------------------- stdlib sibling
def stdlib_facts() -> Dict[str, Any]:
    path = _py_functools.__file__
    with open(path) as fh:
        tree = ast.parse(fh.read())
    facts: Dict[str, Any] = {}
    for node in ast.walk(tree):
        if isinstance(node, ast.FunctionDef) and node.name == "lru_cache":
            names = [a.arg for a in node.args.args]
            defaults = dict(zip(names[-len(node.args.defaults):], node.args.defaults))
            facts["maxsize_default"] = ast.literal_eval(defaults["maxsize"])
        if isinstance(node, ast.FunctionDef) and node.name == "_make_key":
            names = [a.arg for a in node.args.args]
            defaults = dict(zip(names[-len(node.args.defaults):], node.args.defaults))
            ft = defaults.get("fasttypes")
            facts["fasttypes"] = sorted(norm(e) for e in ft.elts) if isinstance(ft, (ast.Set, ast.Tuple)) else None
            facts["sorts_kwds"] = any(isinstance(n, ast.Call) and norm(n.func) == "sorted" for n in ast.walk(node))
    if "maxsize_default" not in facts or not facts.get("fasttypes"):
        raise AnalysisError("could not read lru_cache defaults from the interpreter's functools.py")
    return facts


# --------------------------------------------------------------------------- R10.1
def r10_1(ctx) -> None:
    u = ctx.inlined(ctx.unit("_lrucache.CallKey.from_call"))  # (type tags etc. may be computed by a private helper)
    facts = stdlib_facts()
    ctx.tables["stdlib functools"] = facts
    node = u.node
    params = u.param_names()
    if len(params) < 4:
        raise AnalysisError("CallKey.from_call signature changed (anchor moved)")
    p_args, p_kwds, p_typed = params[1], params[2], params[3]
    defaults = _param_defaults(node)

    # (a) the key table: from_call is abstractly evaluated for every call shape
    #     args in {(), (A,), (A, B)} x kwds in {{}, {k: V}, {k: V, j: W}} x typed x "type(A) is a
    #     fast type", over symbolic tuples, and compared with functools._make_key's rule
    def through_constant(e):
        """a default spelled as the name of a module-level constant: the constant's value"""
        if isinstance(e, ast.Name):
            sym = u.module.symbols.get(e.id)
            if sym is not None and sym[0] == "assign":
                return sym[1]
        return e

    defaults = {k: through_constant(v) for k, v in defaults.items()}
    marker_default = defaults.get(params[5]) if len(params) > 5 else None
    unique = isinstance(marker_default, ast.Call) and norm(marker_default.func) == "object" and not marker_default.args
    ctx.count("key_clauses")
    ctx.check(unique or len(params) <= 5, "R10.1", u, marker_default if marker_default is not None else "from_call",
              "the keyword marker is a unique object() (cannot collide with an argument)")
    table = {}
    for args in ((), ("A",), ("A", "B")):
        for kwds in ((), (("k", "V"),), (("k", "V"), ("j", "W"))):
            for typed in (False, True):
                for fast in ((False, True) if len(args) == 1 else (False,)):
                    ctx.count("key_cells")
                    got = _eval_from_call(ctx, u, params, args, kwds, typed, fast)
                    want = _make_key_spec(args, kwds, typed, fast)
                    cell = (f"args={args} kwds={dict(kwds)} typed={typed}" +
                            (f" type(A) {'is' if fast else 'is not'} a fast type" if len(args) == 1 else ""))
                    table[cell] = str(sorted(map(str, got)))
                    ctx.check(got == {want}, "R10.1", u, "from_call",
                              f"[{cell}] the key separates positional from keyword arguments by the marker, keeps keyword "
                              "order, appends the types of all positional and keyword values iff typed, and is the bare "
                              "argument only for a single fast-typed positional without keywords when not typed",
                              witness=f"evaluated {sorted(map(str, got))}; functools rule gives {want}")
    ctx.tables["from_call key table"] = table
    # (b) call order
    ctx.count("key_clauses")
    sorts = [n for n in own_nodes(node) if isinstance(n, ast.Call) and norm(n.func) in ("sorted", "frozenset", "set")]
    ctx.check(not sorts and not facts["sorts_kwds"], "R10.1", u, sorts[0] if sorts else "from_call",
              "keyword items enter the key in call order, like the stdlib (no sorting / set)")
    # (c) exact-type test against the stdlib's table of fast types
    ctx.count("key_clauses")
    exact = [c for c in own_nodes(node) if isinstance(c, ast.Compare) and isinstance(c.ops[0], ast.In)
             and isinstance(c.left, ast.Call) and norm(c.left.func) == "type"]
    isinst = [c for c in own_nodes(node) if isinstance(c, ast.Call) and norm(c.func) == "isinstance"]
    ctx.check(not isinst, "R10.1", u, isinst[0] if isinst else "from_call",
              "the fast path tests the exact type (type(x) in table), never isinstance (bool / int subclasses are not fast)")
    for c in exact:
        tbl = c.comparators[0]
        tdef = defaults.get(tbl.id) if isinstance(tbl, ast.Name) else tbl
        got_t = sorted(norm(e) for e in tdef.elts) if isinstance(tdef, (ast.Tuple, ast.Set, ast.List)) else None
        ctx.check(got_t == facts["fasttypes"], "R10.1", u, tdef if tdef is not None else c,
                  f"fast-type table equals the stdlib's {facts['fasttypes']}", witness=f"table: {got_t}")
    # CallKey equality and hash
    ctx.count("key_clauses")
    info = ctx.pkg.cls("_lrucache.CallKey")
    eq = info.methods.get("__eq__")
    hs = info.methods.get("__hash__")
    init = info.methods.get("__init__")
    # __eq__ as a table: same type & equal values -> True; same type & different values -> False;
    # another type -> False (an `or` for the `and`, or a dropped type test, fails a cell)
    if eq is None:
        ctx.fail("R10.1", "CallKey", "CallKey.__eq__", "CallKey defines no __eq__: keys of equal calls never match")
    else:
        me, other = eq.param_names()[:2]
        vfield = None
        if init is not None:
            ip = init.param_names()
            for st in own_nodes(init.node):
                tg = st.targets[0] if isinstance(st, ast.Assign) else st.target if isinstance(st, ast.AnnAssign) else None
                if isinstance(tg, ast.Attribute) and isinstance(getattr(st, "value", None), ast.Name) and len(ip) > 1 and st.value.id == ip[1]:
                    vfield = tg.attr
        for same_type in (True, False):
            for same_values in (True, False):
                ctx.count("callkey_eq_cells")

                class _EqOps:
                    def attr(self, value, name, node, env):
                        if value in ("A", "B") and name == vfield:
                            return ("values", value)
                        return UNKNOWN

                    def call(self, func, args, kwargs, node, env):
                        if func == "type" and args and args[0] in ("A", "B"):
                            return ("type", "T1" if args[0] == "A" or same_type else "T2")
                        if func == "isinstance" and len(args) == 2 and args[0] == "B":
                            return same_type
                        return UNKNOWN

                    def compare(self, op, left, right, env):
                        if isinstance(left, tuple) and isinstance(right, tuple) and left[:1] == right[:1] == ("values",):
                            eqv = same_values or left == right
                            return eqv if op == "Eq" else (not eqv) if op == "NotEq" else UNKNOWN
                        if isinstance(left, tuple) and isinstance(right, tuple) and left[:1] == right[:1] == ("type",):
                            return (left == right) if op in ("Is", "Eq") else (left != right) if op in ("IsNot", "NotEq") else UNKNOWN
                        return UNKNOWN

                outs = absint.Machine(cfg_of(eq), _EqOps()).run({me: "A", other: "B"})
                got = {oc.returned if oc.terminal.kind == "exit" else "raises" for oc in outs}
                want = same_type and same_values
                # for a foreign type the values may be unknown: only the decision matters
                got = {bool(g) if isinstance(g, bool) else g for g in got}
                ctx.check(got == {want} or (not same_type and got <= {False, "NotImplemented"} and got),
                          "R10.1", eq, "CallKey.__eq__",
                          f"[{'same' if same_type else 'other'} type, {'equal' if same_values else 'different'} values] "
                          f"keys compare {'equal' if want else 'unequal'}: two keys are equal iff both are call keys with equal value tuples",
                          witness=f"evaluated {sorted(map(str, got))}")
    hash_ok = init is not None and hs is not None and any(
        isinstance(n, ast.Call) and norm(n.func) == "hash" and n.args and norm(n.args[0]) == init.param_names()[1]
        for n in own_nodes(init.node))
    ctx.check(hash_ok, "R10.1", hs or "CallKey", "CallKey.__hash__", "the hash is the hash of the same value tuple")


class _T(tuple):
    """an abstract *tuple value* (as opposed to a tagged atom)"""


class _KeyOps:
    def __init__(self, fast: bool):
        self.fast = fast

    @staticmethod
    def seq(v):
        if isinstance(v, _T):
            return v
        return UNKNOWN

    def truth(self, v, env):
        if isinstance(v, _T):
            return len(v) > 0
        if isinstance(v, tuple) and v[:1] == ("DICT",):
            return len(v[1]) > 0
        return UNKNOWN

    def compare(self, op, left, right, env):
        if op in ("In", "NotIn") and right == "FAST_TYPES" and isinstance(left, tuple) and left[:1] == ("type",):
            fast = self.fast if left[1] == "A" else False
            return fast if op == "In" else not fast
        if op in ("Eq", "NotEq") and isinstance(left, int) and isinstance(right, int):
            return (left == right) if op == "Eq" else (left != right)
        if op in ("Lt", "LtE", "Gt", "GtE") and isinstance(left, int) and isinstance(right, int):
            return {"Lt": left < right, "LtE": left <= right, "Gt": left > right, "GtE": left >= right}[op]
        return UNKNOWN

    def binop(self, op, left, right, env):
        if op == "Add" and isinstance(left, _T) and isinstance(right, _T):
            return _T(left + right)
        return UNKNOWN

    def attr(self, value, name, node, env):
        if isinstance(value, tuple) and value[:1] == ("DICT",):
            return ("dictmeth", value, name)
        return UNKNOWN

    def call(self, func, args, kwargs, node, env):
        ev = AbsEval(self)
        callee = ev.eval(node.func, env) if not isinstance(node.func, ast.Name) or node.func.id in env else None
        if isinstance(callee, tuple) and callee[:1] == ("dictmeth",):
            items = callee[1][1]
            if callee[2] == "items":
                return _T(_T((k, v)) for k, v in items)
            if callee[2] == "values":
                return _T(v for _k, v in items)
            if callee[2] == "keys":
                return _T(k for k, _v in items)
            return UNKNOWN
        if callee == "CLS" or func in ("CallKey",):
            return ("CallKey", args[0]) if len(args) == 1 else UNKNOWN
        if func == "type" and len(args) == 1:
            return ("type", args[0])
        if func == "len" and len(args) == 1 and isinstance(args[0], _T):
            return len(args[0])
        if func == "len" and len(args) == 1 and isinstance(args[0], tuple) and args[0][:1] == ("DICT",):
            return len(args[0][1])
        if func == "tuple":
            if not args:
                return _T()
            return self.seq(args[0])
        if func == "map" and len(node.args) == 2 and norm(node.args[0]) == "type" and isinstance(args[1], _T):
            return _T(("type", x) for x in args[1])
        if func == "cast" and len(args) == 2:
            return args[1]
        return UNKNOWN

    def other(self, e, env, ev):
        if isinstance(e, ast.Starred):
            return ("*", ev.eval(e.value, env))
        if isinstance(e, ast.Subscript) and isinstance(e.slice, ast.Constant) and isinstance(e.slice.value, int):
            v = ev.eval(e.value, env)
            if isinstance(v, _T) and -len(v) <= e.slice.value < len(v):
                return v[e.slice.value]
            return UNKNOWN
        if isinstance(e, (ast.GeneratorExp, ast.ListComp)) and len(e.generators) == 1 and not e.generators[0].ifs:
            g = e.generators[0]
            src = ev.eval(g.iter, env)
            if not isinstance(src, _T):
                return UNKNOWN
            out = []
            for x in src:
                env2 = dict(env)
                _bind(g.target, x, env2)
                out.append(ev.eval(e.elt, env2))
            return _T(out)
        return UNKNOWN

    def augstore(self, node, env, ev):
        s_ = node.ast
        if isinstance(s_, ast.AugAssign) and isinstance(s_.target, ast.Name) and isinstance(s_.op, ast.Add):
            cur = env.get(s_.target.id, UNKNOWN)
            add = _flatten(ev.eval(s_.value, env))
            env[s_.target.id] = _T(cur + add) if isinstance(cur, _T) and isinstance(add, _T) else UNKNOWN
        elif isinstance(s_, ast.AugAssign) and isinstance(s_.target, ast.Name):
            env[s_.target.id] = UNKNOWN


def _bind(target, value, env) -> None:
    if isinstance(target, ast.Name):
        env[target.id] = value
    elif isinstance(target, (ast.Tuple, ast.List)) and isinstance(value, tuple) and len(value) == len(target.elts):
        for t, v in zip(target.elts, value):
            _bind(t, v, env)


def _flatten(v):
    """a tuple display with starred parts -> _T"""
    if isinstance(v, _T):
        return v
    if isinstance(v, tuple) and not (v and isinstance(v[0], str) and v[0] in ("type", "CallKey", "DICT", "dictmeth", "*")):
        out = []
        for x in v:
            if isinstance(x, tuple) and x[:1] == ("*",):
                if not isinstance(x[1], _T):
                    return UNKNOWN
                out.extend(x[1])
            else:
                out.append(_flatten(x) if isinstance(x, tuple) and not isinstance(x, _T) and not (x and isinstance(x[0], str)) else x)
        return _T(out)
    return v


class _KeyEval(AbsEval):
    def eval(self, e, env):
        v = super().eval(e, env)
        if isinstance(e, ast.Tuple):
            return _flatten(v)
        return v


def _canon(v):
    """structure-insensitive form of a key: nested pairs (k, v) are flattened"""
    if isinstance(v, tuple) and v[:1] == ("CallKey",):
        return ("CallKey", _canon(v[1]))
    if isinstance(v, _T):
        out = []
        for x in v:
            if isinstance(x, _T):
                out.extend(_canon(x))
            else:
                out.append(x)
        return tuple(out)
    return v


def _make_key_spec(args, kwds, typed, fast):
    key = list(args)
    if kwds:
        key.append("MARK")
        for k, v in kwds:
            key += [k, v]
    if typed:
        key += [("type", a) for a in args]
        if kwds:
            key += [("type", v) for _k, v in kwds]
    elif len(key) == 1 and fast:
        return key[0]
    return ("CallKey", tuple(key))


def _eval_from_call(ctx, u, params, args, kwds, typed, fast):
    ops = _KeyOps(fast)
    m = absint.Machine(cfg_of(u), ops)
    m.ev = _KeyEval(ops)
    env = {params[0]: "CLS", params[1]: _T(args), params[2]: ("DICT", tuple(kwds)), params[3]: typed}
    if len(params) > 4:
        env[params[4]] = "FAST_TYPES"
    if len(params) > 5:
        env[params[5]] = "MARK"
    out = set()
    for oc in m.run(env):
        out.add(_canon(oc.returned) if oc.terminal.kind == "exit" else ("raises", str(oc.raised)))
    return out


def _type_of_each(n: ast.AST) -> Optional[str]:
    """`map(type, X)` or a comprehension / generator `type(v) for v in X` -> text of X."""
    if isinstance(n, ast.Call) and norm(n.func) == "map" and len(n.args) == 2 and norm(n.args[0]) == "type":
        return norm(n.args[1])
    if isinstance(n, (ast.GeneratorExp, ast.ListComp)) and len(n.generators) == 1 and not n.generators[0].ifs:
        g = n.generators[0]
        if isinstance(n.elt, ast.Call) and norm(n.elt.func) == "type" and len(n.elt.args) == 1 \
                and norm(n.elt.args[0]) == norm(g.target):
            return norm(g.iter)
    return None


def _param_defaults(fn) -> Dict[str, ast.AST]:
    names = [a.arg for a in fn.args.posonlyargs + fn.args.args]
    out = dict(zip(names[len(names) - len(fn.args.defaults):], fn.args.defaults))
    for a, d in zip(fn.args.kwonlyargs, fn.args.kw_defaults):
        if d is not None:
            out[a.arg] = d
    return out


def _parents(root) -> Dict[int, ast.AST]:
    out = {}
    for n in ast.walk(root):
        for c in ast.iter_child_nodes(n):
            out[id(c)] = n
    return out


def _guarding_test(root, target) -> Optional[Tuple[ast.AST, bool]]:
    """Innermost (test, polarity) of an IfExp / If that selects ``target``."""
    parents = _parents(root)
    child = target
    cur = parents.get(id(child))
    while cur is not None:
        if isinstance(cur, ast.IfExp):
            if child is cur.body:
                return cur.test, True
            if child is cur.orelse:
                return cur.test, False
        if isinstance(cur, ast.If):
            if any(child is s for s in cur.body):
                return cur.test, True
            if any(child is s for s in cur.orelse):
                # ``elif cond: target`` -> the elif's own test guards it
                return cur.test, False
        child, cur = cur, parents.get(id(cur))
    return None


def _truth_of(test: ast.AST, name: str) -> Optional[bool]:
    """Does ``test`` being True mean ``name`` is truthy (True), falsy (False), or neither?"""
    if isinstance(test, ast.Name) and test.id == name:
        return True
    if isinstance(test, ast.UnaryOp) and isinstance(test.op, ast.Not) and isinstance(test.operand, ast.Name) \
            and test.operand.id == name:
        return False
    return None


def _under_test(root, target, name: str) -> bool:
    """Is ``target`` executed only when ``name`` is truthy?"""
    parents = _parents(root)
    child, cur = target, parents.get(id(target))
    while cur is not None:
        if isinstance(cur, ast.If) and _truth_of(cur.test, name) is True and any(child is s for s in cur.body):
            return True
        if isinstance(cur, ast.IfExp) and _truth_of(cur.test, name) is True and child is cur.body:
            return True
        child, cur = cur, parents.get(id(cur))
    return False


def _in_else_of(root, target, name: str) -> bool:
    parents = _parents(root)
    child, cur = target, parents.get(id(target))
    while cur is not None:
        if isinstance(cur, ast.If):
            t = _truth_of(cur.test, name)
            if t is True and any(child is s for s in cur.orelse):
                return True
            if t is False and any(child is s for s in cur.body):
                return True
        child, cur = cur, parents.get(id(cur))
    return False


# --------------------------------------------------------------------------- R10.2
def r10_2(ctx, lc: LruClass) -> None:
    u = lc.call
    cfg = cfg_of(u)
    init = lc.info.methods["__init__"]
    held = lc.field_inits().get(lc.cache)
    od = isinstance(held, ast.Call) and norm(held.func).endswith("OrderedDict")
    ctx.check(od, "R10.2", init, f"self.{lc.cache}", "the bounded cache keeps its entries in an OrderedDict")
    insertion = "right"  # d[k] = v on an OrderedDict appends at the end
    refresh: List[str] = []
    evict: List[str] = []
    for n in cfg.nodes:
        if n.kind != "call" or n.tag:
            continue
        f = n.ast.func  # type: ignore[union-attr]
        if not (isinstance(f, ast.Attribute) and lc.is_self_attr(f.value, lc.cache)):
            continue
        call = n.ast
        last = _last_arg(call)  # type: ignore[arg-type]
        if f.attr == "move_to_end":
            refresh.append("right" if last in (None, True) else "left" if last is False else "?")
        elif f.attr == "popitem":
            evict.append("right" if last in (None, True) else "left" if last is False else "?")
        elif f.attr in ("pop", "__delitem__"):
            evict.append("?")
    ctx.check(bool(refresh) and all(r == insertion for r in refresh), "R10.2", u, "move_to_end",
              "a hit moves the entry to the insertion end (most recently used)", witness=f"refresh ends: {refresh}")
    ctx.check(bool(evict) and all(e == "left" for e in evict), "R10.2", u, "popitem",
              "eviction removes from the end opposite to insertion (least recently used)",
              witness=f"eviction ends: {evict}; insertion end: {insertion}")
    # every hit path refreshes
    for path in call_paths(cfg):
        kind, ret = c11.path_kind(lc, path)
        if kind == "hit":
            moved = any(n.kind == "call" and isinstance(n.ast.func, ast.Attribute)  # type: ignore[union-attr]
                        and n.ast.func.attr == "move_to_end" for n, _l in path)  # type: ignore[union-attr]
            ctx.check(moved, "R10.2", u, ret or "__call__", "every hit path refreshes the entry's recency", node=ret)


def _last_arg(call: ast.Call):
    for kw in call.keywords:
        if kw.arg == "last":
            return kw.value.value if isinstance(kw.value, ast.Constant) else "?"
    idx = 1 if norm(call.func).endswith("move_to_end") else 0
    if len(call.args) > idx:
        a = call.args[idx]
        return a.value if isinstance(a, ast.Constant) else "?"
    return None


# --------------------------------------------------------------------------- R10.10
def r10_10(ctx, lc: LruClass, rid: str = "R10.10") -> None:
    """cache_info reports the state at the time of the query.  If it keeps anything between queries (a memoised report in a
    field), then every operation that changes a counter or the store drops it before anybody can ask again: between the
    change and the next suspension point / return - or between the previous one and the change - lies a reset of the field."""
    ci = lc.info.methods["cache_info"]
    kept = set()
    for n in cfg_of(ci).nodes:
        if n.kind == "store" and not n.tag:
            for t in n.info.get("targets", []):
                for x in ([t] + (list(t.elts) if isinstance(t, ast.Tuple) else [])):
                    if isinstance(x, ast.Attribute) and isinstance(x.value, ast.Name) and x.value.id == "self":
                        kept.add(x.attr)
    ctx.count("cache_info_kept_fields", len(kept))
    if not kept:
        ctx.ok(rid, ci, "cache_info keeps nothing between queries: every report is built from the counters and the store at that moment")
        return
    for mname, m in sorted(lc.info.methods.items()):
        if mname in ("cache_info", "__init__"):
            continue
        v = ctx.inlined(m)
        cfg = cfg_of(v)
        main = [n for n in cfg.nodes if not n.tag]
        for fld in sorted(kept):
            resets = {n for n in cfg.nodes if (n.kind == "store" and any(lc.is_self_attr(t, fld) for t in n.info.get("targets", [])))
                      or (n.kind == "del" and any(lc.is_self_attr(t, fld) for t in n.info.get("targets", [])))}
            stops = [n for n in cfg.nodes if n.kind in ("await", "yield", "pull", "enter", "exit_cm")]
            for mut in main:
                if lc.counter_inc(mut) is None and not lc.cache_store(mut) and lc.cache_evict(mut) is None:
                    continue
                ctx.count("report_inputs_changed")
                after = find_path(mut, lambda x: x is cfg.exit or x in stops, avoid=lambda x: x in resets,
                                  edge_ok=lambda a, lab, b: lab not in ("e", "p"))
                before = None
                if after is not None:
                    # (a change may sit in a handler - the miss path runs in ``except KeyError`` -: every edge counts here)
                    before = next((p_ for p_ in (find_path(s0, lambda x: x is mut, avoid=lambda x: x in resets)
                                                 for s0 in [cfg.entry] + stops) if p_ is not None), None)
                ctx.check(after is None or before is None, rid, m, mut,
                          f"cache_info keeps a report in `self.{fld}` between queries; `{norm(mut.ast)[:60]}` changes what it was "
                          "computed from, and the kept report is dropped before anybody can ask again", node=mut,
                          witness=pretty_path(after))


# --------------------------------------------------------------------------- R10.3
def r10_3(ctx, lc: LruClass) -> None:
    clear = lc.info.methods["cache_clear"]
    resets = set()
    emptied = False
    for n in own_nodes(clear.node):
        if isinstance(n, ast.Assign):
            for t in n.targets:
                for fld in (lc.hits, lc.misses):
                    if lc.is_self_attr(t, fld) and isinstance(n.value, ast.Constant) and n.value.value == 0:
                        resets.add(fld)
                if lc.is_self_attr(t, lc.cache):
                    emptied = True
        if isinstance(n, ast.Call) and isinstance(n.func, ast.Attribute) and n.func.attr == "clear" \
                and lc.is_self_attr(n.func.value, lc.cache):
            emptied = True
    want = {f for f in (lc.hits, lc.misses) if f}
    ctx.check(resets == want, "R10.3", clear, "cache_clear", f"cache_clear resets every counter {sorted(want)} to 0",
              witness=f"reset: {sorted(resets)}")
    if lc.cache:
        ctx.check(emptied, "R10.3", clear, "cache_clear", "cache_clear empties the store")
    # ... on every path: no early return (say, "nothing stored, nothing to do") may skip a reset — calls that failed
    # or whose entries were discarded have been counted although the store is empty
    ccfg = cfg_of(ctx.inlined(clear))
    for fld in sorted(want):
        zeroing = [n for n in ccfg.nodes if n.kind == "store" and not n.tag and isinstance(n.info.get("value"), ast.Constant)
                   and n.info["value"].value == 0 and any(lc.is_self_attr(t, fld) for t in n.info.get("targets", []))]
        path = find_path(ccfg.entry, lambda x: x is ccfg.exit, avoid=lambda x: x in zeroing,
                         edge_ok=lambda a, lab, b: lab not in ("e", "p")) if zeroing else None
        ctx.check(path is None, "R10.3", clear, "cache_clear", f"cache_clear resets `{fld}` on every path",
                  witness=pretty_path(path))
    # cache_info field order
    fields = lc.cacheinfo_fields()
    ctx.check(fields[:4] == ["hits", "misses", "maxsize", "currsize"], "R10.3", "_lrucache.CacheInfo", "CacheInfo",
              "CacheInfo fields are (hits, misses, maxsize, currsize) like the stdlib", witness=str(fields))
    info = lc.info_by_field
    if lc.kind == "uncached":
        ok = norm(info.get("hits")) == "0" and lc.misses is not None and norm(info.get("maxsize")) == "0" \
            and norm(info.get("currsize")) == "0"
        ctx.check(ok, "R10.3", lc.info.methods["cache_info"], "cache_info",
                  "disabled cache reports hits 0, its miss counter, maxsize 0, currsize 0")
    else:
        ok = lc.hits is not None and lc.misses is not None and lc.cache is not None and lc.hits != lc.misses
        if lc.kind == "memoized":
            ok = ok and norm(info.get("maxsize")) == "None"
        else:
            ok = ok and lc.maxsize is not None and _field_from_param(lc, lc.maxsize, "maxsize")
        ctx.check(bool(ok), "R10.3", lc.info.methods["cache_info"], "cache_info",
                  "cache_info reports (hit counter, miss counter, maxsize, len(store)) in field order",
                  witness={k: norm(v) for k, v in info.items()}.__repr__())
    params = lc.info.methods["cache_parameters"]
    # (the mapping may be built as ``CacheParameters(maxsize=.., typed=..)``, ``dict(..)`` or a dict display, possibly named first)
    from .common import inline_locals
    pcfg = cfg_of(params)
    reported = []
    for r in [n for n in pcfg.nodes if n.kind == "return" and not n.tag]:
        val = r.info.get("value")
        val = inline_locals(ctx, params, pcfg, r, val, depth=1) if val is not None else None
        if isinstance(val, ast.Call) and norm(val.func).split(".")[-1] in ("CacheParameters", "dict") and not val.args:
            reported.append({k.arg: k.value for k in val.keywords})
        elif isinstance(val, ast.Dict) and all(isinstance(k, ast.Constant) for k in val.keys):
            reported.append({k.value: v for k, v in zip(val.keys, val.values)})
        else:
            reported.append({})
    ok = len(reported) == 1 and set(reported[0]) == {"maxsize", "typed"} \
        and norm(reported[0]["maxsize"]) == norm(info.get("maxsize")) and isinstance(reported[0]["typed"], ast.Attribute)
    ctx.check(ok, "R10.3", params, "cache_parameters", "cache_parameters reports the same maxsize as cache_info and the typed flag")


def r10_8(ctx, classes) -> None:
    """functools.lru_cache caches every result, None included.  Whether a call is a hit is a question about the key
    (``cache[key]`` with KeyError, ``key in cache``) - a lookup that hands back a stand-in for "absent" which a cached
    result could be identical with (``cache.get(key)`` is None for a miss *and* for a cached None) is not."""
    ctx.rule("R10.8", "hit or miss is decided by the presence of the key, never by comparing the looked-up value with something a "
                      "cached result could be (None / a constant)")
    for kind, lc in classes.items():
        if lc.cache is None:
            continue
        u = ctx.inlined(lc.call)
        bad = 0
        for n in own_nodes(u.node):
            if not (isinstance(n, ast.Call) and isinstance(n.func, ast.Attribute) and n.func.attr in ("get", "pop", "setdefault")
                    and lc.is_self_attr(n.func.value, lc.cache)):
                continue
            default = n.args[1] if len(n.args) > 1 else next((k.value for k in n.keywords if k.arg == "default"), None)
            private = False
            if isinstance(default, (ast.Name, ast.Attribute)):
                v = ctx.vals.expr(u, default, None)
                private = bool(v) and all(a[0] == "sentinel" for a in v)
            if not private:
                bad += 1
                ctx.fail("R10.8", u, n, f"`{norm(n)}` answers a miss with {norm(default) if default is not None else 'None'}, which is "
                         "also what a cached call may have returned: that entry is never a hit", line=n.lineno)
        if not bad:
            ctx.ok("R10.8", u, f"[{kind}] hits are decided by key presence")


def _key_signature(lc: LruClass, m, depth: int = 0):
    """([positional args text], typed text) of the CallKey.from_call invocation that builds
    the key in method ``m`` — directly, or through one private helper method of the class."""
    calls = [n for n in own_nodes(m.node) if isinstance(n, ast.Call) and norm(n.func).endswith("from_call")]
    if len(calls) == 1:
        c = calls[0]
        pos = [norm(a) for a in c.args]
        kws = {k.arg: norm(k.value) for k in c.keywords}
        return (pos[:2], kws.get("typed") or (pos[2] if len(pos) > 2 else None))
    # ... or from the module-level function from_call itself hands its (args, kwds, typed) to
    pkg = lc.info.module.pkg
    fc = pkg.unit("_lrucache.CallKey.from_call")
    fparams = fc.param_names()
    for d in own_nodes(fc.node):
        if not (isinstance(d, ast.Call) and isinstance(d.func, ast.Name) and not d.keywords and len(fparams) >= 4):
            continue
        r = pkg.resolve_expr_global(fc.module, d.func)
        names = [norm(a) for a in d.args]
        if r.kind != "lib" or not all(p_ in names for p_ in fparams[1:4]):
            continue
        ia, ik, it_ = (names.index(p_) for p_ in fparams[1:4])
        calls = [n for n in own_nodes(m.node) if isinstance(n, ast.Call) and isinstance(n.func, ast.Name)
                 and pkg.resolve_expr_global(m.module, n.func).node is r.node and not n.keywords and len(n.args) > max(ia, ik, it_)]
        if len(calls) == 1:
            pos = [norm(a) for a in calls[0].args]
            return ([pos[ia], pos[ik]], pos[it_])
    if depth == 0:
        for n in own_nodes(m.node):
            if isinstance(n, ast.Call) and isinstance(n.func, ast.Attribute) and norm(n.func.value) == "self":
                helper = lc.info.methods.get(n.func.attr) or lc.info.methods.get(lc.info.mangle(n.func.attr))
                if helper is None:
                    for name, cand in lc.info.methods.items():
                        if name == n.func.attr:
                            helper = cand
                if helper is not None and helper.kind == "sync":
                    sub = _key_signature(lc, helper, 1)
                    if sub is not None:
                        params = helper.param_names()[1:]
                        mapping = dict(zip(params, [norm(a) for a in n.args]))
                        return ([mapping.get(x, x) for x in sub[0]], sub[1])
    return None


def _field_from_param(lc: LruClass, fld: str, pname: str) -> bool:
    held = lc.field_inits().get(fld)
    return isinstance(held, ast.Name) and held.id == pname


# --------------------------------------------------------------------------- R10.4
class _MaxsizeOps:
    """Abstract domain of the ``maxsize`` argument: NONE, NEG, ZERO, POS, CALLABLE, OTHER
    (plus concrete ints produced by the normalisation itself)."""

    INTS = {"NEG": (None, -1), "ZERO": (0, 0), "POS": (1, None)}

    @classmethod
    def interval(cls, v):
        if isinstance(v, bool):
            return None
        if isinstance(v, int):
            return (v, v)
        return cls.INTS.get(v)

    def compare(self, op, left, right, env=None):
        if op in ("Is", "IsNot"):
            if left is None or right is None:
                other = right if left is None else left
                is_none = other == "NONE" or other is None
                return is_none if op == "Is" else not is_none
            return UNKNOWN
        li, ri = self.interval(left), self.interval(right)
        if li is None or ri is None:
            if op in ("Eq", "NotEq") and (left in ("NONE", "CALLABLE", "OTHER") or right in ("NONE", "CALLABLE", "OTHER")):
                return op == "NotEq"
            return UNKNOWN
        (a, b), (c, d) = li, ri
        inf = float("inf")
        a = -inf if a is None else a
        b = inf if b is None else b
        c = -inf if c is None else c
        d = inf if d is None else d
        table = {
            "Lt": (b < c, a >= d), "LtE": (b <= c, a > d), "Gt": (a > d, b <= c), "GtE": (a >= d, b < c),
            "Eq": (a == b == c == d, b < c or a > d), "NotEq": (b < c or a > d, a == b == c == d),
        }
        if op not in table:
            return UNKNOWN
        yes, no = table[op]
        return True if yes else False if no else UNKNOWN

    def truth(self, v, env=None):
        if v in ("NONE", "ZERO"):
            return False
        if v in ("NEG", "POS", "CALLABLE"):
            return True
        return UNKNOWN

    def call(self, func, args, kwargs, node, env=None):
        if func == "isinstance" and len(args) == 2 and len(node.args) == 2 and norm(node.args[1]) == "int":
            v = args[0]
            if v is UNKNOWN:
                return UNKNOWN
            return self.interval(v) is not None
        if func == "callable" and args:
            return UNKNOWN if args[0] is UNKNOWN else args[0] == "CALLABLE"
        if func == "cast" and len(args) == 2:
            return args[1]
        return UNKNOWN

    def neg(self, v):
        return -v if isinstance(v, int) and not isinstance(v, bool) else UNKNOWN


def r10_4(ctx) -> None:
    u = ctx.unit("_lrucache.lru_cache")
    facts = stdlib_facts()
    dflt = _param_defaults(u.node).get("maxsize")
    ctx.check(isinstance(dflt, ast.Constant) and dflt.value == facts["maxsize_default"], "R10.4", u,
              dflt if dflt is not None else "lru_cache", f"default maxsize equals the stdlib's {facts['maxsize_default']}")
    nested = [x for x in u.module.units.values() if x.parent is u and x.kind == "sync" and not x.is_overload()]
    ev = AbsEval(_MaxsizeOps())
    wrappers = {ctx.pkg.cls(v).fq: k for k, v in CLASSES.items()}
    expect = {
        "NONE": ("memoized", None), "NEG": ("uncached", None), "ZERO": ("uncached", None),
        "POS": ("cached", "POS"), "CALLABLE": ("cached", facts["maxsize_default"]), "OTHER": ("raise", None),
    }
    table = {}
    for cls_name, (want_kind, want_max) in expect.items():
        ctx.count("maxsize_classes")
        outcomes = _front_end(ctx, u, nested, ev, cls_name, wrappers)
        table[cls_name] = sorted({f"{k}({m})" for k, m in outcomes})
        got_kinds = {k for k, _m in outcomes}
        ok = got_kinds == {want_kind}
        if ok and want_max is not None:
            ok = all(m == want_max for _k, m in outcomes)
        ctx.check(ok, "R10.4", u, f"maxsize class {cls_name}",
                  f"maxsize {cls_name} -> {want_kind}" + (f"(maxsize={want_max})" if want_max is not None else ""),
                  witness=f"front-end evaluates to {table[cls_name]}")
    ctx.tables["maxsize normalisation"] = table
    # functools.cache == lru_cache(maxsize=None)
    cu = ctx.unit("functools.cache")
    calls = [n for n in own_nodes(cu.node) if isinstance(n, ast.Call) and norm(n.func) == "lru_cache"]
    ok = len(calls) == 1 and ({k.arg: norm(k.value) for k in calls[0].keywords}.get("maxsize") == "None"
                              or (calls[0].args and norm(calls[0].args[0]) == "None"))
    ctx.check(bool(ok), "R10.4", cu, calls[0] if calls else "cache", "cache() is lru_cache(maxsize=None): unbounded")
    # the disabled cache reports maxsize 0 (negative is normalised)
    unc = LruClass(ctx, "uncached")
    ctx.check(norm(unc.info_by_field.get("maxsize")) == "0", "R10.4", unc.info.methods["cache_info"], "cache_info",
              "a disabled cache reports maxsize 0 like the stdlib")


def _front_end(ctx, u, nested, ev: AbsEval, cls_name: str, wrappers) -> List[Tuple[str, Any]]:
    """Abstractly run lru_cache(maxsize=<class>) and, if it returns the inner decorator,
    the decorator; returns the (wrapper kind, maxsize argument) pairs constructed — wherever
    the construction happens (inline, in the nested decorator or in a private helper)."""
    from .common import make_resolver
    out: List[Tuple[str, Any]] = []
    module = u.module

    class _FrontOps(type(ev.ops)):
        def visit(self, node, env, ev2):
            if node.kind != "call":
                return
            r = ctx.pkg.resolve_expr_global(module, node.ast.func)
            if r.kind == "lib" and r.qual in wrappers:
                call = node.ast
                mx = ev2.eval(call.args[2], env) if len(call.args) >= 3 else None
                for kw in call.keywords:
                    if kw.arg == "maxsize":
                        mx = ev2.eval(kw.value, env)
                env["@made"] = env.get("@made", ()) + ((wrappers[r.qual], mx),)

    ops = _FrontOps()
    cfg = cfg_of(u)
    for oc in absint.Machine(cfg, ops, resolver=make_resolver(ctx, u, ops)).run({"maxsize": cls_name, "typed": "TYPED"}):
        path, env, term = oc.path, oc.env, oc.terminal
        if term.kind == "raise_exit":
            out.append(("raise", None))
            continue
        ret = [n for n in path if n.kind == "return"]
        rv = ret[-1].info.get("value") if ret else None
        if isinstance(rv, ast.Name) and any(x.qualname.endswith("." + rv.id) for x in nested):
            inner = [x for x in nested if x.qualname.endswith("." + rv.id)][0]
            for oc2 in absint.Machine(cfg_of(inner), ops, resolver=make_resolver(ctx, inner, ops)).run(dict(env, function="FUNCTION")):
                if oc2.terminal.kind == "raise_exit":
                    out.append(("raise", None))
                    continue
                out.extend(list(oc2.env.get("@made", ())) or [("nothing", None)])
        else:
            out.extend(list(env.get("@made", ())) or [("nothing", None)])
    return out


# --------------------------------------------------------------------------- R10.5
def r10_5(ctx, classes: Dict[str, LruClass]) -> None:
    for kind in ("memoized", "cached"):
        lc = classes[kind]
        keys = {}
        for mname in ("__call__", "cache_discard"):
            m = ctx.inlined(lc.info.methods[mname])  # the key may be built in a private helper
            va = m.node.args.vararg.arg if m.node.args.vararg else None
            kw = m.node.args.kwarg.arg if m.node.args.kwarg else None
            sig = _key_signature(lc, m)
            ok = sig is not None and va is not None and kw is not None and sig[0] == [va, kw] \
                and sig[1] is not None and sig[1].startswith("self.")
            keys[mname] = sig
            ctx.check(bool(ok), "R10.5", m, mname,
                      f"{mname} builds its key from its own (*args, **kwargs, typed flag)", witness=str(sig))
        ctx.check(keys["__call__"] == keys["cache_discard"] and keys["__call__"] is not None, "R10.5",
                  lc.info.methods["cache_discard"], "cache_discard",
                  "cache_discard and __call__ construct the key identically", witness=str(keys))
        d = ctx.inlined(lc.info.methods["cache_discard"])
        pops = [n for n in own_nodes(d.node) if isinstance(n, ast.Call) and isinstance(n.func, ast.Attribute)
                and n.func.attr in ("pop",) and lc.is_self_attr(n.func.value, lc.cache)]
        ok = len(pops) == 1 and len(pops[0].args) == 2 and norm(pops[0].args[0]).find("from_call") >= 0 or \
            (len(pops) == 1 and len(pops[0].args) == 2)
        ctx.check(ok, "R10.5", d, "cache_discard", "cache_discard removes exactly the entry of that key (pop with default)")
    # bound wrapper
    b = ctx.pkg.cls("_lrucache.LRUAsyncBoundCallable")
    sigs = {}
    binit = b.methods.get("__init__")
    bfields = {}
    if binit is not None:
        bp = binit.param_names()
        for st in own_nodes(binit.node):
            tg = st.targets[0] if isinstance(st, ast.Assign) else st.target if isinstance(st, ast.AnnAssign) else None
            val = getattr(st, "value", None)
            if isinstance(tg, ast.Attribute) and norm(tg.value) == "self" and isinstance(val, ast.Name) and val.id in bp[1:3]:
                bfields["lru" if val.id == bp[1] else "self"] = tg.attr
    if set(bfields) != {"lru", "self"}:
        raise AnalysisError(f"LRUAsyncBoundCallable.__init__ does not store (cache object, instance): {bfields} (anchor moved)")
    F_LRU, F_SELF = bfields["lru"], bfields["self"]
    for mname, attr in (("__call__", None), ("cache_discard", "cache_discard")):
        m = b.methods.get(mname)
        if m is None:
            raise AnalysisError(f"LRUAsyncBoundCallable.{mname} missing (anchor moved)")
        from .common import inline_locals
        mcfg = cfg_of(m)

        def callee_text(call) -> str:
            # (the callee may be bound to a local first: ``discard = self._lru.cache_discard``)
            at = next((x for x in mcfg.nodes if x.ast is not None and not x.tag and any(y is call for y in ast.walk(x.ast))), None)
            return norm(inline_locals(ctx, m, mcfg, at, call.func)) if at is not None else norm(call.func)
        calls = [n for n in own_nodes(m.node) if isinstance(n, ast.Call) and
                 (callee_text(n) == f"self.{F_LRU}" if attr is None else callee_text(n) == f"self.{F_LRU}.{attr}")]
        sig = [norm(a) for a in calls[0].args] + [f"**{norm(k.value)}" for k in calls[0].keywords if k.arg is None] if calls else None
        sigs[mname] = sig
        ctx.check(bool(sig) and sig[0] == f"self.{F_SELF}", "R10.5", m, mname,
                  f"bound {mname} prepends the instance to the call pattern", witness=str(sig))
    ctx.check(sigs["__call__"] == sigs["cache_discard"], "R10.5", b.methods["cache_discard"], "cache_discard",
              "bound __call__ and cache_discard forward identical argument patterns (one shared store and key space)",
              witness=str(sigs))
    g = ctx.pkg.cls("_lrucache.LRUAsyncCallable").methods.get("__get__")
    ok = g is not None and any(isinstance(n, ast.Call) and norm(n.func) == "LRUAsyncBoundCallable"
                               and [norm(a) for a in n.args] == ["self", "instance"] for n in own_nodes(g.node))
    ctx.check(ok, "R10.5", g or "LRUAsyncCallable.__get__", "__get__",
              "descriptor binding wraps the same cache object with the instance (shared store and statistics)")
