"""C16 — groupby matches itertools.groupby under every consumption pattern (necessary clauses).

R16.1 a stale group yields nothing: in ``_Grouper.__anext__`` every node that steps or
      consumes the shared cursor is reachable only through the "I am the live group" edge
      of the liveness test.
R16.2 advancing invalidates the live group first: in ``GroupBy.__anext__`` the shared
      ``current_group`` is cleared before the first suspension point, and on every normal
      exit it refers to the very group being returned.
R16.3 only within its key / skipped items are discarded, never leaked: the group's consume
      is guarded by equality of its target key with the cursor key; the parent's scan loop
      steps while the cursor key equals the previous target key; ``consume_value`` swaps the
      item with the sentinel (an item is handed out once); ``maybe_step`` steps only when
      no unconsumed item is held; ``step`` publishes item and key together after its last
      suspension point.
R16.4 comparison discipline: user keys are compared only with == / != ; identity tests
      involve only library sentinels, ``self``, ``None`` and library objects.
"""
from __future__ import annotations

import ast
from typing import List, Set

from asl.cfg import Node, cfg_of
from asl.flow import find_path, pretty_path, reachable
from asl.loader import AnalysisError, norm, own_nodes

LEVEL = {
    "decided": "C16 (necessary clauses): (R16.1) a group that is no longer live cannot touch the shared cursor; (R16.2) "
               "advancing the groupby clears the live group before it first suspends and installs the returned group; "
               "(R16.3) groups consume only items of their key, the parent discards the rest of the previous run, an item "
               "is handed out at most once, an unconsumed item is never overwritten, item and key are published together; "
               "(R16.4) keys are compared by equality only.",
    "not_decided": "equality with itertools.groupby over whole operation histories (the stdlib sibling is C code; a "
                   "history-level argument needs state exploration).",
    "technique": "static analysis: dominance of liveness/key tests, invalidate-before-await, comparison discipline",
}

KEY_NAMES = {"_target_key", "current_key", "target_key"}


def run(ctx) -> None:
    for rid, text in (("R16.1", "liveness test dominates every cursor use in the group"),
                      ("R16.2", "advance clears the live group before the first await and installs the returned group"),
                      ("R16.3", "key-guarded consume, scan loop, swap-with-sentinel, guarded step, joint publish"),
                      ("R16.4", "keys compared with ==/!= only; identity only on library objects")):
        ctx.rule(rid, text)
    for m in ("itertools._Grouper.__anext__", "itertools.GroupBy.__anext__", "itertools._GroupByState.step",
              "itertools._GroupByState.maybe_step", "itertools._GroupByState.consume_value"):
        ctx.unit(m)
    r16_1_3_group(ctx)
    r16_2(ctx)
    r16_3_state(ctx)
    r16_4(ctx)


def _is_state_expr(e: ast.AST) -> bool:
    return isinstance(e, ast.Name) and e.id == "state" or norm(e) == "self._state"


def r16_1_3_group(ctx) -> None:
    u = ctx.unit("itertools._Grouper.__anext__")
    cfg = cfg_of(u)
    main = [n for n in cfg.nodes if not n.tag]
    live_tests = [n for n in main if n.kind == "branch" and isinstance(n.ast, ast.Compare) and len(n.ast.ops) == 1
                  and isinstance(n.ast.ops[0], (ast.Is, ast.IsNot)) and "current_group" in norm(n.ast)
                  and any(isinstance(x, ast.Name) and x.id == "self" for x in (n.ast.left, n.ast.comparators[0]))]
    ctx.check(len(live_tests) >= 1, "R16.1", u, "__anext__", "the group tests whether it is still the live group")
    cursor = [n for n in main if (n.kind == "await" and any(a[0] == "libcoro" and "_GroupByState" in a[1]
                                                            for a in ctx.vals.expr(u, n.info.get("value"), n)))
              or (n.kind == "call" and isinstance(n.ast.func, ast.Attribute) and n.ast.func.attr in ("consume_value", "step", "maybe_step"))  # type: ignore[union-attr]
              or (n.kind == "attr" and n.ast.attr in ("current_key", "_current_value"))]  # type: ignore[union-attr]
    ctx.count("cursor_uses", len(cursor))

    def live_edge(t: Node) -> str:
        return "t" if isinstance(t.ast.ops[0], ast.Is) else "f"  # type: ignore[union-attr]

    for c in cursor:
        path = find_path(cfg.entry, lambda x: x is c, avoid=None,
                         edge_ok=lambda a, lab, b: lab not in ("e", "p") and not (a in live_tests and lab == live_edge(a)))
        ctx.check(path is None, "R16.1", u, c, "the shared cursor is touched only by the live group (a stale group "
                  "raises StopAsyncIteration first)", node=c, witness=pretty_path(path))
    # stale -> StopAsyncIteration
    for t in live_tests:
        stale = [s for (lab, s) in t.succ if lab != live_edge(t) and lab in ("t", "f")]
        seg = reachable(stale, edge_ok=lambda a, lab, b: lab not in ("e", "p"))
        rs = [n for n in seg if n.kind == "raise"]
        ok = bool(rs) and all("StopAsyncIteration" in norm(r.ast) for r in rs) and not any(n.kind in ("await", "return") for n in seg)
        ctx.check(ok, "R16.1", u, t, "a stale group ends immediately with StopAsyncIteration", node=t)
    # R16.3: consume guarded by key equality
    consumes = [n for n in main if n.kind == "call" and isinstance(n.ast.func, ast.Attribute) and n.ast.func.attr == "consume_value"]  # type: ignore[union-attr]
    key_tests = [n for n in main if n.kind == "branch" and isinstance(n.ast, ast.Compare) and len(n.ast.ops) == 1
                 and isinstance(n.ast.ops[0], (ast.Eq, ast.NotEq)) and "_target_key" in norm(n.ast) and "current_key" in norm(n.ast)]
    ctx.check(bool(consumes) and bool(key_tests), "R16.3", u, "__anext__", "the group compares its key with the cursor's key before consuming")

    def same_edge(t: Node) -> str:
        return "t" if isinstance(t.ast.ops[0], ast.Eq) else "f"  # type: ignore[union-attr]

    for c in consumes:
        path = find_path(cfg.entry, lambda x: x is c, avoid=None,
                         edge_ok=lambda a, lab, b: lab not in ("e", "p") and not (a in key_tests and lab == same_edge(a)))
        ctx.check(path is None, "R16.3", u, c, "an item is consumed only if its key equals the group's key", node=c,
                  witness=pretty_path(path))
        # the key test comes after the (possible) step, with no suspension before the consume
        for t in key_tests:
            seg = reachable([s for (lab, s) in t.succ if lab == same_edge(t)], stop=lambda x: x is c,
                            edge_ok=lambda a, lab, b: lab not in ("e", "p"))
            sus = [n for n in seg if n.kind in ("await", "yield", "pull") and n is not c]
            ctx.check(not sus, "R16.3", u, sus[0] if sus else c,
                      "no suspension point between the key test and taking the item", node=c)
    for t in key_tests:
        other = [s for (lab, s) in t.succ if lab != same_edge(t) and lab in ("t", "f")]
        seg = reachable(other, edge_ok=lambda a, lab, b: lab not in ("e", "p"))
        rs = [n for n in seg if n.kind == "raise"]
        leaks = [n for n in seg if n in consumes or n.kind == "return"]
        ctx.check(bool(rs) and not leaks, "R16.3", u, t, "an item of another key ends the group and stays with the cursor", node=t)


def r16_2(ctx) -> None:
    u = ctx.unit("itertools.GroupBy.__anext__")
    cfg = cfg_of(u)
    main = [n for n in cfg.nodes if not n.tag]
    stores = [n for n in main if n.kind == "store" and any(
        isinstance(t, ast.Attribute) and t.attr == "current_group" for tt in n.info.get("targets", [])
        for t in ([tt] + (list(tt.elts) if isinstance(tt, ast.Tuple) else [])))]
    awaits = [n for n in main if n.kind == "await"]
    clears = [s for s in stores if isinstance(s.info.get("value"), ast.Constant) and s.info["value"].value is None]
    ctx.check(bool(clears), "R16.2", u, "__anext__", "advancing clears the shared live-group reference")
    for a in awaits:
        path = find_path(cfg.entry, lambda x: x is a, avoid=lambda x: x in clears,
                         edge_ok=lambda p, lab, b: lab not in ("e", "p"))
        ctx.check(path is None, "R16.2", u, a, "the live group is invalidated before the first suspension point of the "
                  "advance (a group advanced meanwhile already sees itself as stale)", node=a, witness=pretty_path(path))
    rets = [n for n in main if n.kind == "return"]
    for r in rets:
        val = r.info.get("value")
        gname = val.elts[1].id if isinstance(val, ast.Tuple) and len(val.elts) == 2 and isinstance(val.elts[1], ast.Name) else None
        ctx.check(gname is not None, "R16.2", u, r, "the advance returns (key, group)", node=r)
        if gname is None:
            continue
        installs = [s for s in stores if gname in [x.id for t in s.info["targets"] for x in ast.walk(t) if isinstance(x, ast.Name)]
                    or (isinstance(s.info.get("value"), ast.Name) and s.info["value"].id == gname)]
        ok = bool(installs)
        if ok:
            last = installs[-1]
            after = reachable([x for (lab, x) in last.succ if lab == "n"], stop=lambda x: x is r,
                              edge_ok=lambda p, lab, b: lab not in ("e", "p"))
            ok = r in after and not any(n in stores and n is not last for n in after) and \
                not any(n.kind == "await" for n in after)
        ctx.check(ok, "R16.2", u, r, "on return the shared live-group reference is the group being returned, "
                  "installed after the last suspension point", node=r)
        key = val.elts[0]
        made = [c for c in own_nodes(u.node) if isinstance(c, ast.Call) and norm(c.func) == "_Grouper"]
        ctx.check(len(made) == 1 and norm(made[0].args[0]) == norm(key) and _is_state_expr(made[0].args[1]), "R16.2", u,
                  made[0] if made else r, "the returned group is bound to the returned key and the shared state")
    # scan loop (R16.3)
    loops = [n for n in own_nodes(u.node) if isinstance(n, ast.While)]
    ok = len(loops) == 1 and isinstance(loops[0].test, ast.Compare) and isinstance(loops[0].test.ops[0], ast.Eq) \
        and "current_key" in norm(loops[0].test) and "target_key" in norm(loops[0].test) \
        and any(isinstance(x, ast.Await) and norm(x.value).endswith(".step()") for b in loops[0].body for x in ast.walk(b))
    ctx.check(ok, "R16.3", u, loops[0] if loops else "__anext__", "the advance skips (steps over) the rest of the "
              "previous run: while the cursor key equals the previous target key")
    tstores = [n for n in main if n.kind == "store" and any(
        isinstance(x, ast.Attribute) and x.attr == "target_key" and isinstance(x.ctx, ast.Store)
        for t in n.info.get("targets", []) for x in ast.walk(t))]
    scan_tests = [n for n in main if n.kind == "branch" and isinstance(n.ast, ast.Compare) and len(n.ast.ops) == 1
                  and isinstance(n.ast.ops[0], (ast.Eq, ast.NotEq)) and "current_key" in norm(n.ast)
                  and "target_key" in norm(n.ast) and any(k == "loop" for (k, _a) in n.regions)]
    no_target = [n for n in main if n.kind == "handler" and "AttributeError" in norm(n.info.get("type"))]

    def scan_exit(t) -> str:
        return "f" if isinstance(t.ast.ops[0], ast.Eq) else "t"

    for ts in tstores:
        path = find_path(cfg.entry, lambda x: x is ts, avoid=lambda x: x in no_target,
                         edge_ok=lambda a, lab, b: lab not in ("p",) and (lab != "e" or a.kind == "attr")
                         and not (a in scan_tests and lab == scan_exit(a)))
        ctx.check(path is None, "R16.3", u, ts, "a new group starts only after the scan found a key different from the "
                  "previous target key (or there is no previous group): the unread rest of a partly consumed run is "
                  "never re-issued as a new group", node=ts, witness=pretty_path(path))
    ok = len(tstores) == 1 and "current_key" in norm(tstores[0].info.get("value"))
    ctx.check(ok, "R16.3", u, tstores[0] if tstores else "__anext__", "the new target key is the key of the first item of the new run")


def r16_3_state(ctx) -> None:
    cv = ctx.unit("itertools._GroupByState.consume_value")
    swaps = [s for s in own_nodes(cv.node) if isinstance(s, ast.Assign) and isinstance(s.targets[0], ast.Tuple)]
    ok = len(swaps) == 1 and [norm(e) for e in swaps[0].value.elts] == ["self._current_value", "self._sentinel"] \
        and norm(swaps[0].targets[0].elts[1]) == "self._current_value"
    rets = [n for n in own_nodes(cv.node) if isinstance(n, ast.Return)]
    ok = ok and len(rets) == 1 and norm(rets[0].value) == norm(swaps[0].targets[0].elts[0])
    ctx.check(ok, "R16.3", cv, "consume_value", "taking the item replaces it by the sentinel (an item is handed out once)")
    ms = ctx.unit("itertools._GroupByState.maybe_step")
    cfg = cfg_of(ms)
    steps = [n for n in cfg.nodes if n.kind == "await" and not n.tag]
    tests = [n for n in cfg.nodes if n.kind == "branch" and isinstance(n.ast, ast.Compare) and isinstance(n.ast.ops[0], (ast.Is, ast.IsNot))
             and "_current_value" in norm(n.ast) and "_sentinel" in norm(n.ast)]
    ok = len(steps) == 1 and len(tests) == 1
    if ok:
        t = tests[0]
        empty_edge = "t" if isinstance(t.ast.ops[0], ast.Is) else "f"  # type: ignore[union-attr]
        path = find_path(cfg.entry, lambda x: x is steps[0], edge_ok=lambda a, lab, b: lab not in ("e", "p") and not (a is t and lab == empty_edge))
        ok = path is None
    ctx.check(ok, "R16.3", ms, "maybe_step", "the cursor advances only when no unconsumed item is held (an item is never overwritten)")
    st = ctx.unit("itertools._GroupByState.step")
    cfg = cfg_of(st)
    awaits = [n for n in cfg.nodes if n.kind == "await" and not n.tag]
    pubs = [n for n in cfg.nodes if n.kind == "store" and not n.tag and any(
        isinstance(x, ast.Attribute) and x.attr in ("_current_value", "current_key")
        for t in n.info.get("targets", []) for x in ast.walk(t))]
    ok = len(awaits) == 2 and len(pubs) == 1
    if ok:
        after = reachable([x for (lab, x) in pubs[0].succ if lab == "n"], edge_ok=lambda a, lab, b: lab not in ("e", "p"))
        ok = not any(n.kind == "await" for n in after)
        attrs = {x.attr for t in pubs[0].info["targets"] for x in ast.walk(t) if isinstance(x, ast.Attribute)}
        ok = ok and {"_current_value", "current_key"} <= attrs
    ctx.check(ok, "R16.3", st, pubs[0] if pubs else "step", "item and key are published together after the key function "
              "has returned (no state in which the cursor holds an item with a stale key)")
    order = [norm(a.info.get("value")) for a in awaits]
    ctx.check(len(order) == 2 and "anext" in order[0] and "_key_func" in order[1], "R16.3", st, "step",
              "the key function is applied to the freshly pulled item", witness=str(order))


def r16_4(ctx) -> None:
    for short in ("itertools._Grouper", "itertools.GroupBy", "itertools._GroupByState"):
        info = ctx.pkg.cls(short)
        for m in info.methods.values():
            for c in own_nodes(m.node):
                if not isinstance(c, ast.Compare):
                    continue
                ctx.count("comparisons")
                text = norm(c)
                operands = [c.left] + list(c.comparators)
                touches_key = any(isinstance(x, (ast.Attribute, ast.Name)) and (getattr(x, "attr", None) in KEY_NAMES or
                                                                                  getattr(x, "id", None) in KEY_NAMES)
                                  for o in operands for x in ast.walk(o))
                if touches_key:
                    ctx.check(all(isinstance(o, (ast.Eq, ast.NotEq)) for o in c.ops), "R16.4", m, c,
                              "user keys are compared by equality only (like itertools.groupby)")
                elif any(isinstance(o, (ast.Is, ast.IsNot)) for o in c.ops):
                    ok = any(norm(o) in ("self", "None") or "_sentinel" in norm(o) for o in operands)
                    ctx.check(ok, "R16.4", m, c, "identity tests involve only library objects (self, None, sentinel, groups)")
