"""C16 — groupby matches itertools.groupby under every consumption pattern (necessary clauses).

R16.1 a stale group yields nothing: in ``_Grouper.__anext__`` every node that steps or
      consumes the shared cursor is reachable only through the "I am the live group" edge
      of the liveness test.
R16.2 advancing invalidates the live group first: in ``GroupBy.__anext__`` the shared
      ``current_group`` is cleared before the first suspension point, and on every normal
      exit it refers to the very group being returned.
R16.3 only within its key / skipped items are discarded, never leaked: the group's consume
      is guarded by equality of its target key with the cursor key; the parent's scan loop
      steps while the cursor key equals the previous target key; ``consume_value`` swaps the
      item with the sentinel (an item is handed out once); ``maybe_step`` steps only when
      no unconsumed item is held; ``step`` publishes item and key together after its last
      suspension point.
R16.4 comparison discipline: user keys are compared only with == / != ; identity tests
      involve only library sentinels, ``self``, ``None`` and library objects.
"""
from __future__ import annotations

import ast
from typing import List, Set

from asl.cfg import Node, cfg_of
from asl.flow import find_path, pretty_path, reachable
from asl.loader import AnalysisError, norm, own_nodes

LEVEL = {
    "decided": "C16 (necessary clauses): (R16.1) a group that is no longer live cannot touch the shared cursor; (R16.2) "
               "advancing the groupby clears the live group before it first suspends and installs the returned group; "
               "(R16.3) groups consume only items of their key, the parent discards the rest of the previous run, an item "
               "is handed out at most once, an unconsumed item is never overwritten, item and key are published together; "
               "(R16.4) keys are compared by equality only; (R16.5) closing a group clears the live-group reference iff it is that "
               "group and advances nothing.",
    "not_decided": "equality with itertools.groupby over whole operation histories (the stdlib sibling is C code; a "
                   "history-level argument needs state exploration).",
    "technique": "static analysis: dominance of liveness/key tests, invalidate-before-await, comparison discipline",
}
LEVEL["decided"] += ' The cursor is a single slot (a pulled item is assigned, never accumulated); (R16.7) the default key function is an asynchronous library function used unwrapped.'
LEVEL["decided"] += ' (R16.8) every history of next-group / next-item / close operations up to depth 6 (thorough: 8) over sources of up to 3 items in every key pattern equals itertools.groupby after every operation (object model, 2525 operations).'
LEVEL["technique"] += '; bounded exhaustive operation histories by abstract evaluation over an object model against the executed itertools.groupby'
LEVEL["decided"] += ' (R16.9) no weak reference to a group and no finaliser: what is yielded does not depend on which handles the caller keeps; R16.4 also: items of the stream are never compared (runs are delimited by keys alone).'

KEY_NAMES = {"_target_key", "current_key", "target_key"}


def run(ctx) -> None:
    for rid, text in (("R16.1", "liveness test dominates every cursor use in the group"),
                      ("R16.2", "advance clears the live group before the first await and installs the returned group"),
                      ("R16.3", "key-guarded consume, scan loop, swap-with-sentinel, guarded step, joint publish"),
                      ("R16.4", "keys compared with ==/!= only; identity only on library objects")):
        ctx.rule(rid, text)
    for m in ("itertools._Grouper.__anext__", "itertools.GroupBy.__anext__"):
        ctx.unit(m)
    r16_9(ctx)
    # whole operation histories against itertools.groupby (object model, abstract evaluation)
    from . import objmodel
    objmodel.groupby_histories(ctx, "R16.8", depth=8 if getattr(ctx, "tier", "quick") == "thorough" and not getattr(ctx, "_shared", False) else 6)
    ctx.floor("groupby_operations", 1500)
    if not cursor_is_single_slot(ctx):
        return
    try:
        N = Names(ctx)
    except AnalysisError:
        if ctx.findings:
            return  # (a violation was already reported for this shape; the structural rules need names it does not have)
        raise
    ctx.tables["derived attribute names"] = {k: (v if isinstance(v, (str, type(None))) else getattr(v, "short", str(v)))
                                             for k, v in vars(N).items()}
    r16_1_3_group(ctx, N)
    r16_2(ctx, N)
    r16_3_state(ctx, N)
    r16_4(ctx, N)
    r16_5(ctx, N)
    # "with key absent the keys are the items themselves": the default key function is used as it is
    from . import c03
    ctx.rule("R16.7", "the default key function is an asynchronous library function used unwrapped: items are never probed or awaited (R03.9, shared)")
    from .common import real_units
    for u in real_units(ctx):
        if u.module.short != "itertools" or not (u.cls is not None and u.cls.name in ("GroupBy", "_GroupByState", "_Grouper")):
            continue
        for n in cfg_of(u).nodes:
            if n.kind == "call" and not n.tag and c03._is_awaitify(ctx.vals.expr(u, n.ast.func, n)):
                ctx.count("groupby_awaitify_sites")
                c03.awaitify_argument(ctx, "R16.7", u, n)


def r16_9(ctx) -> None:
    """Which group a groupby yields next, and what a group yields, is a function of the operations performed on them
    - never of whether the caller still *holds* an earlier group: itertools.groupby keeps working when a group is
    dropped unconsumed.  A library that refers to its handles weakly (or reacts to their finalisation) makes the sequence
    depend on the caller's references and on the garbage collector."""
    ctx.rule("R16.9", "the groupby machinery holds no weak reference to its groups and defines no finaliser: what it yields does "
                      "not depend on which handles the caller keeps alive")
    from .common import real_units
    bad = 0
    for u in real_units(ctx):
        if u.module.short != "itertools":
            continue
        for x in own_nodes(u.node):
            if isinstance(x, ast.Call):
                try:
                    r = ctx.pkg.resolve_expr_global(u.module, x.func)
                except Exception:  # noqa: BLE001
                    continue
                if r is not None and r.kind == "stdlib" and (r.qual.startswith("weakref.") or r.qual.startswith("gc.")):
                    bad += 1
                    ctx.fail("R16.9", u, x, f"`{norm(x)}`: a weak reference to a handle makes what the library does next depend on "
                             "whether the caller still holds that handle (and on when the collector runs)", line=x.lineno)
        if getattr(u.node, "name", "") == "__del__":
            bad += 1
            ctx.fail("R16.9", u, "__del__", "a finaliser ties behaviour to the garbage collector")
    if not bad:
        ctx.ok("R16.9", "itertools", "no weak references, no finalisers")


def cursor_is_single_slot(ctx, rid: str = "R16.3") -> bool:
    """The cursor holds at most one item: the state method that pulls the source *assigns* the item
    to a field.  If it is instead added to a container of the state (``self.x.append(item)``) without
    that container having been emptied on the same path, items accumulate: an item that was stepped
    over (skipped) is still there when a later group asks.  Reported as a violation; the remaining
    groupby rules need the single slot and are not evaluated then."""
    sinfo = ctx.pkg.cls("itertools._GroupByState")
    for m in sinfo.methods.values():
        if m.kind != "coroutine":
            continue
        cfg = cfg_of(m)
        for n in cfg.nodes:
            if n.kind != "call" or n.tag or not isinstance(n.ast.func, ast.Attribute):
                continue
            f = n.ast.func
            if f.attr not in ("append", "appendleft", "add", "insert", "extend") or not (
                    isinstance(f.value, ast.Attribute) and norm(f.value.value) == "self"):
                continue
            kinds = set()
            for a in n.ast.args:
                kinds |= {x[0] for x in ctx.vals.expr(m, a, n)}
            if not kinds & {"item", "usernext"}:
                continue
            fld = f.value.attr
            emptied = [x for x in cfg.nodes if not x.tag and (
                (x.kind == "call" and isinstance(x.ast.func, ast.Attribute) and x.ast.func.attr == "clear"
                 and norm(x.ast.func.value) == f"self.{fld}")
                or (x.kind == "store" and any(isinstance(t, ast.Attribute) and norm(t) == f"self.{fld}" for t in x.info.get("targets", []))))]
            path = find_path(cfg.entry, lambda x, n=n: x is n, avoid=lambda x: x in emptied, edge_ok=lambda a, lab, b: lab not in ("e", "p"))
            if path is not None:
                ctx.fail(rid, m, n, f"the pulled item is added to the container `self.{fld}` without emptying it first: the cursor can "
                         "hold more than one item, so an item that was stepped over is handed to a later group instead of being "
                         "discarded", node=n)
                return False
    return True


class Names:
    """Attribute names of the groupby machinery, derived from the code (not frozen):
    value / key fields from ``step``, the group's key and state fields from
    ``_Grouper.__init__``, the live-group field from the liveness test, the target-key field
    from the parent's advance."""

    def __init__(self, ctx):
        sinfo0 = ctx.pkg.cls("itertools._GroupByState")
        st = None
        for m in sinfo0.methods.values():
            if m.kind == "coroutine" and any(
                    isinstance(x, ast.Await) and isinstance(x.value, ast.Call) and (
                        (norm(x.value.func).endswith("anext") and x.value.args and norm(x.value.args[0]).startswith("self."))
                        or (isinstance(x.value.func, ast.Attribute) and x.value.func.attr == "__anext__"
                            and norm(x.value.func.value).startswith("self."))) for x in own_nodes(m.node)):
                st = m
        if st is None:
            raise AnalysisError("groupby machinery: no method of the state pulls the source (anchor moved)")
        self.step_unit = st
        self.step = st.node.name
        self.value = self.key = None
        # by origin: the field that receives the pulled item, and the field that receives the awaited
        # result of the key callable (whatever the statement shapes are)
        scfg = cfg_of(st)
        for n in scfg.nodes:
            if n.kind != "store" or n.tag:
                continue
            fields = []
            for t in n.info.get("targets", []):
                for x in (t.elts if isinstance(t, ast.Tuple) else [t]):
                    if isinstance(x, ast.Attribute) and norm(x.value) == "self":
                        fields.append(x)
            if not fields:
                continue
            val = n.info.get("value")
            for x in fields:
                vexpr = val
                if isinstance(val, ast.Tuple):
                    for t in n.info.get("targets", []):
                        if isinstance(t, ast.Tuple) and x in t.elts and len(t.elts) == len(val.elts):
                            vexpr = val.elts[t.elts.index(x)]
                kinds = {a[0] for a in ctx.vals.expr(st, vexpr, n)} if vexpr is not None else set()
                if kinds & {"item", "usernext"} and not kinds & {"result"}:
                    self.value = x.attr
                elif kinds & {"result", "userawait"}:
                    self.key = x.attr
        g = ctx.pkg.cls("itertools._Grouper")
        init = g.methods.get("__init__")
        self.group_key = self.group_state = None
        if init is not None:
            ps = init.param_names()
            for s_ in own_nodes(init.node):
                if isinstance(s_, ast.Assign) and isinstance(s_.targets[0], ast.Attribute) and isinstance(s_.value, ast.Name):
                    if len(ps) > 1 and s_.value.id == ps[1]:
                        self.group_key = s_.targets[0].attr
                    if len(ps) > 2 and s_.value.id == ps[2]:
                        self.group_state = s_.targets[0].attr
        from asl.inline import private_class_policy as _pcp
        adv = ctx.inlined(ctx.unit("itertools.GroupBy.__anext__"), policy=_pcp)  # (the advance may be split into private steps)
        # live-group field: the state attribute that receives the freshly built group
        self.live = None
        group_names = set()
        for s_ in own_nodes(adv.node):
            if isinstance(s_, ast.Assign) and isinstance(s_.value, ast.Call) and norm(s_.value.func) == ctx.pkg.cls_name("itertools._Grouper"):
                for t in s_.targets:
                    if isinstance(t, ast.Attribute):
                        self.live = t.attr
                    if isinstance(t, ast.Name):
                        group_names.add(t.id)
        for s_ in own_nodes(adv.node):
            if self.live is None and isinstance(s_, ast.Assign) and isinstance(s_.value, ast.Name) and s_.value.id in group_names:
                for t in s_.targets:
                    if isinstance(t, ast.Attribute):
                        self.live = t.attr
        if self.live is None:
            for meth in g.methods.values():
                for c in own_nodes(meth.node):
                    if isinstance(c, ast.Compare) and isinstance(c.ops[0], (ast.Is, ast.IsNot)):
                        sides = [c.left, c.comparators[0]]
                        if any(isinstance(x, ast.Name) and x.id == "self" for x in sides):
                            for x in sides:
                                if isinstance(x, ast.Attribute):
                                    self.live = x.attr
        if self.live is None:
            for s_ in own_nodes(adv.node):
                if isinstance(s_, ast.Assign) and isinstance(s_.value, ast.Constant) and s_.value.value is None:
                    for t in s_.targets:
                        if isinstance(t, ast.Attribute):
                            self.live = t.attr
        # target-key field: the other state attribute the advance stores
        self.target = None
        stored = set()
        other_objects = set()
        for s_ in own_nodes(adv.node):
            if isinstance(s_, ast.Assign):
                for t in s_.targets:
                    for x in ast.walk(t):
                        if isinstance(x, ast.Attribute) and isinstance(x.ctx, ast.Store):
                            stored.add(x.attr)
                            if not (norm(x.value) in ("state", "self._state") or norm(x.value).endswith("._state")):
                                other_objects.add(x.attr)
        if len(stored - other_objects - {self.live, self.value, self.key}) == 1:
            stored -= other_objects  # (a field of some other object - a group - written on the way is not the state's target key)
        stored -= {self.live, self.value, self.key}  # (the live-group field; the fields the pulling step publishes)
        if len(stored) == 1:
            self.target = stored.pop()
        elif len(stored) > 1:
            # several more fields are written on the way: the target key is the one that receives the current key
            from_key = set()
            for s_ in own_nodes(adv.node):
                if isinstance(s_, ast.Assign) and any(isinstance(x, ast.Attribute) and x.attr == self.key and isinstance(x.ctx, ast.Load)
                                                       for x in ast.walk(s_.value)) or (
                        isinstance(s_, ast.Assign) and isinstance(s_.value, ast.Name)
                        and any(isinstance(d, ast.Assign) and any(isinstance(t, ast.Name) and t.id == s_.value.id for t in d.targets)
                                and any(isinstance(x, ast.Attribute) and x.attr == self.key for x in ast.walk(d.value))
                                for d in own_nodes(adv.node))):
                    for t in s_.targets:
                        if isinstance(t, ast.Attribute) and t.attr in stored:
                            from_key.add(t.attr)
            if len(from_key) == 1:
                self.target = from_key.pop()
        # the "no item held" marker: a class-level attribute of the state bound to a fresh object()
        self.sentinel = None
        self.markers = set()
        sinfo = ctx.pkg.cls("itertools._GroupByState")
        from .common import uncast
        for s_ in sinfo.node.body:
            tgt = s_.targets[0] if isinstance(s_, ast.Assign) else s_.target if isinstance(s_, ast.AnnAssign) else None
            val = uncast(s_.value) if isinstance(s_, (ast.Assign, ast.AnnAssign)) and s_.value is not None else None
            if isinstance(tgt, ast.Name) and isinstance(val, ast.Call) and norm(val.func).split(".")[-1] in ("object", "Sentinel"):
                self.sentinel = tgt.id
                self.markers.add(tgt.id)
        if len(self.markers) > 1:
            # several private markers: the "no item held" one is the one __init__ puts into the value field
            init0 = sinfo.methods.get("__init__")
            for s_ in (own_nodes(init0.node) if init0 is not None else []):
                tg = s_.targets[0] if isinstance(s_, ast.Assign) and len(s_.targets) == 1 else s_.target if isinstance(s_, ast.AnnAssign) else None
                if isinstance(tg, ast.Attribute) and tg.attr == self.value and isinstance(getattr(s_, "value", None), ast.Attribute) \
                        and s_.value.attr in self.markers:
                    self.sentinel = s_.value.attr
        self.sentinel_is_global = False
        if self.sentinel is None:
            # ... or a module-level private marker that __init__ puts into the value field
            init = sinfo.methods.get("__init__")
            for s_ in (own_nodes(init.node) if init is not None else []):
                if isinstance(s_, (ast.Assign, ast.AnnAssign)) and isinstance(s_.value, ast.Name):
                    tg = s_.targets[0] if isinstance(s_, ast.Assign) else s_.target
                    if isinstance(tg, ast.Attribute) and tg.attr == self.value:
                        gv = None
                        for top in sinfo.module.tree.body:
                            ttg = top.targets[0] if isinstance(top, ast.Assign) and len(top.targets) == 1 else \
                                top.target if isinstance(top, ast.AnnAssign) else None
                            if isinstance(ttg, ast.Name) and ttg.id == s_.value.id and getattr(top, "value", None) is not None:
                                gv = uncast(top.value)
                        if isinstance(gv, ast.Call) and norm(gv.func).split(".")[-1] in ("object", "Sentinel"):
                            self.sentinel = s_.value.id
                            self.sentinel_is_global = True
        # the method that hands out the held item: it returns what it read from the value field
        self.consume_unit = None
        for m in sinfo.methods.values():
            if m.kind == "sync" and m.node.name != "__init__" and any(
                    isinstance(x, ast.Attribute) and isinstance(x.ctx, ast.Load) and x.attr == self.value for x in ast.walk(m.node)) \
                    and any(isinstance(x, ast.Return) and x.value is not None and not isinstance(x.value, ast.Compare)
                            for x in own_nodes(m.node)):
                self.consume_unit = m
        self.consume = self.consume_unit.node.name if self.consume_unit is not None else None
        # (the hand-out may also be written out in the group's __anext__: then the rules read it there)
        missing = [k for k, v in vars(self).items() if v is None and k not in ("consume", "consume_unit")]
        if missing:
            raise AnalysisError(f"groupby machinery: could not derive the attribute(s) {missing} (anchor moved)")


def _is_state_value(ctx, u, cfg, call: ast.Call) -> bool:
    """the second constructor argument denotes the shared state object (by origin, not by name)"""
    if len(call.args) < 2:
        return False
    at = next((n for n in cfg.nodes if n.kind == "call" and n.ast is call and not n.tag), None)
    v = ctx.vals.expr(u, call.args[1], at)
    fq = ctx.pkg.cls("itertools._GroupByState").fq
    return bool(v) and all(a[0] == "libinst" and a[1] == fq for a in v)


def _is_state_expr(e: ast.AST) -> bool:
    return isinstance(e, ast.Name) and e.id == "state" or norm(e) == "self._state"


def _view(ctx, N, short: str):
    """what the method does, with the private helpers of the state class inlined — except the
    two primitives the rules talk about (pull-and-publish, hand-out)"""
    from asl.inline import private_class_policy
    return ctx.inlined(ctx.unit(short), policy=private_class_policy, keep=tuple(k for k in (N.step, N.consume, "aclose") if k))


def _marker_in(N, text: str) -> bool:
    """does the expression text mention the "no item held" marker (a class attribute or a module global)?"""
    import re
    if getattr(N, "sentinel_is_global", False):
        return re.search(rf"(?<![\w.]){re.escape(N.sentinel)}(?!\w)", text) is not None
    return f".{N.sentinel}" in text


def _sentinel_tests(ctx, u, cfg, nodes, N) -> dict:
    """branch node -> label of the edge on which *no* item is held (value field is the marker)"""
    from .common import name_value
    out = {}
    for n in nodes:
        if n.kind != "branch":
            continue
        e = n.ast
        if isinstance(e, ast.Name):
            e = name_value(ctx, u, cfg, n, e.id)
        if isinstance(e, ast.Compare) and len(e.ops) == 1 and isinstance(e.ops[0], (ast.Is, ast.IsNot)) \
                and f".{N.value}" in norm(e) and _marker_in(N, norm(e)):
            out[n] = "t" if isinstance(e.ops[0], ast.Is) else "f"
    return out


def _tested_expr(ctx, u, cfg, n):
    """what a branch tests: the answer of a comparison may be held in a local first (``live = state.current is self;
    if not live: ..`` - e.g. a one-expression predicate method, inlined) as long as nothing can run between the
    comparison and the test (no suspension point on the way)"""
    e = n.ast
    if not isinstance(e, ast.Name):
        return e
    from .common import inline_locals
    try:
        got = inline_locals(ctx, u, cfg, n, e, depth=1)
    except Exception:  # noqa: BLE001
        return e
    if got is e or isinstance(got, ast.Name):
        return e
    defs = [d for d in cfg.nodes if d.kind == "store" and not d.tag
            and any(isinstance(t, ast.Name) and t.id == e.id for t in d.info.get("targets", []))]
    for d in defs:
        seg = reachable([d], stop=lambda x: x is n, edge_ok=lambda a, lab, b: lab not in ("e", "p"))
        if any(x.kind in ("await", "yield", "pull", "enter", "exit_cm") for x in seg):
            return e
    return got


def r16_1_3_group(ctx, N) -> None:
    u = _view(ctx, N, "itertools._Grouper.__anext__")
    cfg = cfg_of(u)
    main = [n for n in cfg.nodes if not n.tag]
    tested = {n: _tested_expr(ctx, u, cfg, n) for n in main if n.kind == "branch"}
    live_tests = [n for n in main if n.kind == "branch" and isinstance(tested[n], ast.Compare) and len(tested[n].ops) == 1
                  and isinstance(tested[n].ops[0], (ast.Is, ast.IsNot)) and N.live in norm(tested[n])
                  and any(isinstance(x, ast.Name) and x.id == "self" for x in (tested[n].left, tested[n].comparators[0]))]
    ctx.check(len(live_tests) >= 1, "R16.1", u, "__anext__", "the group tests whether it is still the live group")
    cursor = [n for n in main if (n.kind == "await" and any(a[0] == "libcoro" and a[1].startswith(ctx.pkg.cls("itertools._GroupByState").fq + ".")
                                                            for a in ctx.vals.expr(u, n.info.get("value"), n)))
              or (n.kind == "call" and isinstance(n.ast.func, ast.Attribute) and n.ast.func.attr in (N.consume, N.step))  # type: ignore[union-attr]
              or (n.kind == "attr" and n.ast.attr in (N.key, N.value))]  # type: ignore[union-attr]
    ctx.count("cursor_uses", len(cursor))

    def live_edge(t: Node) -> str:
        return "t" if isinstance(tested[t].ops[0], ast.Is) else "f"  # type: ignore[union-attr]

    for c in cursor:
        path = find_path(cfg.entry, lambda x: x is c, avoid=None,
                         edge_ok=lambda a, lab, b: lab not in ("e", "p") and not (a in live_tests and lab == live_edge(a)))
        ctx.check(path is None, "R16.1", u, c, "the shared cursor is touched only by the live group (a stale group "
                  "raises StopAsyncIteration first)", node=c, witness=pretty_path(path))
    # stale -> StopAsyncIteration
    for t in live_tests:
        stale = [s for (lab, s) in t.succ if lab != live_edge(t) and lab in ("t", "f")]
        seg = reachable(stale, edge_ok=lambda a, lab, b: lab not in ("e", "p"))
        rs = [n for n in seg if n.kind == "raise"]
        ok = bool(rs) and all("StopAsyncIteration" in norm(r.ast) for r in rs) and not any(n.kind in ("await", "return") for n in seg)
        ctx.check(ok, "R16.1", u, t, "a stale group ends immediately with StopAsyncIteration", node=t)
    # R16.3: consume guarded by key equality
    consumes = [n for n in main if n.kind == "call" and isinstance(n.ast.func, ast.Attribute) and n.ast.func.attr == N.consume]  # type: ignore[union-attr]
    if N.consume is None:
        # the hand-out is written out here: the statement that puts the marker back into the value field
        consumes = [n for n in main if n.kind == "store" and any(
            isinstance(x, ast.Attribute) and x.attr == N.value and isinstance(x.ctx, ast.Store)
            for t in n.info.get("targets", []) for x in ast.walk(t))]
    key_tests = [n for n in main if n.kind == "branch" and isinstance(n.ast, ast.Compare) and len(n.ast.ops) == 1
                 and isinstance(n.ast.ops[0], (ast.Eq, ast.NotEq)) and f".{N.group_key}" in norm(n.ast)
                 and f".{N.key}" in norm(n.ast)]
    ctx.check(bool(consumes) and bool(key_tests), "R16.3", u, "__anext__", "the group compares its key with the cursor's key before consuming")

    def same_edge(t: Node) -> str:
        return "t" if isinstance(t.ast.ops[0], ast.Eq) else "f"  # type: ignore[union-attr]

    for c in consumes:
        path = find_path(cfg.entry, lambda x: x is c, avoid=None,
                         edge_ok=lambda a, lab, b: lab not in ("e", "p") and not (a in key_tests and lab == same_edge(a)))
        ctx.check(path is None, "R16.3", u, c, "an item is consumed only if its key equals the group's key", node=c,
                  witness=pretty_path(path))
        # the key test comes after the (possible) step, with no suspension before the consume
        for t in key_tests:
            seg = reachable([s for (lab, s) in t.succ if lab == same_edge(t)], stop=lambda x: x is c,
                            edge_ok=lambda a, lab, b: lab not in ("e", "p"))
            sus = [n for n in seg if n.kind in ("await", "yield", "pull") and n is not c]
            ctx.check(not sus, "R16.3", u, sus[0] if sus else c,
                      "no suspension point between the key test and taking the item", node=c)
    for t in key_tests:
        other = [s for (lab, s) in t.succ if lab != same_edge(t) and lab in ("t", "f")]
        seg = reachable(other, edge_ok=lambda a, lab, b: lab not in ("e", "p"))
        rs = [n for n in seg if n.kind == "raise"]
        leaks = [n for n in seg if n in consumes or n.kind == "return"]
        ctx.check(bool(rs) and not leaks, "R16.3", u, t, "an item of another key ends the group and stays with the cursor", node=t)


def r16_2(ctx, N) -> None:
    from asl.inline import private_class_policy
    # the scan may live in a helper of the (private) state class: look at what the advance does
    u = _view(ctx, N, "itertools.GroupBy.__anext__")
    cfg = cfg_of(u)
    main = [n for n in cfg.nodes if not n.tag]
    stores = [n for n in main if n.kind == "store" and any(
        isinstance(t, ast.Attribute) and t.attr == N.live for tt in n.info.get("targets", [])
        for t in ([tt] + (list(tt.elts) if isinstance(tt, ast.Tuple) else [])))]
    awaits = [n for n in main if n.kind == "await"]
    clears = [s for s in stores if isinstance(s.info.get("value"), ast.Constant) and s.info["value"].value is None]
    ctx.check(bool(clears), "R16.2", u, "__anext__", "advancing clears the shared live-group reference")
    for a in awaits:
        path = find_path(cfg.entry, lambda x: x is a, avoid=lambda x: x in clears,
                         edge_ok=lambda p, lab, b: lab not in ("e", "p"))
        ctx.check(path is None, "R16.2", u, a, "the live group is invalidated before the first suspension point of the "
                  "advance (a group advanced meanwhile already sees itself as stale)", node=a, witness=pretty_path(path))
    rets = [n for n in main if n.kind == "return"]
    for r in rets:
        val = r.info.get("value")
        gname = val.elts[1].id if isinstance(val, ast.Tuple) and len(val.elts) == 2 and isinstance(val.elts[1], ast.Name) else None
        ctx.check(gname is not None, "R16.2", u, r, "the advance returns (key, group)", node=r)
        if gname is None:
            continue
        installs = [s for s in stores if gname in [x.id for t in s.info["targets"] for x in ast.walk(t) if isinstance(x, ast.Name)]
                    or (isinstance(s.info.get("value"), ast.Name) and s.info["value"].id == gname)]
        ok = bool(installs)
        if ok:
            last = installs[-1]
            after = reachable([x for (lab, x) in last.succ if lab == "n"], stop=lambda x: x is r,
                              edge_ok=lambda p, lab, b: lab not in ("e", "p"))
            ok = r in after and not any(n in stores and n is not last for n in after) and \
                not any(n.kind == "await" for n in after)
        ctx.check(ok, "R16.2", u, r, "on return the shared live-group reference is the group being returned, "
                  "installed after the last suspension point", node=r)
        key = val.elts[0]
        made = [c for c in own_nodes(u.node) if isinstance(c, ast.Call) and norm(c.func) == ctx.pkg.cls_name("itertools._Grouper")]
        ctx.check(len(made) == 1 and norm(made[0].args[0]) == norm(key) and _is_state_value(ctx, u, cfg, made[0]), "R16.2", u,
                  made[0] if made else r, "the returned group is bound to the returned key and the shared state")
    # scan loop (R16.3)
    loops = [n for n in own_nodes(u.node) if isinstance(n, ast.While) and not getattr(n, "asl_once", False)]
    ok = len(loops) == 1 and isinstance(loops[0].test, ast.Compare) and isinstance(loops[0].test.ops[0], ast.Eq) \
        and f".{N.key}" in norm(loops[0].test) and _reads_target(ctx, u, cfg, loops[0], N) \
        and any(isinstance(x, ast.Await) and norm(x.value).endswith(f".{N.step}()") for b in loops[0].body for x in ast.walk(b))
    ctx.check(ok, "R16.3", u, loops[0] if loops else "__anext__", "the advance skips (steps over) the rest of the "
              "previous run: while the cursor key equals the previous target key")
    tstores = [n for n in main if n.kind == "store" and any(
        isinstance(x, ast.Attribute) and x.attr == N.target and isinstance(x.ctx, ast.Store)
        for t in n.info.get("targets", []) for x in ast.walk(t))]
    scan_tests = [n for n in main if n.kind == "branch" and isinstance(n.ast, ast.Compare) and len(n.ast.ops) == 1
                  and isinstance(n.ast.ops[0], (ast.Eq, ast.NotEq)) and f".{N.key}" in norm(n.ast)
                  and n.in_loop()]
    no_target = [n for n in main if n.kind == "handler" and "AttributeError" in norm(n.info.get("type"))]
    # ``hasattr(state, "<target>")`` false: there is no previous group either
    no_target_edges = {(n, "f") for n in main if n.kind == "branch" and isinstance(n.ast, ast.Call) and norm(n.ast.func) == "hasattr"
                       and len(n.ast.args) == 2 and isinstance(n.ast.args[1], ast.Constant) and n.ast.args[1].value == N.target}

    # ``prev = getattr(state, "<target>", DEFAULT)`` ... ``prev is DEFAULT``: there is no previous group either
    from asl.flow import reaching
    for n in main:
        if n.kind != "branch" or not isinstance(n.ast, ast.Compare) or len(n.ast.ops) != 1 \
                or not isinstance(n.ast.ops[0], (ast.Is, ast.IsNot)):
            continue
        sides = [n.ast.left, n.ast.comparators[0]]
        for a_, b_ in (sides, sides[::-1]):
            if not isinstance(a_, ast.Name):
                continue
            vals = [d.info.get("value") for d in reaching(cfg).defs_at(n, a_.id) if d.kind == "store"]
            if vals and all(_getattr_target(v, N) and norm(v.args[2]) == norm(b_) for v in vals):
                no_target_edges.add((n, "t" if isinstance(n.ast.ops[0], ast.Is) else "f"))
        # the target field starts out as a private placeholder (``self.target_key = self.no_target`` in ``__init__``):
        # ``<target> is <placeholder>`` means there is no previous group
        for a_, b_ in (sides, sides[::-1]):
            tgt_read = isinstance(a_, ast.Attribute) and a_.attr == N.target
            if isinstance(a_, ast.Name):
                vals = [d.info.get("value") for d in reaching(cfg).defs_at(n, a_.id) if d.kind == "store"]
                tgt_read = bool(vals) and all(isinstance(v, ast.Attribute) and v.attr == N.target for v in vals)
            if tgt_read and isinstance(b_, ast.Attribute) and b_.attr in N.markers and b_.attr != N.sentinel:
                no_target_edges.add((n, "t" if isinstance(n.ast.ops[0], ast.Is) else "f"))

    def scan_exit(t) -> str:
        return "f" if isinstance(t.ast.ops[0], ast.Eq) else "t"

    for ts in tstores:
        path = find_path(cfg.entry, lambda x: x is ts, avoid=lambda x: x in no_target,
                         edge_ok=lambda a, lab, b: lab not in ("p",) and (lab != "e" or a.kind == "attr")
                         and (a, lab) not in no_target_edges
                         and not (a in scan_tests and lab == scan_exit(a)))
        ctx.check(path is None, "R16.3", u, ts, "a new group starts only after the scan found a key different from the "
                  "previous target key (or there is no previous group): the unread rest of a partly consumed run is "
                  "never re-issued as a new group", node=ts, witness=pretty_path(path))
    ok = len(tstores) == 1
    if ok:
        tv = tstores[0].info.get("value")
        if isinstance(tv, ast.Name):
            from .common import name_value
            tv = name_value(ctx, u, cfg, tstores[0], tv.id) or tv
        ok = f".{N.key}" in norm(tv)
    ctx.check(ok, "R16.3", u, tstores[0] if tstores else "__anext__", "the new target key is the key of the first item of the new run")


def _reads_target(ctx, u, cfg, loop: ast.While, N) -> bool:
    """one side of the scan test is the previous target key (directly or through a local)"""
    from .common import name_value
    test = loop.test
    node = next((n for n in cfg.nodes if n.kind == "branch" and n.ast is test and not n.tag), None)
    for side in (test.left, test.comparators[0]):
        if isinstance(side, ast.Attribute) and side.attr == N.target:
            return True
        if isinstance(side, ast.Name) and node is not None:
            from asl.flow import reaching
            defs = reaching(cfg).defs_at(node, side.id)
            vals = [d.info.get("value") for d in defs if d.kind == "store"]
            if vals and all((isinstance(v, ast.Attribute) and v.attr == N.target) or _getattr_target(v, N) for v in vals):
                return True
    return False


def _getattr_target(v, N) -> bool:
    """``getattr(state, "<target field>", <default>)``"""
    return isinstance(v, ast.Call) and norm(v.func) == "getattr" and len(v.args) == 3 \
        and isinstance(v.args[1], ast.Constant) and v.args[1].value == N.target


def r16_3_state(ctx, N) -> None:
    cv = N.consume_unit if N.consume_unit is not None else ctx.unit("itertools._Grouper.__anext__")
    cfg = cfg_of(cv)
    resets = [n for n in cfg.nodes if n.kind == "store" and not n.tag and any(
        isinstance(x, ast.Attribute) and x.attr == N.value and isinstance(x.ctx, ast.Store)
        for t in n.info.get("targets", []) for x in ast.walk(t))]
    rets = [n for n in cfg.nodes if n.kind == "return" and not n.tag]
    ok = len(resets) == 1 and len(rets) == 1 and _marker_in(N, norm(resets[0].info.get("value")))
    if ok:
        rv = rets[0].info.get("value")
        # the returned value is the field's content read before the reset
        if isinstance(rv, ast.Name):
            from asl.flow import reaching
            defs = reaching(cfg).defs_at(rets[0], rv.id)
            vals = [norm(d.info.get("value")) for d in defs if d.kind == "store"]
            ok = bool(vals) and all(f".{N.value}" in v for v in vals)
            reads = [d for d in defs if d.kind == "store"]
            # read happens before (or together with) the reset
            ok = ok and all(d.id <= resets[0].id for d in reads)
        else:
            ok = False
    ctx.check(ok, "R16.3", cv, "consume_value", "taking the item replaces it by the sentinel (an item is handed out once)")
    # the cursor advances only when no unconsumed item is held: every step outside the scan loop
    # of the advance is guarded by "the value field holds the marker"
    for short in ("itertools._Grouper.__anext__", "itertools.GroupBy.__anext__"):
        g = _view(ctx, N, short)
        gcfg = cfg_of(g)
        gmain = [n for n in gcfg.nodes if not n.tag]
        tests = _sentinel_tests(ctx, g, gcfg, gmain, N)
        steps = [n for n in gmain if n.kind == "await" and norm(n.info.get("value")).endswith(f".{N.step}()")
                 and not any(k == "loop" and isinstance(a, ast.While) and isinstance(a.test, ast.Compare)
                             and f".{N.key}" in norm(a.test) for (k, a) in n.regions)]
        ctx.count("guarded_steps", len(steps))
        ctx.check(bool(steps), "R16.3", g, "__anext__", "the cursor is advanced when no item is held")
        for a in steps:
            path = find_path(gcfg.entry, lambda x, a=a: x is a, edge_ok=lambda p, lab, b: lab not in ("e", "p") and not (
                p in tests and lab == tests[p]))
            ctx.check(path is None and bool(tests), "R16.3", g, a, "the cursor advances only when no unconsumed item is held "
                      "(an item is never overwritten)", node=a, witness=pretty_path(path))
    publish_rule(ctx, N, "R16.3")


def publish_rule(ctx, N, rid: str) -> None:
    """pull and key call form one step: the cursor never holds an item whose key was not computed"""
    st = N.step_unit
    cfg = cfg_of(st)
    awaits = [n for n in cfg.nodes if n.kind == "await" and not n.tag]
    pubs = [n for n in cfg.nodes if n.kind == "store" and not n.tag and any(
        isinstance(x, ast.Attribute) and x.attr in (N.value, N.key) and isinstance(x.ctx, ast.Store)
        for t in n.info.get("targets", []) for x in ast.walk(t))]
    ok = len(awaits) == 2 and len(pubs) >= 1
    if ok:
        attrs = {x.attr for p_ in pubs for t in p_.info["targets"] for x in ast.walk(t) if isinstance(x, ast.Attribute)}
        ok = {N.value, N.key} <= attrs
        for p_ in pubs:
            path = find_path(p_, lambda x: x.kind == "await", edge_ok=lambda a, lab, b: lab not in ("e", "p"))
            ok = ok and path is None
    ctx.check(ok, rid, st, pubs[0] if pubs else "step", "item and key are published together after the key function "
              "has returned (no suspension point at which the cursor holds an item with a stale key)")
    order = [norm(a.info.get("value")) for a in awaits]
    ctx.check(len(order) == 2 and "anext" in order[0] and "anext" not in order[1], rid, st, "step",
              "the key function is applied to the freshly pulled item", witness=str(order))


def r16_4(ctx, N) -> None:
    from .common import name_value
    key_fields = {N.key, N.group_key, N.target}
    for short in ("itertools._Grouper", "itertools.GroupBy", "itertools._GroupByState"):
        info = ctx.pkg.cls(short)
        for m in info.methods.values():
            cfg = cfg_of(m)

            def is_key(e, at, depth=0) -> bool:
                """the expression denotes a user key: a key field, or a local bound to one"""
                if isinstance(e, ast.Attribute) and e.attr in key_fields:
                    return True
                if isinstance(e, ast.Name) and depth < 3 and at is not None and e.id not in m.param_names():
                    v = name_value(ctx, m, cfg, at, e.id)
                    return v is not None and is_key(v, at, depth + 1)
                if isinstance(e, ast.Name) and e.id in m.param_names():
                    # a constructor / method parameter that is stored into a key field
                    return any(isinstance(st, ast.Assign) and isinstance(st.value, ast.Name) and st.value.id == e.id
                               and any(isinstance(t, ast.Attribute) and t.attr in key_fields for t in st.targets)
                               for st in own_nodes(m.node))
                return False

            seen = set()
            for n in cfg.nodes:
                if n.tag or n.ast is None:
                    continue
                for c in ast.walk(n.ast):
                    if not isinstance(c, ast.Compare) or id(c) in seen:
                        continue
                    seen.add(id(c))
                    ctx.count("comparisons")
                    operands = [c.left] + list(c.comparators)
                    touches_key = any(is_key(o, n) for o in operands)
                    if touches_key and len(c.ops) == 1 and isinstance(c.ops[0], (ast.Is, ast.IsNot)) and any(
                            any(f".{mk}" in norm(o) for mk in N.markers) or norm(o) == "None" for o in operands):
                        # "has a key been recorded yet?": identity with a private placeholder, not a comparison of keys
                        ctx.ok("R16.4", m, f"`{norm(c)}` tests a key field against a private placeholder")
                    elif touches_key:
                        ctx.check(all(isinstance(o, (ast.Eq, ast.NotEq)) for o in c.ops), "R16.4", m, c,
                                  "user keys are compared by equality only (like itertools.groupby)", node=n)
                    elif not all(isinstance(o, (ast.Is, ast.IsNot)) for o in c.ops) and any(
                            {a_[0] for a_ in ctx.vals.expr(m, o, n)} & {"item", "usernext"} for o in operands):
                        # an *item* of the stream in an equality / order comparison: itertools.groupby looks at keys only -
                        # two items that compare equal may well have different keys
                        ctx.fail("R16.4", m, c, "an item of the stream is compared (the item's own __eq__ / __lt__ decides): runs are "
                                 "delimited by the keys alone, equal items may have different keys", node=n)
                    elif any(isinstance(o, (ast.Is, ast.IsNot)) for o in c.ops):
                        def lib_object(o) -> bool:
                            # a parameter that is declared to be an object of a private library class (a group handed to
                            # a method of the shared state)
                            if not isinstance(o, ast.Name):
                                return False
                            ann = next((p_.annotation for p_ in m.params() if p_.arg == o.id), None)
                            text = norm(ann).strip("'\"") if ann is not None else ""
                            return any(text.startswith(cn) and cn.startswith("_") for cn in m.module.classes)
                        ok = any(norm(o) in ("self", "None") or _marker_in(N, norm(o)) or lib_object(o)
                                 or {a[0] for a in ctx.vals.expr(m, o, n)} == {"sentinel"} for o in operands)
                        ctx.check(ok, "R16.4", m, c, "identity tests involve only library objects (self, None, sentinel, groups)",
                                  node=n)


def r16_5(ctx, N) -> None:
    """Closing a group affects only that group: ``_Grouper.aclose`` touches the shared live-group
    reference only on the "I am the live group" edge, clears it there, and steps nothing."""
    ctx.rule("R16.5", "closing a group clears the shared live-group reference iff it is that group; nothing else is touched")
    info = ctx.pkg.cls("itertools._Grouper")
    acl = info.methods.get("aclose")
    if acl is None:
        ctx.ok("R16.5", "itertools._Grouper", "no aclose: groups cannot be closed individually")
        return
    from asl.inline import private_class_policy
    u = ctx.inlined(acl, policy=private_class_policy)  # (the test-and-clear may be a method of the shared state)
    cfg = cfg_of(u)
    me = u.param_names()[0]
    main = [n for n in cfg.nodes if not n.tag]
    tests = {}
    for n in main:
        e = _tested_expr(ctx, u, cfg, n) if n.kind == "branch" else None
        if n.kind == "branch" and isinstance(e, ast.Compare) and len(e.ops) == 1 \
                and isinstance(e.ops[0], (ast.Is, ast.IsNot)) and f".{N.live}" in norm(e) \
                and any(isinstance(x, ast.Name) and x.id == me for x in (e.left, e.comparators[0])):
            tests[n] = "t" if isinstance(e.ops[0], ast.Is) else "f"
    clears = [n for n in main if n.kind == "store" and any(
        isinstance(t, ast.Attribute) and t.attr == N.live for t in n.info.get("targets", []))]
    ctx.check(bool(tests) and bool(clears), "R16.5", u, "aclose", "closing tests whether this group is the live one and clears the reference")
    for c in clears:
        path = find_path(cfg.entry, lambda x, c=c: x is c, edge_ok=lambda a, lab, b: lab not in ("e", "p") and not (
            a in tests and lab == tests[a]))
        ctx.check(path is None, "R16.5", u, c, "the shared live-group reference is cleared only by the live group itself "
                  "(closing a stale group does not end the current one)", node=c, witness=pretty_path(path))
        ctx.check(isinstance(c.info.get("value"), ast.Constant) and c.info["value"].value is None, "R16.5", u, c,
                  "the reference is cleared (set to None)", node=c)
    for t, lab in tests.items():
        live_side = [s_ for (l2, s_) in t.succ if l2 == lab]
        seg = reachable(live_side, edge_ok=lambda a, l3, b: l3 not in ("e", "p"))
        ctx.check(any(c in seg for c in clears), "R16.5", u, t, "the live group does clear the reference when closed", node=t)
    touched = [n for n in main if n.kind in ("await", "call") and n.kind != "branch"]
    ctx.check(not [n for n in touched if n.kind == "await"], "R16.5", u, "aclose",
              "closing a group advances nothing (no await: the shared cursor and the source are untouched)")
