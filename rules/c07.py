"""C07 — a borrowed iterator can never close its underlying iterator.

Ownership / who-may-call.  The expected number of violations is zero, so a tiny positive
example (selftest/positive/borrow_leaks_aclose.py) must make R07.1 fire on every run.

R07.1 inside the borrowing classes the underlying iterator is used only in the whitelisted
      ways: kept in ``__wrapped__``, iterated by the intermediate generator, probed with
      ``hasattr``, and its ``asend`` / ``athrow`` looked up.  In particular there is no
      ``.aclose`` lookup on it and it is not handed to any other callable.
R07.2 forwarding set: attributes of the underlying iterator re-exported on the borrowed
      object are within {asend, athrow}; ``__anext__`` is the intermediate generator's.
R07.3 ``__aiter__`` returns ``self``; ``aclose`` closes the intermediate generator and then
      rebinds asend/athrow to the generator's (closing disables the handle).
R07.4 ``asynctools.borrow`` returns a borrowed wrapper on every non-raising path;
      ``_core.borrow`` returns a new generator that only iterates its argument; a scoped
      iterator that is used again later is only ever passed on through a borrowed view.
R07.5 no ``__del__`` / finaliser on the borrowing classes.
"""
from __future__ import annotations

import ast
import os
from typing import Dict, List, Optional

from asl.absint import UNKNOWN
from asl.cfg import cfg_of
from asl.flow import reachable
from asl.loader import AnalysisError, Package, norm, own_nodes
from asl.values import atoms_deep, mentions
from .common import real_units

LEVEL = {
    "decided": "C07: (R07.1) who-may-touch rule for the underlying iterator inside the borrowing classes — no aclose "
               "lookup, not passed to any callable; (R07.2) only asend/athrow are forwarded and __anext__ comes from the "
               "intermediate generator; (R07.3) __aiter__ returns self, aclose closes only the intermediate generator and "
               "redirects asend/athrow; (R07.4) borrow() always wraps, the internal borrow only iterates, and library "
               "tools pass a scoped iterator they still need only through a borrowed view; (R07.5) no finaliser.",
    "not_decided": "that items taken through the handle are the remaining ones, once, in order (value level, C01 "
                   "residual); a user deliberately calling athrow(GeneratorExit) on the handle.",
    "technique": "static analysis: who-may-call / ownership rule over resolved attribute uses; R07.2/R07.3 by abstract "
                 "evaluation of the handle's construction and closing over an object model (with / without asend-athrow; "
                 "run-time generator state unknown)",
}
LEVEL["decided"] += ' (R07.7) subclasses of the borrowed handle override nothing but aclose/__repr__ (the tables hold for them unchanged).'
LEVEL["decided"] += " R07.3 is evaluated on the handle's public aclose for underlying iterators with both, none or just one of asend / athrow."
LEVEL["decided"] += " (R07.8) no library operation calls athrow / asend on an iterator it was handed (a borrowed handle forwards both to the owner's iterator)."
LEVEL["decided"] += ' (R07.10) scoped_iter hands out its iterator bare only when the iterator itself has no aclose (R08.4, shared).'
LEVEL["decided"] += ' (R07.9) no library code looks through a borrowed handle: the field holding the underlying iterator is read on self only.'

BORROW_CLASSES = ["asynctools._BorrowedAsyncIterator", "asynctools._ScopedAsyncIterator"]
FORWARDED = {"asend", "athrow"}
POSITIVE = os.path.join(os.path.dirname(os.path.dirname(os.path.abspath(__file__))), "selftest", "positive")


def run(ctx) -> None:
    for rid, text in (("R07.1", "underlying iterator only used in whitelisted ways inside the borrowing classes"),
                      ("R07.2", "forwarded attributes within {asend, athrow}; __anext__ from the intermediate generator"),
                      ("R07.3", "__aiter__ returns self; aclose closes only the intermediate generator"),
                      ("R07.4", "borrow() always wraps; internal borrow only iterates; scoped iterators reused later are passed borrowed"),
                      ("R07.5", "no __del__ / finaliser")):
        ctx.rule(rid, text)
    ctx.assume("`async for` does not close the iterator it iterates (language semantics)")
    uses = r07_1(ctx, ctx.pkg, report=True)
    ctx.count("underlying_uses", uses)
    r07_2(ctx)
    r07_3(ctx)
    r07_4(ctx)
    r07_5(ctx)
    r07_6(ctx)
    r07_7(ctx)
    r07_8(ctx)
    r07_9(ctx)
    # the handle of ``scoped_iter`` is documented as borrowed: every iterator that can be closed is put behind the scoped
    # (borrowed) wrapper, the bare iterator is handed out only when it has no aclose at all
    from . import c08 as _c08
    from .common import Relabel as _Rel
    ctx.rule("R07.10", "scoped_iter hands out the bare iterator only if that iterator - not the iterable it was made from - has no "
                       "aclose; otherwise the borrowed wrapper (R08.4, shared)")
    _c08.r08_4(_Rel(ctx, "R07.10"))
    positive_example(ctx)
    ctx.floor("underlying_uses", 5)
    ctx.floor("positive_example_fired", 1)


def r07_8(ctx) -> None:
    """A borrowed handle forwards asend / athrow to the underlying iterator (that is its documented job), so a library
    tool that throws into or sends to an iterator it was handed would reach the owner's iterator through the handle."""
    from asl.cfg import cfg_of as _cfg
    from .common import real_units
    ctx.rule("R07.8", "no library operation calls athrow / asend on an iterator it was given (a borrowed handle forwards both to the "
                      "underlying iterator: throwing into the handle would terminate the owner's iterator)")
    borrow = {ctx.pkg.cls(s).node for s in BORROW_CLASSES}
    n_sites = 0
    for u in real_units(ctx):
        if u.cls is not None and u.cls.node in borrow:
            continue  # the handle's own forwarding
        cfg = _cfg(u)
        for n in cfg.nodes:
            if n.kind != "attr" or n.tag or n.ast.attr not in ("athrow", "asend") or not isinstance(n.ast.ctx, ast.Load):
                continue
            v = ctx.vals.expr(u, n.ast.value, n)
            if any(a[0] in ("user", "iter", "item", "scoped", "borrowed") for a in atoms_deep(v)):
                n_sites += 1
                ctx.fail("R07.8", u, n.ast, f"`{norm(n.ast)}` is looked up on an iterator the operation was handed: through a borrowed "
                         "or scoped handle this reaches the owner's underlying iterator", node=n)
    if not n_sites:
        ctx.ok("R07.8", "package", "no athrow / asend on an iterator handed to a library operation")


def r07_7(ctx) -> None:
    """The tables R07.2/R07.3 are decided on the borrowed handle's own methods; they hold for a
    subclass only if the subclass leaves those methods alone: a subclass of the handle overrides
    nothing but ``aclose`` (whose own rule is C08's) and ``__repr__``."""
    ctx.rule("R07.7", "subclasses of the borrowed handle inherit construction, iteration, forwarding and disabling unchanged")
    base = ctx.pkg.cls(BORROW_CLASSES[0])
    base_name = ctx.pkg.cls_name(BORROW_CLASSES[0])
    for mod in ctx.pkg.modules.values():
        for info in mod.classes.values():
            if info is base or base_name not in [b.split("[")[0].split(".")[-1] for b in info.bases]:
                continue
            ctx.count("handle_subclasses")
            overridden = sorted(set(info.methods) - {"__repr__", "aclose"})
            ctx.check(not overridden, "R07.7", f"{mod.short}.{info.name}", "methods",
                      f"{info.name} overrides nothing of the borrowed handle but aclose/__repr__", witness=str(overridden))


def _parents(root) -> Dict[int, ast.AST]:
    out = {}
    for n in ast.walk(root):
        for c in ast.iter_child_nodes(n):
            out[id(c)] = n
    return out


def _attr_names(ctx_or_none, meth, expr: ast.AST, parents) -> Optional[set]:
    """The attribute names a ``getattr``/``hasattr``/``setattr`` name argument can take: a
    string constant, or the variable of a ``for`` loop over a constant tuple of strings
    (literal or module-level)."""
    if isinstance(expr, ast.Constant) and isinstance(expr.value, str):
        return {expr.value}
    if isinstance(expr, ast.Name):
        for loop in ast.walk(meth.node):
            if isinstance(loop, ast.For) and isinstance(loop.target, ast.Name) and loop.target.id == expr.id:
                it = loop.iter
                if isinstance(it, ast.Name):
                    sym = meth.module.symbols.get(it.id)
                    it = sym[1] if sym is not None and sym[0] == "assign" else it
                try:
                    vals = ast.literal_eval(it)
                except Exception:  # noqa: BLE001
                    return None
                if isinstance(vals, (tuple, list, set, frozenset)) and all(isinstance(v, str) for v in vals):
                    return set(vals)
    return None


ALLOWED_USES = ("keep", "iterate", "probe", "forward", "repr")


def _classify_use(name: ast.AST, parents, meth=None, _depth: int = 0) -> str:
    """How is this load of the underlying iterator used?"""
    p = parents.get(id(name))
    # bound to a local first (``wrapped = self.__wrapped__`` / ``kind, wrapped = self._kind, self.__wrapped__``):
    # what counts is what is done with the local
    local = None
    if isinstance(p, ast.Assign) and p.value is name and len(p.targets) == 1 and isinstance(p.targets[0], ast.Name):
        local = p.targets[0].id
    gp = parents.get(id(p)) if p is not None else None
    if isinstance(p, ast.Tuple) and isinstance(gp, ast.Assign) and gp.value is p and len(gp.targets) == 1 \
            and isinstance(gp.targets[0], ast.Tuple) and len(gp.targets[0].elts) == len(p.elts):
        t = gp.targets[0].elts[p.elts.index(name)]
        local = t.id if isinstance(t, ast.Name) else None
    if local is not None and meth is not None and _depth < 3:
        stores = [x for x in ast.walk(meth.node) if isinstance(x, ast.Name) and x.id == local and isinstance(x.ctx, ast.Store)]
        loads = [x for x in ast.walk(meth.node) if isinstance(x, ast.Name) and x.id == local and isinstance(x.ctx, ast.Load)]
        if len(stores) == 1:
            hows = [_classify_use(x, parents, meth, _depth + 1) for x in loads]
            bad = [h for h in hows if h not in ALLOWED_USES]
            return bad[0] if bad else (hows[0] if hows else "keep")
    if isinstance(p, (ast.Assign, ast.AnnAssign)) and p.value is name:
        tgts = p.targets if isinstance(p, ast.Assign) else [p.target]
        if all(isinstance(t, ast.Attribute) and t.attr == "__wrapped__" for t in tgts):
            return "keep"
        return f"stored in {norm(tgts[0])}"
    if isinstance(p, ast.comprehension) and p.iter is name:
        return "iterate"
    if isinstance(p, ast.Call) and norm(p.func) in ("hasattr", "getattr") and p.args and p.args[0] is name and len(p.args) >= 2:
        if norm(p.func) == "hasattr" and isinstance(p.args[1], ast.Constant):
            return "probe"
        names = _attr_names(None, meth, p.args[1], parents) if meth is not None else None
        if names is not None and names <= FORWARDED:
            return "probe" if norm(p.func) == "hasattr" else "forward"
        return f"passed to {norm(p.func)}() with attribute name(s) {sorted(names) if names is not None else 'unknown'}"
    if isinstance(p, ast.Attribute) and p.value is name:
        if p.attr in FORWARDED:
            return "forward"
        return f"attribute .{p.attr}"
    if isinstance(p, ast.FormattedValue):
        return "repr"
    if isinstance(p, ast.Call) and meth is not None and len(p.args) == 1 and not p.keywords:
        r = meth.module.pkg.resolve_expr_global(meth.module, p.func)
        if r.kind == "lib" and r.qual.endswith("._core.borrow"):
            return "iterate"  # the internal borrow only iterates its argument (R07.4)
    if isinstance(p, ast.Call):
        return f"passed to {norm(p.func)}()"
    if isinstance(p, (ast.AsyncFor, ast.For)) and p.iter is name:
        return "iterate"
    return f"used in {type(p).__name__}"


def r07_1(ctx, pkg: Package, report: bool, fail_rule: str = "R07.1") -> int:
    uses = 0
    for short in BORROW_CLASSES:
        info = pkg.cls(short)
        init = None
        for c in ctx.vals.mro(info.fq) if pkg is ctx.pkg else [info]:
            if "__init__" in c.methods:
                init = c.methods["__init__"]
                break
        pname = init.param_names()[1] if init is not None and len(init.param_names()) > 1 else None
        for meth in info.methods.values():
            if pkg is ctx.pkg:
                meth = ctx.inlined(meth)  # private helpers that are handed the iterator are looked into
            parents = _parents(meth.node)
            for n in ast.walk(meth.node):
                underlying = False
                if isinstance(n, ast.Name) and isinstance(n.ctx, ast.Load) and meth.qualname.endswith("__init__") \
                        and n.id == pname:
                    underlying = True
                if isinstance(n, ast.Attribute) and isinstance(n.ctx, ast.Load) and n.attr == "__wrapped__" \
                        and isinstance(n.value, ast.Name) and n.value.id == "self":
                    underlying = True
                if not underlying:
                    continue
                uses += 1
                how = _classify_use(n, parents, meth)
                ok = how in ALLOWED_USES
                if report:
                    ctx.check(ok, fail_rule, meth, parents.get(id(n)) or n,
                              f"the underlying iterator is only {how}" if ok else
                              f"the underlying iterator is {how}: the borrowed handle could close or leak it",
                              witness="" if ok else "allowed uses: keep in __wrapped__, iterate, hasattr probe, forward asend/athrow")
                elif not ok:
                    return -1
    return uses


# --------------------------------------------------------------------------- object model
class _BorrowOps:
    """Abstract objects: ITER (the underlying iterator), SELF (the handle, fields in
    env['@f:<name>']), ('gen', ITER) — a generator expression that only iterates ITER and
    passes its items on —, ('meth', obj, name) and ('call', callee)."""

    def __init__(self, has: bool, consts: Optional[dict] = None):
        self.has = has  # does the underlying iterator have asend/athrow?
        self.consts = consts or {}

    def name(self, ident, env):
        return self.consts.get(ident, UNKNOWN)  # module-level constants (tuples of method names)

    def attr(self, value, name, node, env):
        if value == "SELF":
            return env.get("@f:" + name, ("unset", name))
        if value == "ITER" or (isinstance(value, tuple) and value[:1] in (("gen",), ("gen?",))):
            if name in ("__anext__", "__aiter__", "asend", "athrow", "aclose"):
                return ("meth", value, name)
            return UNKNOWN  # state of the object (ag_frame, ag_running, ...): not known statically
        return UNKNOWN

    def call(self, func, args, kwargs, node, env):
        if func == "getattr" and len(args) >= 2 and isinstance(args[1], str):
            return self.attr(args[0], args[1], node, env)
        if func == "hasattr" and len(args) == 2 and isinstance(args[1], str):
            if args[0] == "ITER":
                # ``has``: True / False (asend and athrow both present / absent) or the set of those present
                return (args[1] in self.has) if isinstance(self.has, frozenset) else self.has
            if args[0] == "SELF":
                return ("@f:" + args[1]) in env
            return UNKNOWN
        if func == "cast" and len(args) == 2:
            return args[1]
        if isinstance(node.func, ast.Attribute):
            from asl.absint import AbsEval
            callee = AbsEval(self).eval(node.func, env)
            if isinstance(callee, tuple) and callee[:1] == ("meth",):
                return ("call", callee)
        return UNKNOWN

    def other(self, e, env, ev):
        if isinstance(e, ast.GeneratorExp):
            g = e.generators[0]
            src = ev.eval(g.iter, env)
            plain = len(e.generators) == 1 and g.is_async and not g.ifs and isinstance(e.elt, ast.Name) \
                and isinstance(g.target, ast.Name) and e.elt.id == g.target.id
            if src is UNKNOWN:
                return UNKNOWN
            return ("gen", src) if plain else ("gen?", src)
        return UNKNOWN

    def store(self, target, value, env, ev):
        if isinstance(target, ast.Attribute) and ev.eval(target.value, env) == "SELF":
            env["@f:" + target.attr] = value

    def iter(self, node, env):
        return None

    def next(self, node, env):
        from asl.absint import AbsEval, STOP
        seq = AbsEval(self).eval(node.info.get("iter"), env)
        if not isinstance(seq, tuple) or not all(isinstance(x, str) for x in seq):
            return UNKNOWN
        pos = dict(env.get("@pos", {}))
        i = pos.get(node.id, 0)
        if i >= len(seq):
            pos[node.id] = 0
            env["@pos"] = pos
            return STOP
        pos[node.id] = i + 1
        env["@pos"] = pos
        return seq[i]

    def visit(self, node, env, ev):
        if node.kind == "call" and norm(node.ast.func) == "setattr" and len(node.ast.args) == 3:
            obj, name, val = (ev.eval(a, env) for a in node.ast.args)
            if obj == "SELF" and isinstance(name, str):
                env["@f:" + name] = val
            else:
                env["@bad"] = env.get("@bad", ()) + (f"setattr({norm(node.ast.args[0])}, {norm(node.ast.args[1])}, ..)",)
        if node.kind == "await":
            env["@awaits"] = env.get("@awaits", ()) + (ev.eval(node.info.get("value"), env),)


def _module_constants(module) -> dict:
    out = {}
    for name, sym in module.symbols.items():
        if sym[0] == "assign":
            try:
                v = ast.literal_eval(sym[1])
            except Exception:  # noqa: BLE001
                continue
            if isinstance(v, (tuple, str)):
                out[name] = v
    return out


def _fields(env) -> dict:
    return {k[3:]: v for k, v in env.items() if k.startswith("@f:")}


def _mentions_iter(v) -> bool:
    if v == "ITER":
        return True
    if isinstance(v, tuple):
        if v[:1] in (("gen",), ("gen?",)):
            return False  # the generator only iterates it (checked separately)
        return any(_mentions_iter(x) for x in v)
    return False


def close_helper(ctx):
    """The coroutine that ``_BorrowedAsyncIterator.aclose()`` runs (aclose itself if it is one)."""
    info = ctx.pkg.cls(BORROW_CLASSES[0])
    acl = info.methods.get("aclose")
    if acl is None:
        raise AnalysisError("_BorrowedAsyncIterator.aclose missing (anchor moved)")
    if acl.kind == "coroutine":
        return acl
    for r in own_nodes(acl.node):
        if isinstance(r, ast.Return) and isinstance(r.value, ast.Call) and isinstance(r.value.func, ast.Attribute) \
                and norm(r.value.func.value) == "self" and r.value.func.attr in info.methods \
                and info.methods[r.value.func.attr].kind == "coroutine":
            return info.methods[r.value.func.attr]
    return None


HAS_CASES = (True, False, frozenset({"asend"}), frozenset({"athrow"}))


def _has_text(has) -> str:
    if isinstance(has, frozenset):
        return f"underlying iterator with {'/'.join(sorted(has))} only"
    return f"underlying iterator {'with' if has else 'without'} asend/athrow"


def _init_outcomes(ctx, has):
    from asl.absint import Machine
    from .common import make_resolver
    info = ctx.pkg.cls(BORROW_CLASSES[0])
    init = info.methods["__init__"]
    me, pname = init.param_names()[0], init.param_names()[1]
    ops = _BorrowOps(has, _module_constants(init.module))
    env = {me: "SELF", pname: "ITER"}
    try:
        return init, Machine(cfg_of(init), ops, resolver=make_resolver(ctx, init, ops)).run(env)
    except AnalysisError:
        # (a loop the finite model cannot follow, e.g. a walk along a chain of wrappers: no outcome - the table reports it)
        return init, []


def r07_9(ctx) -> None:
    """What a handle has disabled (asend / athrow after its close) and what it shields (the underlying iterator's aclose)
    only holds as long as nobody reaches *through* the handle: the field that keeps the underlying iterator is read on the
    handle's own ``self`` only - never on an iterator that was passed in (``it.__wrapped__`` of a borrowed argument)."""
    ctx.rule("R07.9", "no library code looks through a borrowed handle: the field holding the underlying iterator is read on `self` "
                      "only, never on an argument (re-borrowing binds to the handle it was given, scoped_iter scopes the handle it "
                      "was given)")
    info = ctx.pkg.cls(BORROW_CLASSES[0])
    init = info.methods["__init__"]
    me, pname = init.param_names()[0], init.param_names()[1]
    fields = {t.attr for st in own_nodes(init.node) if isinstance(st, (ast.Assign, ast.AnnAssign))
              for t in (st.targets if isinstance(st, ast.Assign) else [st.target])
              if isinstance(t, ast.Attribute) and norm(t.value) == me and isinstance(getattr(st, "value", None), ast.Name)
              and st.value.id == pname}
    bad = 0
    for u in real_units(ctx):
        if u.module.short not in ("asynctools", "_core"):
            continue
        own = u.param_names()[0] if u.cls is not None and u.param_names() and not u.is_static() else None
        for x in own_nodes(u.node):
            if isinstance(x, ast.Attribute) and isinstance(x.ctx, ast.Load) and x.attr in fields and norm(x.value) != own:
                bad += 1
                ctx.fail("R07.9", u, x, f"`{norm(x)}` reads the underlying iterator out of a handle that was passed in: what is done "
                         "with it bypasses the handle (its disabled asend / athrow, its no-op aclose)", line=x.lineno)
    if not bad:
        ctx.ok("R07.9", "asynctools", f"the field(s) {sorted(fields)} are read on self only")


def r07_2(ctx) -> None:
    info = ctx.pkg.cls(BORROW_CLASSES[0])
    gen = ("gen", "ITER")
    for has in HAS_CASES:
        init, outs = _init_outcomes(ctx, has)
        ctx.count("borrow_init_cells")
        cell = _has_text(has)
        ctx.check(bool(outs) and all(oc.terminal.kind == "exit" for oc in outs), "R07.2", init, "__init__",
                  f"[{cell}] the handle's construction was evaluated")
        for oc in outs:
            fields = _fields(oc.env)
            gens = [f for f, v in fields.items() if isinstance(v, tuple) and v[:1] in (("gen",), ("gen?",))]
            ctx.check(any(fields[f] == gen for f in gens) and all(fields[f] == gen for f in gens), "R07.2", init, "__init__",
                      f"[{cell}] an intermediate generator is created per handle; it only iterates the underlying iterator "
                      "and passes its items through unchanged", witness=str({f: fields[f] for f in gens}))
            ctx.check(fields.get("__anext__") == ("meth", gen, "__anext__"), "R07.2", init, "__anext__",
                      f"[{cell}] __anext__ is the intermediate generator's, so closing it really stops the handle from "
                      "advancing the underlying iterator", witness=str(fields.get("__anext__")))
            for f, v in sorted(fields.items()):
                if f == "__wrapped__":
                    ctx.check(v == "ITER", "R07.2", init, f, f"[{cell}] __wrapped__ keeps the underlying iterator")
                    continue
                if not _mentions_iter(v):
                    continue
                ok = f in FORWARDED and v == ("meth", "ITER", f)
                ctx.check(ok, "R07.2", init, f,
                          f"[{cell}] `{f}` forwards the underlying iterator's `{f}` (allowed: asend, athrow)" if ok else
                          f"[{cell}] attribute `{f}` of the handle exposes {v}: only asend/athrow may be forwarded",
                          witness=str(v))
            ctx.check(not oc.env.get("@bad"), "R07.2", init, "__init__", f"[{cell}] attributes are only set on the handle itself",
                      witness=str(oc.env.get("@bad")))
    slots = info.slots or []
    ctx.check("aclose" not in slots and "__aiter__" not in slots, "R07.2", BORROW_CLASSES[0], "__slots__",
              "aclose and __aiter__ are class-level methods and cannot be rebound per instance to the underlying ones")


def r07_3(ctx) -> None:
    from asl.absint import Machine
    from .common import make_resolver
    info = ctx.pkg.cls(BORROW_CLASSES[0])
    aiter = info.methods.get("__aiter__")
    rets = [n for n in own_nodes(aiter.node) if isinstance(n, ast.Return)] if aiter else []
    ctx.check(aiter is not None and bool(rets) and all(norm(r.value) == "self" for r in rets), "R07.3",
              aiter or BORROW_CLASSES[0], "__aiter__",
              "__aiter__ returns the borrowed handle itself (closing iter(borrowed) cannot reach the source)")
    helper = close_helper(ctx)
    gen = ("gen", "ITER")
    if helper is None:
        ctx.fail("R07.3", info.methods["aclose"], "aclose", "aclose() does not run a coroutine of the handle that closes the "
                 "intermediate generator and then redirects asend/athrow: after closing, the forwarded methods still "
                 "reach the underlying iterator")
        return
    # what closing does is evaluated on the handle's ``aclose`` itself (it may take a path that never reaches the
    # helper), for underlying iterators with both, none or just one of asend / athrow
    closer = info.methods["aclose"]
    for has in HAS_CASES:
        init, outs = _init_outcomes(ctx, has)
        for oc in outs:
            if oc.terminal.kind != "exit":
                continue
            ops = _BorrowOps(has, _module_constants(helper.module))
            env = {k: v for k, v in oc.env.items() if k.startswith("@f:")}
            env[closer.param_names()[0]] = "SELF"
            for oc2 in Machine(cfg_of(closer), ops, resolver=make_resolver(ctx, closer, ops, coroutines=True)).run(env):
                ctx.count("borrow_close_cells")
                cell = _has_text(has)
                awaits = oc2.env.get("@awaits", ())
                rv = oc2.returned if oc2.terminal.kind == "exit" else None
                if closer.kind == "sync" and isinstance(rv, tuple) and rv[:1] == ("call",):
                    awaits = awaits + (rv,)  # the awaitable aclose() hands back is awaited by its caller
                ctx.check(oc2.terminal.kind == "exit" and awaits == (("call", ("meth", gen, "aclose")),), "R07.3", helper,
                          helper.node.name, f"[{cell}] closing awaits exactly the intermediate generator's aclose()",
                          witness=str(awaits))
                fields = _fields(oc2.env)
                for name in sorted(FORWARDED):
                    v = fields.get(name)
                    if v is None:
                        continue
                    ok = v == ("meth", gen, name)
                    ctx.check(ok, "R07.3", helper, name,
                              f"[{cell}] after closing, `{name}` no longer reaches the underlying iterator directly",
                              witness=str(v))
                leaks = [f for f, v in fields.items() if f != "__wrapped__" and _mentions_iter(v)]
                ctx.check(not leaks, "R07.3", helper, helper.node.name,
                          f"[{cell}] after closing no attribute but __wrapped__ refers to the underlying iterator",
                          witness=str(leaks))


def r07_4(ctx) -> None:
    u = ctx.unit("asynctools.borrow")
    cfg = cfg_of(u)
    rets = [n for n in cfg.nodes if n.kind == "return" and not n.tag]
    ok = bool(rets)
    for r in rets:
        v = ctx.vals.expr(u, r.info.get("value"), r)
        ok = ok and bool(v) and all(a[0] == "libinst" and a[1] == ctx.pkg.cls(BORROW_CLASSES[0]).fq for a in v)
    ctx.check(ok, "R07.4", u, rets[0] if rets else "borrow", "borrow() returns a borrowed wrapper on every non-raising path")
    unwraps = [n for n in own_nodes(u.node) if isinstance(n, ast.Attribute) and (
        n.attr == "__wrapped__" or (n.attr.startswith("_") and not n.attr.startswith("__")))]
    ctx.check(not unwraps, "R07.4", u, unwraps[0] if unwraps else "borrow",
              "borrow() never reaches into an already borrowed / scoped argument (the new handle stays tied to the lifetime "
              "of the handle it was made from)")
    c = ctx.unit("_core.borrow")
    rets = [n for n in own_nodes(c.node) if isinstance(n, ast.Return)]
    p = c.param_names()[0]
    gen = rets[0].value if len(rets) == 1 else None
    if isinstance(gen, ast.Name):
        ccfg = cfg_of(c)
        rnodes = [n for n in ccfg.nodes if n.kind == "return" and not n.tag]
        from .common import name_value
        gen = name_value(ctx, c, ccfg, rnodes[0], gen.id) if rnodes else None
    ok = len(rets) == 1 and isinstance(gen, ast.GeneratorExp) and len(gen.generators) == 1 \
        and gen.generators[0].is_async and norm(gen.generators[0].iter) == p \
        and isinstance(gen.elt, ast.Name) and not gen.generators[0].ifs
    ctx.check(ok, "R07.4", c, rets[0] if rets else "borrow",
              "the internal borrow returns a new generator whose only use of the source is iterating it")
    names = [x.id for x in own_nodes(c.node) if isinstance(x, ast.Name) and x.id == p]
    ctx.check(len(names) == 1, "R07.4", c, "borrow", "the source is mentioned exactly once (the iteration)")
    # scoped iterators that are used again later are only passed on borrowed
    for unit in real_units(ctx):
        if unit.kind not in ("coroutine", "asyncgen"):
            continue
        cfg = cfg_of(unit)
        for n in cfg.nodes:
            if n.kind != "store" or n.tag or "source_enter" not in n.info:
                continue
            item = n.info["source_enter"]
            cmv = ctx.vals.expr(unit, item.context_expr, n)
            if not any(a[0] == "scoped" for a in cmv):
                continue
            tgt = n.info["targets"][0]
            if not isinstance(tgt, ast.Name):
                continue
            _passed_unborrowed(ctx, unit, cfg, tgt.id)


def _passed_unborrowed(ctx, unit, cfg, name: str) -> None:
    for c in cfg.nodes:
        if c.kind != "call" or c.tag:
            continue
        call = c.ast
        direct = [a for a in call.args if isinstance(a, ast.Name) and a.id == name]  # type: ignore[union-attr]
        if not direct:
            continue
        fv = ctx.vals.expr(unit, call.func, c)  # type: ignore[union-attr]
        owning = False
        for f in fv:
            if f[0] == "libfn":
                t = ctx.pkg.lib_unit(f[1])
                if t is not None and t.kind in ("asyncgen", "coroutine") and not f[1].endswith((".borrow", ".anext")):
                    # the callee takes ownership only of what it declares as an (any-)iterable it will
                    # close; a parameter typed as a plain AsyncIterator is advanced, not owned
                    from asl.values import roles_of_annotation
                    targs = t.node.args
                    positional = list(targs.posonlyargs) + list(targs.args)
                    for i, a in enumerate(call.args):  # type: ignore[union-attr]
                        if not (isinstance(a, ast.Name) and a.id == name):
                            continue
                        param = positional[i] if i < len(positional) else targs.vararg
                        if param is not None and "ITERABLE" in roles_of_annotation(param.annotation):
                            owning = True
                elif ctx.pkg.lib_class(f[1]) is not None:
                    owning = True
        if not owning:
            continue
        ctx.count("unborrowed_handovers")
        later = reachable([s for (lab, s) in c.succ if lab == "n"], edge_ok=lambda a, lab, b: lab not in ("e", "p"))
        used = []
        for m in later:
            if m.tag or m is c:
                continue
            node = m.ast if m.kind not in ("pull", "aiter", "enter", "exit_cm") else m.info.get("iter") or m.info.get("cm")
            if m.kind in ("pull", "aiter") and isinstance(m.info.get("iter"), ast.Call) and m.info["iter"] is call:
                continue
            if m.kind == "call" and m.ast is not call and any(isinstance(x, ast.Name) and x.id == name for x in ast.walk(m.ast)):
                used.append(m)
            elif m.kind in ("pull",) and isinstance(m.info.get("iter"), ast.Name) and m.info["iter"].id == name:
                used.append(m)
        ctx.check(not used, "R07.4", unit, call,
                  f"`{name}` is handed to an owning tool un-borrowed only where it is not used afterwards",
                  node=c, witness="; ".join(f"later use L{m.line}:{m.text()}" for m in used[:3]))


def r07_6(ctx) -> None:
    """A handle's life is ended only through its close coroutine (the one that also redirects
    asend/athrow): nobody else reaches for the handle's intermediate generator."""
    ctx.rule("R07.6", "the intermediate generator of a borrowed handle is touched only by the handle's own methods")
    info = ctx.pkg.cls(BORROW_CLASSES[0])
    gen_fields = set()
    for has in (True, False):
        _init, outs = _init_outcomes(ctx, has)
        for oc in outs:
            gen_fields |= {f for f, v in _fields(oc.env).items() if isinstance(v, tuple) and v[:1] in (("gen",), ("gen?",))}
    own = {id(m.node) for c in [info] + [ctx.pkg.cls(s) for s in BORROW_CLASSES[1:]] for m in c.methods.values()}
    bad = 0
    for u in real_units(ctx):
        top = u
        while top.parent is not None:
            top = top.parent
        if id(top.node) in own:
            continue
        for x in own_nodes(u.node):
            if isinstance(x, ast.Attribute) and x.attr in gen_fields:
                bad += 1
                ctx.fail("R07.6", u, x, f"`{norm(x)}` reaches into a borrowed handle's intermediate generator from outside the "
                         "handle: closing it this way skips the redirection of asend/athrow", line=x.lineno)
    if not bad:
        ctx.ok("R07.6", "package", f"no outside access to the handle's generator field(s) {sorted(gen_fields)}")


def r07_5(ctx) -> None:
    for short in BORROW_CLASSES + ["asynctools._ScopedAsyncIteratorContext"]:
        info = ctx.pkg.cls(short)
        ctx.check("__del__" not in info.methods, "R07.5", short, "__del__", "no finaliser that could close the source")
    mod = ctx.pkg.module("asynctools")
    ctx.check(not any(m == "weakref" for (m, _n, _l, _node) in mod.imports), "R07.5", "asynctools", "imports",
              "no weakref finalisers in the module")


def positive_example(ctx) -> None:
    """Zero-count rule: a frozen positive example must fire on every run."""
    root = os.path.join(POSITIVE, "borrow_leaks_aclose")
    pkg = Package(root)
    from asl.report import Ctx
    sub = Ctx("C07", pkg)
    r07_1(sub, pkg, report=True)
    fired = [f for f in sub.findings if f.rule == "R07.1"]
    ctx.count("positive_example_fired", 1 if fired else 0)
    if fired:
        ctx.ok("R07.1", "selftest/positive/borrow_leaks_aclose", "the positive example (aclose lookup on the underlying "
               "iterator) is reported by the rule", finding=fired[0].message[:120])
