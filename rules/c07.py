"""C07 — a borrowed iterator can never close its underlying iterator.

Ownership / who-may-call.  The expected number of violations is zero, so a tiny positive
example (selftest/positive/borrow_leaks_aclose.py) must make R07.1 fire on every run.

R07.1 inside the borrowing classes the underlying iterator is used only in the whitelisted
      ways: kept in ``__wrapped__``, iterated by the intermediate generator, probed with
      ``hasattr``, and its ``asend`` / ``athrow`` looked up.  In particular there is no
      ``.aclose`` lookup on it and it is not handed to any other callable.
R07.2 forwarding set: attributes of the underlying iterator re-exported on the borrowed
      object are within {asend, athrow}; ``__anext__`` is the intermediate generator's.
R07.3 ``__aiter__`` returns ``self``; ``aclose`` closes the intermediate generator and then
      rebinds asend/athrow to the generator's (closing disables the handle).
R07.4 ``asynctools.borrow`` returns a borrowed wrapper on every non-raising path;
      ``_core.borrow`` returns a new generator that only iterates its argument; a scoped
      iterator that is used again later is only ever passed on through a borrowed view.
R07.5 no ``__del__`` / finaliser on the borrowing classes.
"""
from __future__ import annotations

import ast
import os
from typing import Dict, List, Optional

from asl.cfg import cfg_of
from asl.flow import reachable
from asl.loader import AnalysisError, Package, norm, own_nodes
from asl.values import mentions
from .common import real_units

LEVEL = {
    "decided": "C07: (R07.1) who-may-touch rule for the underlying iterator inside the borrowing classes — no aclose "
               "lookup, not passed to any callable; (R07.2) only asend/athrow are forwarded and __anext__ comes from the "
               "intermediate generator; (R07.3) __aiter__ returns self, aclose closes only the intermediate generator and "
               "redirects asend/athrow; (R07.4) borrow() always wraps, the internal borrow only iterates, and library "
               "tools pass a scoped iterator they still need only through a borrowed view; (R07.5) no finaliser.",
    "not_decided": "that items taken through the handle are the remaining ones, once, in order (value level, C01 "
                   "residual); a user deliberately calling athrow(GeneratorExit) on the handle.",
    "technique": "static analysis: who-may-call / ownership rule over resolved attribute uses",
}

BORROW_CLASSES = ["asynctools._BorrowedAsyncIterator", "asynctools._ScopedAsyncIterator"]
FORWARDED = {"asend", "athrow"}
POSITIVE = os.path.join(os.path.dirname(os.path.dirname(os.path.abspath(__file__))), "selftest", "positive")


def run(ctx) -> None:
    for rid, text in (("R07.1", "underlying iterator only used in whitelisted ways inside the borrowing classes"),
                      ("R07.2", "forwarded attributes within {asend, athrow}; __anext__ from the intermediate generator"),
                      ("R07.3", "__aiter__ returns self; aclose closes only the intermediate generator"),
                      ("R07.4", "borrow() always wraps; internal borrow only iterates; scoped iterators reused later are passed borrowed"),
                      ("R07.5", "no __del__ / finaliser")):
        ctx.rule(rid, text)
    ctx.assume("`async for` does not close the iterator it iterates (language semantics)")
    uses = r07_1(ctx, ctx.pkg, report=True)
    ctx.count("underlying_uses", uses)
    r07_2(ctx)
    r07_3(ctx)
    r07_4(ctx)
    r07_5(ctx)
    positive_example(ctx)
    ctx.floor("underlying_uses", 5)
    ctx.floor("positive_example_fired", 1)


def _parents(root) -> Dict[int, ast.AST]:
    out = {}
    for n in ast.walk(root):
        for c in ast.iter_child_nodes(n):
            out[id(c)] = n
    return out


def _classify_use(name: ast.AST, parents) -> str:
    """How is this load of the underlying iterator used?"""
    p = parents.get(id(name))
    if isinstance(p, ast.Assign) and p.value is name:
        tgt = p.targets[0]
        if isinstance(tgt, ast.Attribute) and tgt.attr == "__wrapped__":
            return "keep"
        return f"stored in {norm(tgt)}"
    if isinstance(p, ast.comprehension) and p.iter is name:
        return "iterate"
    if isinstance(p, ast.Call) and norm(p.func) == "hasattr" and p.args and p.args[0] is name:
        return "probe"
    if isinstance(p, ast.Attribute) and p.value is name:
        if p.attr in FORWARDED:
            return "forward"
        return f"attribute .{p.attr}"
    if isinstance(p, ast.FormattedValue):
        return "repr"
    if isinstance(p, ast.Call):
        return f"passed to {norm(p.func)}()"
    if isinstance(p, (ast.AsyncFor, ast.For)) and p.iter is name:
        return "iterate"
    return f"used in {type(p).__name__}"


def r07_1(ctx, pkg: Package, report: bool, fail_rule: str = "R07.1") -> int:
    uses = 0
    for short in BORROW_CLASSES:
        info = pkg.cls(short)
        init = None
        for c in ctx.vals.mro(info.fq) if pkg is ctx.pkg else [info]:
            if "__init__" in c.methods:
                init = c.methods["__init__"]
                break
        pname = init.param_names()[1] if init is not None and len(init.param_names()) > 1 else None
        for meth in info.methods.values():
            parents = _parents(meth.node)
            for n in ast.walk(meth.node):
                underlying = False
                if isinstance(n, ast.Name) and isinstance(n.ctx, ast.Load) and meth.qualname.endswith("__init__") \
                        and n.id == pname:
                    underlying = True
                if isinstance(n, ast.Attribute) and isinstance(n.ctx, ast.Load) and n.attr == "__wrapped__" \
                        and isinstance(n.value, ast.Name) and n.value.id == "self":
                    underlying = True
                if not underlying:
                    continue
                uses += 1
                how = _classify_use(n, parents)
                ok = how in ("keep", "iterate", "probe", "forward", "repr")
                if report:
                    ctx.check(ok, fail_rule, meth, parents.get(id(n)) or n,
                              f"the underlying iterator is only {how}" if ok else
                              f"the underlying iterator is {how}: the borrowed handle could close or leak it",
                              witness="" if ok else "allowed uses: keep in __wrapped__, iterate, hasattr probe, forward asend/athrow")
                elif not ok:
                    return -1
    return uses


def r07_2(ctx) -> None:
    info = ctx.pkg.cls(BORROW_CLASSES[0])
    init = info.methods["__init__"]
    pname = init.param_names()[1]
    gen_fields = set()
    for s in own_nodes(init.node):
        if isinstance(s, (ast.Assign, ast.AnnAssign)):
            tgt = s.targets[0] if isinstance(s, ast.Assign) else s.target
            val = s.value
            if isinstance(tgt, ast.Attribute) and isinstance(val, ast.GeneratorExp):
                ok = len(val.generators) == 1 and val.generators[0].is_async and isinstance(val.generators[0].iter, ast.Name) \
                    and val.generators[0].iter.id == pname and isinstance(val.elt, ast.Name) and not val.generators[0].ifs
                ctx.check(ok, "R07.2", init, s, "the intermediate generator only iterates the underlying iterator "
                          "and passes its items through unchanged")
                gen_fields.add(tgt.attr)
    ctx.check(bool(gen_fields), "R07.2", init, "__init__", "an intermediate generator is created per borrowed handle")
    for meth in info.methods.values():
        for s in own_nodes(meth.node):
            if not isinstance(s, ast.Assign):
                continue
            for tgt in s.targets:
                if not (isinstance(tgt, ast.Attribute) and isinstance(tgt.value, ast.Name) and tgt.value.id == "self"):
                    continue
                val = s.value
                if isinstance(val, ast.Attribute) and isinstance(val.value, ast.Name) and val.value.id == pname \
                        and meth is init:
                    ctx.check(tgt.attr in FORWARDED and val.attr == tgt.attr, "R07.2", meth, s,
                              f"`{tgt.attr}` forwards the underlying iterator's `{val.attr}` (allowed: asend, athrow)")
                if tgt.attr == "__anext__":
                    ok = isinstance(val, ast.Attribute) and val.attr == "__anext__" and \
                        norm(val.value) in {f"self.{g}" for g in gen_fields}
                    ctx.check(ok, "R07.2", meth, s, "__anext__ is the intermediate generator's, so closing it really "
                              "stops the handle from advancing the underlying iterator")
    slots = info.slots or []
    ctx.check("aclose" not in slots and "__aiter__" not in slots, "R07.2", BORROW_CLASSES[0], "__slots__",
              "aclose and __aiter__ are class-level methods and cannot be rebound per instance to the underlying ones")


def r07_3(ctx) -> None:
    info = ctx.pkg.cls(BORROW_CLASSES[0])
    aiter = info.methods.get("__aiter__")
    rets = [n for n in own_nodes(aiter.node) if isinstance(n, ast.Return)] if aiter else []
    ctx.check(aiter is not None and bool(rets) and all(norm(r.value) == "self" for r in rets), "R07.3",
              aiter or BORROW_CLASSES[0], "__aiter__",
              "__aiter__ returns the borrowed handle itself (closing iter(borrowed) cannot reach the source)")
    acl = info.methods.get("aclose")
    helper = info.methods.get("_aclose_wrapper")
    if acl is None or helper is None:
        raise AnalysisError("_BorrowedAsyncIterator.aclose/_aclose_wrapper missing (anchor moved)")
    rets = [n for n in own_nodes(acl.node) if isinstance(n, ast.Return)]
    ctx.check(bool(rets) and all(norm(r.value) == "self._aclose_wrapper()" for r in rets) or acl.kind == "coroutine",
              "R07.3", acl, "aclose", "aclose delegates to the wrapper-closing helper")
    cfg = cfg_of(helper)
    awaits = [n for n in cfg.nodes if n.kind == "await" and not n.tag]
    ok = len(awaits) == 1 and all(any(a[0] == "libcoro" and a[1].endswith(".aclose") for a in
                                      ctx.vals.expr(helper, n.info.get("value"), n)) for n in awaits)
    ctx.check(ok, "R07.3", helper, awaits[0] if awaits else "_aclose_wrapper",
              "closing awaits exactly the intermediate generator's aclose()",
              witness=str([sorted(ctx.vals.expr(helper, n.info.get('value'), n)) for n in awaits]))
    rebinds = {}
    for s in own_nodes(helper.node):
        if isinstance(s, ast.Assign):
            for t in s.targets:
                if isinstance(t, ast.Attribute) and isinstance(t.value, ast.Name) and t.value.id == "self":
                    rebinds[t.attr] = s.value
    for name in FORWARDED:
        v = rebinds.get(name)
        ok = isinstance(v, ast.Attribute) and v.attr == name and not norm(v.value).endswith("__wrapped__")
        ctx.check(ok, "R07.3", helper, name, f"after closing, `{name}` no longer reaches the underlying iterator directly")


def r07_4(ctx) -> None:
    u = ctx.unit("asynctools.borrow")
    cfg = cfg_of(u)
    rets = [n for n in cfg.nodes if n.kind == "return" and not n.tag]
    ok = bool(rets)
    for r in rets:
        v = ctx.vals.expr(u, r.info.get("value"), r)
        ok = ok and bool(v) and all(a[0] == "libinst" and a[1].endswith("_BorrowedAsyncIterator") for a in v)
    ctx.check(ok, "R07.4", u, rets[0] if rets else "borrow", "borrow() returns a borrowed wrapper on every non-raising path")
    c = ctx.unit("_core.borrow")
    rets = [n for n in own_nodes(c.node) if isinstance(n, ast.Return)]
    p = c.param_names()[0]
    gen = rets[0].value if len(rets) == 1 else None
    if isinstance(gen, ast.Name):
        ccfg = cfg_of(c)
        rnodes = [n for n in ccfg.nodes if n.kind == "return" and not n.tag]
        from .common import name_value
        gen = name_value(ctx, c, ccfg, rnodes[0], gen.id) if rnodes else None
    ok = len(rets) == 1 and isinstance(gen, ast.GeneratorExp) and len(gen.generators) == 1 \
        and gen.generators[0].is_async and norm(gen.generators[0].iter) == p \
        and isinstance(gen.elt, ast.Name) and not gen.generators[0].ifs
    ctx.check(ok, "R07.4", c, rets[0] if rets else "borrow",
              "the internal borrow returns a new generator whose only use of the source is iterating it")
    names = [x.id for x in own_nodes(c.node) if isinstance(x, ast.Name) and x.id == p]
    ctx.check(len(names) == 1, "R07.4", c, "borrow", "the source is mentioned exactly once (the iteration)")
    # scoped iterators that are used again later are only passed on borrowed
    for unit in real_units(ctx):
        if unit.kind not in ("coroutine", "asyncgen"):
            continue
        cfg = cfg_of(unit)
        for n in cfg.nodes:
            if n.kind != "store" or n.tag or "source_enter" not in n.info:
                continue
            item = n.info["source_enter"]
            cmv = ctx.vals.expr(unit, item.context_expr, n)
            if not any(a[0] == "scoped" for a in cmv):
                continue
            tgt = n.info["targets"][0]
            if not isinstance(tgt, ast.Name):
                continue
            _passed_unborrowed(ctx, unit, cfg, tgt.id)


def _passed_unborrowed(ctx, unit, cfg, name: str) -> None:
    for c in cfg.nodes:
        if c.kind != "call" or c.tag:
            continue
        call = c.ast
        direct = [a for a in call.args if isinstance(a, ast.Name) and a.id == name]  # type: ignore[union-attr]
        if not direct:
            continue
        fv = ctx.vals.expr(unit, call.func, c)  # type: ignore[union-attr]
        owning = False
        for f in fv:
            if f[0] == "libfn":
                t = ctx.pkg.lib_unit(f[1])
                if (t is not None and t.kind in ("asyncgen", "coroutine")) or ctx.pkg.lib_class(f[1]) is not None:
                    if not f[1].endswith((".borrow", ".anext")):
                        owning = True
        if not owning:
            continue
        ctx.count("unborrowed_handovers")
        later = reachable([s for (lab, s) in c.succ if lab == "n"], edge_ok=lambda a, lab, b: lab not in ("e", "p"))
        used = []
        for m in later:
            if m.tag or m is c:
                continue
            node = m.ast if m.kind not in ("pull", "aiter", "enter", "exit_cm") else m.info.get("iter") or m.info.get("cm")
            if m.kind in ("pull", "aiter") and isinstance(m.info.get("iter"), ast.Call) and m.info["iter"] is call:
                continue
            if m.kind == "call" and m.ast is not call and any(isinstance(x, ast.Name) and x.id == name for x in ast.walk(m.ast)):
                used.append(m)
            elif m.kind in ("pull",) and isinstance(m.info.get("iter"), ast.Name) and m.info["iter"].id == name:
                used.append(m)
        ctx.check(not used, "R07.4", unit, call,
                  f"`{name}` is handed to an owning tool un-borrowed only where it is not used afterwards",
                  node=c, witness="; ".join(f"later use L{m.line}:{m.text()}" for m in used[:3]))


def r07_5(ctx) -> None:
    for short in BORROW_CLASSES + ["asynctools._ScopedAsyncIteratorContext"]:
        info = ctx.pkg.cls(short)
        ctx.check("__del__" not in info.methods, "R07.5", short, "__del__", "no finaliser that could close the source")
    mod = ctx.pkg.module("asynctools")
    ctx.check(not any(m == "weakref" for (m, _n, _l, _node) in mod.imports), "R07.5", "asynctools", "imports",
              "no weakref finalisers in the module")


def positive_example(ctx) -> None:
    """Zero-count rule: a frozen positive example must fire on every run."""
    root = os.path.join(POSITIVE, "borrow_leaks_aclose")
    pkg = Package(root)
    from asl.report import Ctx
    sub = Ctx("C07", pkg)
    r07_1(sub, pkg, report=True)
    fired = [f for f in sub.findings if f.rule == "R07.1"]
    ctx.count("positive_example_fired", 1 if fired else 0)
    if fired:
        ctx.ok("R07.1", "selftest/positive/borrow_leaks_aclose", "the positive example (aclose lookup on the underlying "
               "iterator) is reported by the rule", finding=fired[0].message[:120])
