"""C05 — laziness: sources pulled and callables invoked in the stdlib's order (necessary clauses).

R05.1 no read-ahead through a local: at a pull of a source, no item pulled earlier from the
      same source is still waiting in a local variable to be yielded later.  Window table:
      ``pairwise`` (a pair needs two items).  (Read-ahead into containers is R20.1.)
R05.2 user-callable multiplicity: on any path between two consecutive pulls of the driving
      source each per-item callable (predicate / function / key) is invoked at most once.
R05.3 merge refills after yielding: every ``pull_head()`` of a holder is preceded, since
      the holder was bound, by the yield of that holder's head.
R05.4 short-circuit: the loop bodies of ``all`` / ``any`` are abstractly evaluated over
      element in {truthy, falsy}: the deciding element returns the constant without another
      pull, the other continues; exhaustion returns the opposite constant.
R05.5 islice stops without touching the item at ``stop``: the index test that ends the slice
      is reached from the yield of the last item without passing a pull.
R05.6 sources are visited in argument order (= R01.4, shared).
"""
from __future__ import annotations

import ast
from typing import Dict, List, Optional, Set

from asl.absint import STOP, UNKNOWN, AbsEval, Machine
from asl.cfg import Node, cfg_of
from asl.flow import find_path, node_defs, pretty_path, reaching
from asl.loader import AnalysisError, norm, own_nodes
from asl.values import mentions
from . import c01
from .common import make_resolver, Relabel
from .common import present_units as _present
from .lru import enumerate_paths

LEVEL = {
    "decided": "C05 (necessary clauses): (R05.1) no item is held back in a local across a further pull of the same "
               "source (window: pairwise); (R05.2) at most one invocation of each per-item callable between consecutive "
               "pulls; (R05.3) merge pulls a source's next head only after yielding its current head; (R05.4) all/any "
               "stop at the deciding element without another pull; (R05.5) islice as a table (64 slicings x 3 source lengths): "
               "yielded indexes and number of items pulled equal itertools.islice's; "
               "(R05.6) multi-source tools pull in argument order; (R05.7) a tee child with buffered items yields them without "
               "waiting for the lock; (R05.8) groupby publishes an item together with its key; (R05.9) merge computes keys only "
               "in the initial fill and while at least two sources are alive; (R05.10) zip_longest as a table (124 cells): rows and "
               "items taken per source equal itertools.zip_longest's, also when one iterator object is passed several times.",
    "not_decided": "identity of the complete interleaved event trace (pulls, end-of-source detections, callable "
                   "invocations, yields) with the stdlib's for every input and step count.",
    "technique": "static analysis: pending-at-pull dataflow, path counting, short-circuit / islice / zip_longest tables by abstract evaluation",
}
LEVEL["decided"] += ' (R05.11) the single-source tool tables of R01.12 (items taken and callable invocations per cell); (R05.12) a groupby group the parent has moved past ends without touching the source (R16.1, shared).'
LEVEL["decided"] += ' End-of-source detections are part of every compared trace (tool tables, islice, zip_longest, merge): an exhausted source is asked again exactly where the counterpart asks (found F12). (R05.13/R05.14/R05.15) groupby histories, tee histories and the merge table with the items taken from the source after every operation.'
LEVEL["decided"] += " The tables also compare the interleaving of requests to the sources, calls of the user's callable and hand-outs of items (tool tables, islice, zip_longest, merge). One open known finding: batched ends without asking its exhausted source once more where itertools.batched does (F16)."
LEVEL["technique"] += '; whole-tool tables and groupby / tee / merge histories by abstract evaluation over an object model (end-of-source detections included)'
LEVEL["decided"] += ' (R05.18) the truth value of a predicate / function / key never decides whether it is called (R03.12, shared).'
LEVEL["decided"] += ' (R05.16) the adapter around a synchronous source asks for one item per step, also for a collection that produces its items when asked (never a snapshot); (R05.17) a tee child that waited for the lock re-tests its buffer before it asks the source (R09.2, shared).'

TOOLS = c01.PASS_THROUGH + c01.TRANSFORMING
# look-behind windows are recognised structurally (the held item is yielded together with the newly
# pulled one); this table only documents the instance found on today's tree
WINDOW_LOCALS = {
    ("itertools.pairwise", "prev"): "a pair needs two consecutive items: one item of look-behind, like the stdlib",
}


def run(ctx) -> None:
    for rid, text in (("R05.1", "no item pending in a local at a further pull of the same source"),
                      ("R05.2", "each per-item callable at most once between consecutive pulls"),
                      ("R05.3", "merge refills a holder only after yielding its head"),
                      ("R05.4", "all/any short-circuit table"), ("R05.5", "islice ends without an extra pull"),
                      ("R05.6", "sources visited in argument order (R01.4)")):
        ctx.rule(rid, text)
    ctx.tables["window (locals)"] = {f"{k[0]}:{k[1]}": v for k, v in WINDOW_LOCALS.items()}
    for short in _present(ctx, TOOLS):
        u = ctx.unit(short)
        ctx.count("tools")
        r05_1(ctx, u)
    for short in _present(ctx, TOOLS) + ["builtins._min_max", "builtins.sorted", "functools.reduce", "heapq._largest",
                          "itertools._GroupByState.step"]:
        r05_2(ctx, ctx.unit(short))
    r05_3(ctx)
    r05_4(ctx)
    r05_5(ctx, consumption="ends")
    c01.r01_4(_Relabel(ctx))
    from . import c09
    ctx.rule("R05.7", "tee: a child with buffered items yields them without waiting for the lock (R09.2)")
    c09.lock_free_service(ctx, "R05.7")
    ctx.rule("R05.17", "tee: a child that had to wait for the lock tests its buffer again before it asks the source: no item is "
                       "taken that no child requested (R09.2, shared)")
    c09.run(Relabel(ctx, "R05.17", only=("R09.2",)))
    from . import c03 as _c03
    ctx.rule("R05.18", "a user's callable is invoked wherever the counterpart invokes it, also one that is falsy (a callable object "
                       "with __len__ or __bool__): whether one was given is decided by `is None`, never by its truth value (R03.12, shared)")
    _c03.r03_12(Relabel(ctx, "R05.18"), modules=("builtins", "itertools", "heapq", "_core"))
    from . import c16
    ctx.rule("R05.8", "groupby: pulling an item and computing its key are one step (after a failed or cancelled key call the item "
                      "is not left behind as if it had been keyed) (R16.3, shared)")
    from . import objmodel
    from . import tooltables as _tt
    objmodel.merge_table(ctx, "R05.15", _tt.CONSUMPTION)  # (R01.15 shared, plus: items taken and calls of key)
    ctx.floor("merge_table_cells_decided", 520)
    objmodel.tee_histories(ctx, "R05.14", depth=5, consumption=True)  # (R01.14 shared, plus: items taken after every request)
    ctx.floor("tee_operations", 1000)
    objmodel.groupby_histories(ctx, "R05.13", depth=6, consumption=True)  # (R16.8 shared, plus: items taken after every operation)
    ctx.floor("groupby_operations", 1500)
    ctx.rule("R05.12", "groupby: a group the parent has moved past ends at once, without pulling from the source or calling key (R16.1, shared)")
    if c16.cursor_is_single_slot(ctx, "R05.8"):
        names16 = c16.Names(ctx)
        c16.publish_rule(ctx, names16, "R05.8")
        c16.r16_1_3_group(Relabel(ctx, "R05.12", only=("R16.1",)), names16)
    r05_9(ctx)
    from . import lockstep
    lockstep.zip_longest_table(ctx, "R05.10")  # (shared with R01.11: rows and items taken per source)
    ctx.floor("zip_longest_cells_decided", 118)
    from . import tooltables
    tooltables.tool_tables(ctx, "R05.11")  # (shared with R01.12: items taken and callable invocations per cell)
    ctx.floor("tool_cells_decided", 340)
    ctx.rule("R05.16", "the adapter that every tool puts around a synchronous source asks it for one item per step - also a "
                       "collection that produces its items when asked is never read ahead (table over both kinds of source, R03.3 shared)")
    tooltables.sync_wrapper_table(ctx, "R05.16")
    ctx.floor("adapter_table_cells_decided", 8)
    ctx.floor("tools", 20)
    ctx.floor("pull_sites", 15)
    ctx.floor("short_circuit_cells", 6)


class _Relabel:
    def __init__(self, ctx):
        self._ctx = ctx

    def __getattr__(self, name):
        return getattr(self._ctx, name)

    def ok(self, rule, *a, **k):
        return self._ctx.ok("R05.6", *a, **k)

    def check(self, cond, rule, *a, **k):
        return self._ctx.check(cond, "R05.6", *a, **k)

    def fail(self, rule, *a, **k):
        return self._ctx.fail("R05.6", *a, **k)


# --------------------------------------------------------------------------- pulls
def pull_nodes(ctx, u) -> List[Node]:
    """Nodes that take the next item from a user source: async-for pulls and awaited
    anext()/__anext__() steps."""
    cfg = cfg_of(u)
    out = []
    for n in cfg.nodes:
        if n.tag:
            continue
        if n.kind == "pull":
            out.append(n)
        elif n.kind == "await":
            v = ctx.vals.expr(u, n.info.get("value"), n)
            if any(a[0] in ("usernext", "anextcoro") for a in v):
                out.append(n)
    return out


def source_key(ctx, u, n: Node) -> str:
    e = n.info.get("iter") if n.kind == "pull" else n.info.get("value")
    if n.kind == "await" and isinstance(e, ast.Call):
        if isinstance(e.func, ast.Attribute):
            e = e.func.value
        elif e.args:
            e = e.args[0]
    return norm(e)


def item_defs(ctx, u, pull: Node) -> List[Node]:
    """store nodes that bind the item obtained by ``pull`` (directly)."""
    out = []
    for lab, s in pull.succ:
        if lab == "n" and s.kind == "store":
            out.append(s)
    if pull.kind == "await":
        cfg = cfg_of(u)
        for s in cfg.nodes:
            if s.kind == "store" and not s.tag and s.info.get("value") is not None:
                if any(x is pull.ast for x in ast.walk(s.info["value"])):
                    out.append(s)
    return out


def r05_1(ctx, u, rid: str = "R05.1") -> None:
    cfg = cfg_of(u)
    pulls = pull_nodes(ctx, u)
    ctx.count("pull_sites", len(pulls))
    yields = [n for n in cfg.nodes if n.kind == "yield" and not n.tag]
    bad = 0
    # alias copies: ``prev = current`` propagates "holds an item of pull P"
    for p1 in pulls:
        defs = list(item_defs(ctx, u, p1))
        # alias copies ``prev = current`` also hold the pulled item
        changed = True
        while changed:
            changed = False
            held = {x for d in defs for x in node_defs(d)}
            for s in cfg.nodes:
                if s.kind == "store" and not s.tag and s not in defs and isinstance(s.info.get("value"), ast.Name) \
                        and s.info["value"].id in held and "source" not in s.info:
                    defs.append(s)
                    changed = True
        # results computed from the item (``value = await function(..)``) are owed to the
        # consumer just the same: holding one back across the next pull defers it
        results = []
        if p1 is pulls[0]:
            results = [s for s in cfg.nodes if s.kind == "store" and not s.tag and isinstance(s.info.get("value"), ast.Await)
                       and s not in defs and not any(s in item_defs(ctx, u, q) for q in pulls)
                       and all(isinstance(t, ast.Name) for t in s.info.get("targets", []))]
        for d in defs + results:
            names = [x for x in node_defs(d)]
            for name in names:
                for p2 in pulls:
                    if d not in results and source_key(ctx, u, p1) != source_key(ctx, u, p2):
                        continue
                    new_names = {x for q in item_defs(ctx, u, p2) for x in node_defs(q)}
                    for y in yields:
                        if not any(isinstance(x, ast.Name) and x.id == name for x in ast.walk(y.ast)):
                            continue
                        if d not in results and any(isinstance(x, ast.Name) and x.id in new_names and x.id != name
                                                    for x in ast.walk(y.ast)):
                            continue  # a look-behind window: the held item is yielded *together with* the new one (pairwise)

                        def redefines(n: Node, name=name) -> bool:
                            return n is not d and name in node_defs(n)

                        def yields_it(n: Node, name=name) -> bool:
                            return n.kind == "yield" and any(isinstance(x, ast.Name) and x.id == name for x in ast.walk(n.ast))

                        to_p2 = find_path(d, lambda x: x is p2, avoid=lambda x: redefines(x) or yields_it(x),
                                          edge_ok=lambda a, lab, b: lab not in ("e", "p"))
                        if to_p2 is None:
                            continue
                        to_y = find_path(p2, lambda x: x is y, avoid=lambda x, name=name: name in node_defs(x),
                                         edge_ok=lambda a, lab, b: lab not in ("e", "p", "stop") or a is not p2)
                        if to_y is None:
                            continue
                        bad += 1
                        ctx.fail(rid, u, p2, f"the source is pulled again while the {'result' if d in results else 'item'} held in "
                                 f"`{name}` ({'computed' if d in results else 'pulled'} at line {d.line}) has not been yielded yet: "
                                 "the tool reads ahead of its consumer and defers the item", node=p2,
                                 witness=pretty_path(to_p2 + to_y[1:]))
    if not bad:
        ctx.ok(rid, u, f"no item is held back across a further pull ({len(pulls)} pull sites)")


def r05_2(ctx, u, rid: str = "R05.2") -> None:
    cfg = cfg_of(u)
    pulls = pull_nodes(ctx, u)
    if not pulls:
        return
    pullset = set(pulls)
    ucalls = {}
    for n in cfg.nodes:
        if n.kind == "call" and not n.tag:
            v = ctx.vals.expr(u, n.ast.func, n)  # type: ignore[union-attr]
            srcs = {a[1] for a in v if a[0] == "acall" and not a[1].startswith("builtin:")}
            srcs |= {a[1] for a in v if a[0] == "user" and a[1].endswith((":key", ":key_func", ":function", ":predicate"))}
            if srcs:
                ucalls[n] = srcs
    if not ucalls:
        return
    bad = 0
    for p in pulls:
        starts = [s for (lab, s) in p.succ if lab == "n"]
        if not starts:
            continue
        try:
            paths = enumerate_paths(cfg, p, lambda n: (n in pullset and n is not p) or n.kind in ("exit",) or n is p,
                                    limit=3000)
        except AnalysisError:
            continue
        for path in paths:
            counts: Dict[str, int] = {}
            for n, _lab in path[1:]:
                for s in ucalls.get(n, ()):
                    counts[s] = counts.get(s, 0) + 1
            for s, c in counts.items():
                if c > 1:
                    bad += 1
                    site = [n for n, _l in path if s in ucalls.get(n, ())][-1]
                    ctx.fail(rid, u, site, f"the user callable `{s.split(':')[-1]}` is invoked {c} times for one item "
                             f"(the stdlib invokes it once)", node=site)
    if not bad:
        ctx.ok(rid, u, "each per-item callable runs at most once between consecutive pulls",
               callables=sorted({s.split(":")[-1] for v in ucalls.values() for s in v}))


def refill_holder(n: Node, puller: str) -> Optional[str]:
    """``await holder.<puller>()`` or, when the pulling step is a module-level coroutine, ``await <puller>(holder)``:
    the text of the holder expression, else None"""
    call = n.info.get("value") if n.kind == "await" else None
    if not isinstance(call, ast.Call):
        return None
    if isinstance(call.func, ast.Attribute) and call.func.attr == puller and not call.args:
        return norm(call.func.value)
    if norm(call.func).split(".")[-1] == puller and len(call.args) == 1 and not isinstance(call.func, ast.Attribute):
        return norm(call.args[0])
    return None


def r05_3(ctx) -> None:
    u = ctx.unit("heapq.merge")
    cfg = cfg_of(u)
    puller = c01.holder_roles(ctx)["puller"].node.name
    refills = [n for n in cfg.nodes if n.kind == "await" and not n.tag and refill_holder(n, puller) is not None]
    ctx.check(bool(refills), "R05.3", u, "merge", f"merge refills holders through the holder's pulling method ({puller})")
    for r in refills:
        holder = refill_holder(r, puller)
        if holder is None:
            ctx.fail("R05.3", u, r, "refill is not a method call on a holder", node=r)
            continue
        binds = [n for n in cfg.nodes if n.kind == "store" and not n.tag and holder in node_defs(n)]
        for b in binds:
            path = find_path(b, lambda x: x is r, avoid=lambda x: x.kind == "yield" and norm(x.info.get("value")) == f"{holder}.head",
                             edge_ok=lambda a, lab, bb: lab not in ("e", "p"))
            ctx.check(path is None, "R05.3", u, r, f"`{holder}.{puller}()` happens only after `{holder}.head` was yielded "
                      "(one head per source, refilled after yielding)", node=r, witness=pretty_path(path))
    # the initial fill takes exactly one head per source
    if not ctx.pkg.has_unit("heapq._KeyIter.from_iters"):
        ctx.note("R05.3: merge has no per-source fill generator in this shape; that the initial fill takes one head per source is "
                 "decided by the merge table (items taken per source)")
        return
    f = ctx.unit("heapq._KeyIter.from_iters")
    fcfg = cfg_of(f)
    # (a head is taken by a direct pull or by the holder's own pulling method on a fresh holder)
    pulls = pull_nodes(ctx, f) + [n for n in fcfg.nodes if n.kind == "await" and not n.tag and refill_holder(n, puller) is not None]
    loops = [n for n in fcfg.nodes if n.kind == "snext" and not n.tag]
    ok = len(pulls) == 1 and len(loops) == 1 and pulls[0].in_region("loop", loops[0].ast) and not any(
        k == "loop" and a is not loops[0].ast for (k, a) in pulls[0].regions)
    ctx.check(ok, "R05.3", f, pulls[0] if pulls else "from_iters", "the initial fill pulls exactly one head per source")


def r05_9(ctx, rid: str = "R05.9") -> None:
    """merge calls ``key`` exactly where heapq.merge does: for the first head of every source and for
    each refill while at least two sources are alive — the tail of the last source is passed
    through without looking at it."""
    ctx.rule(rid, "merge: the key-computing pull of a holder happens only in the initial fill and inside the "
                      "`while <at least two holders>` loop; the last source's tail is yielded without calling key")
    roles = c01.holder_roles(ctx)
    puller = roles["puller"].node.name
    fill = ctx.unit("heapq._KeyIter.from_iters") if ctx.pkg.has_unit("heapq._KeyIter.from_iters") else None
    mod = ctx.pkg.module("heapq")
    for u in mod.units.values():
        if u.is_overload() or u is roles["puller"] or u is fill:
            continue
        cfg = cfg_of(u)
        for n in cfg.nodes:
            if n.kind != "await" or n.tag or refill_holder(n, puller) is None:
                continue
            ctx.count("merge_refills")
            ok = False
            for (k, a) in n.regions:
                if k == "loop" and isinstance(a, ast.While) and isinstance(a.test, ast.Compare) and len(a.test.ops) == 1 \
                        and isinstance(a.test.left, ast.Call) and norm(a.test.left.func) == "len" \
                        and isinstance(a.test.comparators[0], ast.Constant):
                    c, op = a.test.comparators[0].value, type(a.test.ops[0])
                    ok = ok or (op is ast.Gt and c >= 1) or (op is ast.GtE and c >= 2)
            if not ok:
                # ... or a test on the number of holders on the way: every path from the head of the loop the refill sits in
                # takes the branch on which at least two holders exist (``if len(heap) == 1: <drain the last>; break``)
                two_or_more = {("Gt", 1, "t"), ("GtE", 2, "t"), ("Eq", 1, "f"), ("LtE", 1, "f"), ("Lt", 2, "f"), ("NotEq", 1, "t")}
                evidence = set()
                for b in cfg.nodes:
                    t = b.ast
                    if b.kind == "branch" and isinstance(t, ast.Compare) and len(t.ops) == 1 and isinstance(t.left, ast.Call) \
                            and norm(t.left.func) == "len" and isinstance(t.comparators[0], ast.Constant):
                        for lab in ("t", "f"):
                            if (type(t.ops[0]).__name__, t.comparators[0].value, lab) in two_or_more:
                                evidence.add((b, lab))
                loops_ = [a for (k, a) in n.regions if k == "loop"]
                heads = [x for x in cfg.nodes if loops_ and x.ast is loops_[-1] and not x.tag] or [cfg.entry]
                if evidence:
                    path = None
                    for h in heads:
                        path = path or find_path(h, lambda x, n=n: x is n,
                                                 edge_ok=lambda a, lab, b_: lab not in ("e", "p") and (a, lab) not in evidence)
                    ok = path is None
            ctx.check(ok and ctx.pkg.canonical(u) == "heapq.merge", rid, u, n,
                      "the holder is refilled (and its key computed) only while at least two sources are being merged",
                      node=n)


class _TruthOps:
    def __init__(self, truthy: bool):
        self.truthy = truthy

    def truth(self, v, env):
        if v == "ELEM":
            return self.truthy
        return UNKNOWN

    def next(self, node, env):
        return "ELEM"

    def call(self, func, args, kwargs, node, env):
        if func.split(".")[-1] == "bool" and args == ["ELEM"]:
            return self.truthy
        return UNKNOWN


def r05_4(ctx) -> None:
    spec = {"builtins.all": {False: ("return", False), True: ("continue", None), "exhausted": True},
            "builtins.any": {True: ("return", True), False: ("continue", None), "exhausted": False}}
    for short, table in spec.items():
        u = ctx.inlined(ctx.unit(short))  # all/any may share one search loop in a private helper
        cfg = cfg_of(u)
        loops = [n for n in cfg.nodes if n.kind == "pull" and not n.tag]
        ctx.check(len(loops) == 1, "R05.4", u, short, "one loop over the source")
        if len(loops) != 1:
            continue
        loop = loops[0]
        # what the locals hold when the loop is reached (a result flag initialised before it)
        before = [oc for oc in Machine(cfg, _TruthOps(True)).run({}, stop=lambda n: n is loop) if oc.terminal is loop]
        env0 = {k: v for k, v in (before[0].env.items() if len(before) == 1 else []) if not k.startswith("@")}
        for truthy in (False, True):
            ctx.count("short_circuit_cells")
            results = Machine(cfg, _TruthOps(truthy)).run(dict(env0), start=loop, stop=lambda n: n is loop or n.kind == "pull")
            results = [oc for oc in results if len(oc.path) > 1 and oc.path[1].kind != "exit_cm"
                       and not (oc.path[0] is loop and oc.path[1] in [s for (lab, s) in loop.succ if lab == "stop"])]
            want = table[truthy]
            for oc in results:
                if oc.terminal.kind == "exit":
                    got = ("return", oc.env.get("@return"))
                elif oc.terminal is loop:
                    got = ("continue", None)
                else:
                    got = (oc.terminal.kind, None)
                pulled_again = any(n.kind == "pull" and n is not loop for n in oc.path[1:])
                ctx.check(got == want and not pulled_again, "R05.4", u, loop,
                          f"[{short.split('.')[-1]}: {'truthy' if truthy else 'falsy'} element] -> "
                          f"{'return ' + str(want[1]) + ' without another pull' if want[0] == 'return' else 'next element'}",
                          node=loop, witness=f"evaluated {got}")
            ctx.check(bool(results), "R05.4", u, loop, f"[{'truthy' if truthy else 'falsy'}] loop body evaluated")
        ctx.count("short_circuit_cells")
        stop = [s for (lab, s) in loop.succ if lab == "stop"]
        res = Machine(cfg, _TruthOps(True)).run(dict(env0), start=stop[0]) if stop else []
        vals = {oc.env.get("@return") for oc in res if oc.terminal.kind == "exit"}
        ctx.check(vals == {table["exhausted"]}, "R05.4", u, short, f"[exhausted] -> return {table['exhausted']}",
                  witness=str(vals))


class _SliceOps:
    """islice over a source of ``n`` items I0..I(n-1): integers are concrete (they are the
    caller's slice parameters), items are symbols; the one stream position is shared by every
    loop that advances the source (directly, borrowed or enumerated)."""

    def __init__(self, ctx, module, n_items: int):
        self.ctx, self.module, self.n = ctx, module, n_items
        self.ev = AbsEval(self)

    def _resolved(self, func_node) -> str:
        r = self.ctx.pkg.resolve_expr_global(self.module, func_node)
        return r.qual.split(".")[-1] if r.kind in ("stdlib", "builtin", "lib") else norm(func_node)

    def awaited(self, v, env):
        if isinstance(v, tuple) and len(v) == 2 and v[0] == "@coro":
            return v[1]  # a private coroutine step of the library (e.g. the skipping loop): what it returned
        return v

    def entered(self, item, env, ev):
        v = ev.eval(item.context_expr, env)
        return v

    def call(self, func, args, kwargs, node, env):
        last = self._resolved(node.func)
        if last == "slice":
            vals = []
            for a in node.args:
                if isinstance(a, ast.Starred):
                    v = self.ev.eval(a.value, env)
                    if not isinstance(v, tuple):
                        return UNKNOWN
                    vals.extend(v)
                else:
                    vals.append(self.ev.eval(a, env))
            try:
                sl = slice(*vals)
            except Exception:  # noqa: BLE001
                return UNKNOWN
            return ("slice", sl.start, sl.stop, sl.step)
        if last in ("ScopedIter", "borrow", "aiter", "iter") and args:
            return args[0]
        if last == "enumerate" and args:
            return ("enum", args[0], kwargs.get("start", args[1] if len(args) > 1 else 0))
        return UNKNOWN

    def other(self, e, env, ev):
        if isinstance(e, ast.Starred):
            return ("*", ev.eval(e.value, env))
        return UNKNOWN

    def attr(self, value, name, node, env):
        if isinstance(value, tuple) and value[:1] == ("slice",) and name in ("start", "stop", "step"):
            return value[{"start": 1, "stop": 2, "step": 3}[name]]
        return UNKNOWN

    def binop(self, op, left, right, env):
        if isinstance(left, int) and isinstance(right, int) and not isinstance(left, bool) and not isinstance(right, bool):
            try:
                return {"Add": left + right, "Sub": left - right, "Mult": left * right, "Mod": left % right if right else UNKNOWN,
                        "FloorDiv": left // right if right else UNKNOWN}.get(op, UNKNOWN)
            except Exception:  # noqa: BLE001
                return UNKNOWN
        return UNKNOWN

    def compare(self, op, left, right, env):
        if isinstance(left, int) and isinstance(right, int):
            return {"Lt": left < right, "LtE": left <= right, "Gt": left > right, "GtE": left >= right,
                    "Eq": left == right, "NotEq": left != right}.get(op, UNKNOWN)
        if op in ("Is", "IsNot") and (left is None or right is None):
            same = left is None and right is None
            return same if op == "Is" else not same
        return UNKNOWN

    def augstore(self, node, env, ev):
        st = node.ast
        if isinstance(st, ast.AugAssign) and isinstance(st.target, ast.Name):
            cur = env.get(st.target.id, UNKNOWN)
            env[st.target.id] = self.binop(type(st.op).__name__, cur, ev.eval(st.value, env), env)

    def next(self, node, env):
        src = self.ev.eval(node.info.get("iter"), env)
        base, enum = src, None
        if isinstance(src, tuple) and src[:1] == ("enum",):
            base, enum = src[1], src[2]
        if base != "SRC":
            return UNKNOWN
        pos = env.get("@pos", 0)
        if pos >= self.n:
            env["@trace"] = env.get("@trace", ()) + (("end",),)
            return STOP
        env["@pos"] = pos + 1
        env["@trace"] = env.get("@trace", ()) + (("pull", pos),)
        item = ("item", pos)
        if enum is not None:
            key = ("enumcount", node.id)
            counts = dict(env.get("@counts", {}))
            k = counts.get(key, enum)
            counts[key] = k + 1
            env["@counts"] = counts
            return (k, item)
        return item

    def iter(self, node, env):
        counts = dict(env.get("@counts", {}))
        counts.pop(("enumcount", [s for (lab, s) in node.succ if lab == "n"][0].id), None)
        env["@counts"] = counts

    def visit(self, node, env, ev):
        if node.kind == "yield":
            env["@trace"] = env.get("@trace", ()) + (("yield", ev.eval(node.info.get("value"), env)),)


def _islice_spec(n: int, start, stop, step):
    """itertools.islice over n items: (indexes yielded, number of items consumed, how often the
    source was asked when it had nothing left)."""
    start = start or 0
    step = step or 1
    nxt, cnt, out = start, 0, []
    while True:
        while cnt < nxt:
            if cnt >= n:
                return out, cnt, 1
            cnt += 1
        if stop is not None and cnt >= stop:
            return out, cnt, 0
        if cnt >= n:
            return out, cnt, 1
        out.append(cnt)
        cnt += 1
        nxt += step
        if stop is not None and nxt > stop:
            nxt = stop


def r05_5(ctx, consumption=True) -> None:
    """islice as a table: for every (start, stop, step) in a small cube and sources of 0..6 items
    the items yielded and the number of items pulled equal itertools.islice's (the statement:
    "stops without touching item stop", "never consumes more than its counterpart")."""
    u = ctx.unit("itertools.islice")
    cfg = cfg_of(u)
    p = u.param_names()[0]
    va = u.node.args.vararg.arg if u.node.args.vararg else None
    if va is None:
        raise AnalysisError("islice signature changed (anchor moved)")
    shapes = [(s,) for s in (0, 1, 2, 3)] + [(a, b) for a in (0, 1, 2) for b in (None, 0, 1, 2, 4)] + \
             [(a, b, c) for a in (0, 1, 2) for b in (None, 1, 3, 4, 5) for c in (1, 2, 3)]
    bad = 0
    for args in shapes:
        sl = slice(*args)
        for n in (0, 2, 6):
            ctx.count("islice_cells")
            ops = _SliceOps(ctx, u.module, n)
            outs = Machine(cfg, ops, resolver=make_resolver(ctx, u, ops, skip=("borrow", "aiter", "iter"), coroutines=True)).run(
                {p: "SRC", va: tuple(args)})
            want_y, want_c, want_e = _islice_spec(n, sl.start, sl.stop, sl.step)
            got = set()
            for oc in outs:
                tr = oc.env.get("@trace", ())
                ys = tuple(e[1][1] if isinstance(e[1], tuple) and e[1][:1] == ("item",) else e[1] for e in tr if e[0] == "yield")
                pulls = sum(1 for e in tr if e[0] == "pull")
                ends = sum(1 for e in tr if e[0] == "end")
                # the order of requests and hand-outs: an item is handed out before the next one is requested
                order = tuple(("pull", e[1]) if e[0] == "pull" else ("end",) if e[0] == "end" else
                              ("yield", e[1][1] if isinstance(e[1], tuple) and e[1][:1] == ("item",) else e[1])
                              for e in tr if e[0] in ("pull", "end", "yield"))
                got.add((ys, pulls, oc.terminal.kind) + ((ends, order) if consumption == "ends" else ()))
            if not consumption:
                # (C01 speaks of the items only; how many items are pulled is C05's / C06's / C08's business)
                got = {(ys, want_c, kind_) for (ys, _pulls, kind_) in got}
            want_order = tuple(x for i in range(want_c) for x in ((("pull", i), ("yield", i)) if i in want_y else (("pull", i),))) \
                + (("end",),) * want_e
            ok = got == {(tuple(want_y), want_c, "exit") + ((want_e, want_order) if consumption == "ends" else ())}
            if not ok:
                bad += 1
                if bad <= 4:
                    ctx.fail("R05.5", u, "islice", f"[islice(<{n} items>, {', '.join(map(str, args))})] yields / consumption differ from "
                             "itertools.islice", witness=f"evaluated (yielded indexes, items pulled, exit"
                             f"{', end-of-source detections, order of requests and hand-outs' if consumption == 'ends' else ''}): {sorted(map(str, got))[:2]}; "
                             f"itertools.islice: yields {want_y}, pulls {want_c}"
                             f"{', end-of-source detections ' + str(want_e) if consumption == 'ends' else ''}")
    if not bad:
        ctx.ok("R05.5", u, f"islice equals itertools.islice in yielded indexes and in the number of items pulled for "
               f"{len(shapes)} slicings x 3 source lengths")


def run_thorough(ctx) -> None:
    """Guard the specification function itself: _islice_spec against the interpreter's own
    itertools.islice (the stdlib is executed here, never the repository)."""
    import itertools as _it
    ctx.rule("R05.T", "the islice specification used by R05.5 agrees with itertools.islice of the running interpreter")
    for args in [(s,) for s in range(0, 5)] + [(a, b) for a in range(0, 4) for b in (None, 0, 1, 2, 3, 4, 7)] + \
                [(a, b, c) for a in range(0, 4) for b in (None, 0, 1, 3, 4, 5, 7) for c in (1, 2, 3, 4)]:
        for n in range(0, 8):
            pulled = []
            ends = []

            class Src:
                def __init__(self):
                    self.i = 0

                def __iter__(self):
                    return self

                def __next__(self):
                    if self.i >= n:
                        ends.append(self.i)
                        raise StopIteration
                    pulled.append(self.i)
                    self.i += 1
                    return self.i - 1

            got = list(_it.islice(Src(), *args))
            sl = slice(*args)
            want_y, want_c, want_e = _islice_spec(n, sl.start, sl.stop, sl.step)
            ctx.count("oracle_cells")
            if got != want_y or len(pulled) != want_c or len(ends) != want_e:
                raise AnalysisError(f"islice specification disagrees with itertools.islice for n={n} args={args}: "
                                    f"spec {want_y}/{want_c}/{want_e}, stdlib {got}/{len(pulled)}/{len(ends)}")
    ctx.ok("R05.T", "itertools (stdlib)", "specification function agrees with itertools.islice on every cell of the oracle cube")
