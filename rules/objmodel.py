"""
Operation histories on the library's class-based iterators, decided by abstract evaluation over an
object model (an extension of rules/tooltables.py; nothing of the repository is run).

Objects of library classes are heap cells ``("OBJ", n)`` with fields; constructing one evaluates the
class's ``__init__`` by a nested machine, a method call evaluates the method of the object's own
class with ``self`` bound, reading an attribute nobody has stored raises AttributeError (the
``try: state.target_key / except AttributeError`` idiom), class-level attributes (a private
sentinel) are constants of the class.

``groupby_histories``: for every source of up to 3 items with keys from {a, b} (and for the default
key), every sequence of up to ``depth`` operations from

    G      advance the groupby iterator
    I<k>   advance the k-th group it has handed out so far (live, stale, or exhausted)

is evaluated on the abstract machine, operation by operation (each has exactly one execution), and
the result of every operation — the key, the item, or "exhausted" — is compared with what
``itertools.groupby`` does when the checker drives it through the same operations.
"""
from __future__ import annotations

import ast
import itertools as _it
from typing import Any, Dict, List, Optional, Set, Tuple

from asl.absint import UNKNOWN, Machine
from asl.cfg import Node, cfg_of
from asl.loader import AnalysisError, norm
from .common import make_resolver
from .tooltables import EXC_NAMES, ToolOps

STATE_KEYS = ("@heap", "@itpos", "@lists", "@objects", "@seqs", "@seqpos", "@trace", "@gens", "@uses")
GLOBAL_STATE = STATE_KEYS
FRAME_KEYS = ("@pos", "@callvals", "@comp", "@counts", "@handling")


class ObjOps(ToolOps):
    def __init__(self, ctx, unit, lengths, items=None, fns=None):
        super().__init__(ctx, unit, lengths, items, fns)
        self.resolver = None
        self._cls_attrs: Dict[Tuple[str, str], Any] = {}
        self.gen_units: Dict[int, Any] = {}

    # ------------------------------------------------------------------ generator objects
    # A call of a library async generator function gives ("GEN", n): its frame (the locals, and the yield it
    # is suspended at) lives in env["@gens"]; pulling from it resumes the frame on a nested machine up to the
    # next yield.  Everything else (the heap, the sources' positions, lists) is shared state.
    @staticmethod
    def _is_iter(v) -> bool:
        return isinstance(v, tuple) and v[:1] in (("IT",), ("REPEAT",), ("ZIP",), ("SEQIT",), ("GEN",))

    def _new_gen(self, env, unit, bound: Dict[str, Any]):
        gens = dict(env.get("@gens", {}))
        gid = len(gens)
        gens[gid] = {"at": None, "locals": dict(bound), "done": False}
        env["@gens"] = gens
        # (what the generator does, private helpers and clean-up context managers of the library unfolded)
        self.gen_units[gid] = self.ctx.inlined(unit) if unit.parent is None else unit
        return ("GEN", gid)

    def _bind_call(self, unit, call, env, ev, self_value=None) -> Optional[Dict[str, Any]]:
        a = unit.node.args
        names = [p.arg for p in list(a.posonlyargs) + list(a.args)]
        bound: Dict[str, Any] = {}
        if self_value is not None and names:
            bound[names[0]] = self_value
            names = names[1:]
        pos = [x for x in call.args]
        if any(isinstance(x, ast.Starred) for x in pos):
            flat = []
            for x in pos:
                if isinstance(x, ast.Starred):
                    el = self._elements(ev.eval(x.value, env), env)
                    if el is None:
                        return None
                    flat.extend(el)
                else:
                    flat.append(ev.eval(x, env))
            values = flat
        else:
            values = [ev.eval(x, env) for x in pos]
        if a.vararg is not None:
            bound[a.vararg.arg] = ("SEQ", tuple(values[len(names):]))
            values = values[:len(names)]
        if len(values) > len(names):
            return None
        for n_, v in zip(names, values):
            bound[n_] = v
        kwnames = names + [p.arg for p in a.kwonlyargs]
        for kw in call.keywords:
            if kw.arg is None or kw.arg not in kwnames:
                return None
            bound[kw.arg] = ev.eval(kw.value, env)
        defaults = dict(zip([p.arg for p in list(a.posonlyargs) + list(a.args)][len(a.posonlyargs) + len(a.args) - len(a.defaults):], a.defaults))
        defaults.update({p.arg: d for p, d in zip(a.kwonlyargs, a.kw_defaults) if d is not None})
        for n_ in kwnames:
            if n_ not in bound:
                if n_ not in defaults:
                    return None
                bound[n_] = ev.eval(defaults[n_], {})
        return bound

    def _resume(self, gen, env, throw=None):
        """advance a generator object to its next yield: the value, or ("@raise", class)"""
        gid = gen[1]
        frame = env["@gens"][gid]
        if frame["done"]:
            return ("@raise", "StopAsyncIteration")
        unit = self.gen_units[gid]
        cfg = cfg_of(unit)
        local = dict(frame["locals"])
        for k in GLOBAL_STATE:
            if k in env:
                local[k] = env[k]
        local["@gen"] = gid
        start = frame["at"]
        if throw is not None:
            if start is None:
                self._finish(gid, env)
                return ("@raise", throw)
            local["@exc"] = ("exc", throw)
            start = start.exc_succ()
            if start is None:
                self._finish(gid, env)
                return ("@raise", throw)
        try:
            m = Machine(cfg, self, max_steps=6000, resolver=self.resolver)
            outs = m.run(local, start=start, stop=lambda n: n.kind == "yield")
        except AnalysisError:
            outs = []
        if len(outs) != 1:
            self.undecided = True
            import os
            if os.environ.get("ASL_DEBUG_GEN"):
                print("GEN undecided", unit.short, "outs", len(outs), "start", start)
            env["@undecided"] = True
            self._finish(gid, env)
            return UNKNOWN
        oc = outs[0]
        for k in GLOBAL_STATE:
            if k in oc.env and k != "@gens":
                env[k] = oc.env[k]
        gens = dict(oc.env.get("@gens", env.get("@gens", {})))
        if oc.terminal.kind == "yield":
            value = self.resolve(self.ev.eval(oc.terminal.info.get("value"), oc.env), oc.env)
            # the frame: its locals and its own evaluation state (loop positions, cached call results)
            gens[gid] = {"at": oc.terminal, "done": False,
                         "locals": {k: v for k, v in oc.env.items() if not k.startswith("@") or k in FRAME_KEYS}}
            env["@gens"] = gens
            for k in GLOBAL_STATE:  # (evaluating the yielded expression may have had effects, e.g. popleft())
                if k in oc.env and k != "@gens":
                    env[k] = oc.env[k]
            return value
        gens[gid] = {"at": None, "locals": {}, "done": True}
        env["@gens"] = gens
        if oc.terminal.kind == "exit":
            return ("@raise", "StopAsyncIteration")
        exc = oc.raised
        return ("@raise", exc[1] if isinstance(exc, tuple) and exc[:1] == ("exc",) else "Exception")

    def _finish(self, gid, env) -> None:
        gens = dict(env.get("@gens", {}))
        gens[gid] = {"at": None, "locals": {}, "done": True}
        env["@gens"] = gens

    def _close_gen(self, gen, env) -> None:
        """``await gen.aclose()``: GeneratorExit is thrown in at the yield the generator is suspended at"""
        frame = env["@gens"][gen[1]]
        if frame["done"]:
            return
        if frame["at"] is None:
            self._finish(gen[1], env)
            return
        r = self._resume(gen, env, throw="GeneratorExit")
        if not (isinstance(r, tuple) and r[:1] == ("@raise",)):
            env["@undecided"] = True  # (yielded again while being closed)
        self._finish(gen[1], env)

    def _pull(self, it, env):
        if isinstance(it, tuple) and it[:1] == ("GEN",):
            return self._resume(it, env)
        return super()._pull(it, env)

    def _trace(self, env, *event) -> None:
        if event and event[0] == "yield" and env.get("@gen") is not None:
            return  # a yield of a nested generator frame is not a result of the operation being observed
        super()._trace(env, *event)

    # ------------------------------------------------------------------ heap
    @staticmethod
    def _is_obj(v) -> bool:
        return isinstance(v, tuple) and len(v) == 2 and v[0] == "OBJ"

    def _alloc(self, env, clsfq: str):
        heap = dict(env.get("@heap", {}))
        oid = len(heap)
        heap[oid] = (clsfq, {})
        env["@heap"] = heap
        return ("OBJ", oid)

    def _info(self, clsfq: str):
        return self.ctx.pkg.lib_class(clsfq)

    def _field_name(self, clsfq: str, attr: str) -> str:
        info = self._info(clsfq)
        return info.mangle(attr) if info is not None and attr.startswith("__") and not attr.endswith("__") else attr

    def _class_attr(self, clsfq: str, attr: str):
        """value of a class-level assignment ``attr = <expr>`` (searched along the library MRO), or a miss"""
        key = (clsfq, attr)
        if key in self._cls_attrs:
            return self._cls_attrs[key]
        out: Any = ("@missing",)
        for info in self.ctx.vals.mro(clsfq):
            for st in info.node.body:
                tgt = st.targets[0] if isinstance(st, ast.Assign) and len(st.targets) == 1 else \
                    st.target if isinstance(st, ast.AnnAssign) and st.value is not None else None
                if isinstance(tgt, ast.Name) and tgt.id == attr:
                    out = ("CLSATTR", info.fq, attr)  # an object private to the class (identity = its name)
                    break
            if out != ("@missing",):
                break
        self._cls_attrs[key] = out
        return out

    def _method(self, clsfq: str, name: str):
        return self.ctx.vals.find_method(clsfq, name)

    def attr(self, value, name, node, env):
        if self._is_obj(value):
            clsfq, fields = env["@heap"][value[1]]
            f = self._field_name(clsfq, name)
            if f in fields:
                return fields[f]
            c = self._class_attr(clsfq, name)
            if c != ("@missing",):
                return c
            m = self._method(clsfq, name)
            if m is not None and m.is_property():
                # a read-only property whose body is one ``return <expression>``: that expression about this object
                body = [b for b in m.node.body if not (isinstance(b, ast.Expr) and isinstance(b.value, ast.Constant))]
                if len(body) == 1 and isinstance(body[0], ast.Return) and body[0].value is not None and m.param_names() \
                        and not any(isinstance(y, (ast.Call, ast.Await, ast.NamedExpr)) for y in ast.walk(body[0].value)):
                    return self.ev.eval(body[0].value, {**{k: v for k, v in env.items() if k.startswith("@")}, m.param_names()[0]: value})
                return UNKNOWN
            if m is not None:
                return ("BOUND", value, name)
            return UNKNOWN
        return super().attr(value, name, node, env)

    def store(self, target, value, env, ev):
        if isinstance(target, ast.Attribute):
            base = ev.eval(target.value, env)
            if self._is_obj(base):
                heap = dict(env["@heap"])
                clsfq, fields = heap[base[1]]
                fields = dict(fields)
                fields[self._field_name(clsfq, target.attr)] = value
                heap[base[1]] = (clsfq, fields)
                env["@heap"] = heap
                return
        super().store(target, value, env, ev)

    def augstore(self, node, env, ev):
        st = node.ast
        if isinstance(st, ast.AugAssign) and isinstance(st.target, ast.Attribute):
            # ``self._count -= 1``: read the field, combine, write it back
            base = ev.eval(st.target.value, env)
            if self._is_obj(base):
                cur = ev.eval(ast.copy_location(ast.Attribute(value=st.target.value, attr=st.target.attr, ctx=ast.Load()), st.target), env)
                self.store(st.target, self.binop(type(st.op).__name__, cur, ev.eval(st.value, env), env), env, ev)
                return
        super().augstore(node, env, ev)

    def name(self, ident, env):
        if ident in EXC_NAMES:
            return ("exc", ident)
        return super().name(ident, env)

    def truth(self, v, env):
        if self._is_obj(v) or (isinstance(v, tuple) and v[:1] in (("CLSATTR",), ("BOUND",), ("GEN",))):
            return True
        return super().truth(v, env)

    def compare(self, op, left, right, env):
        if op in ("Lt", "Gt", "Eq", "NotEq") and self._is_obj(left) and self._is_obj(right):
            from .tooltables import _Undecided
            self._cmp_env = env
            try:
                if op in ("Lt", "Gt"):
                    return self.lt(left, right) if op == "Lt" else self.lt(right, left)
                return self.eq(left, right) if op == "Eq" else not self.eq(left, right)
            except _Undecided:
                return UNKNOWN
        if op in ("Is", "IsNot"):
            def ident(v):
                return v is None or self._is_obj(v) or (isinstance(v, tuple) and v[:1] in (
                    ("CLSATTR",), ("item",), ("v",), ("GLOBAL",), ("IT",), ("FN",)))
            if ident(left) and ident(right):
                return (left == right) if op == "Is" else (left != right)
        if op in ("Eq", "NotEq"):
            def const(v):
                return v is None or (isinstance(v, tuple) and v[:1] in (("item",), ("v",)))  # (None is a plain value as well)
            if const(left) and const(right):
                return (left == right) if op == "Eq" else (left != right)
            # a private marker made by ``object()`` equals nothing but itself (the model's keys and items are plain values)
            for a, b in ((left, right), (right, left)):
                if self._is_plain_marker(a) and (const(b) or b is None or self._is_plain_marker(b)):
                    return (a == b) if op == "Eq" else (a != b)
        return super().compare(op, left, right, env)

    def _is_plain_marker(self, v) -> bool:
        if not (isinstance(v, tuple) and v[:1] == ("CLSATTR",) and len(v) == 3):
            return False
        info = self.ctx.pkg.lib_class(v[1])
        for st in (info.node.body if info is not None else []):
            tgt = st.targets[0] if isinstance(st, ast.Assign) and len(st.targets) == 1 else \
                st.target if isinstance(st, ast.AnnAssign) and st.value is not None else None
            if isinstance(tgt, ast.Name) and tgt.id == v[2]:
                val = st.value
                while isinstance(val, ast.Call) and norm(val.func).split(".")[-1] == "cast" and len(val.args) == 2:
                    val = val.args[1]
                return isinstance(val, ast.Call) and norm(val.func) == "object" and not val.args
        return False

    def _wrapper_class(self, name: str):
        return None  # (no shortcut: a key wrapper is an object of its class like any other)

    # ---- ordering of model objects: the class's own __lt__ / __eq__, evaluated on the model
    def _compare_objects(self, a, b, meth: str):
        from .tooltables import _Undecided
        env = self._cmp_env
        if env is None:
            raise _Undecided()
        m = self._method(env["@heap"][a[1]][0], meth)
        if m is None or m.kind != "sync" or len(m.param_names()) != 2:
            raise _Undecided()
        state = {k: env[k] for k in STATE_KEYS if k in env}
        kind, val, _new = run_method(self.ctx, self, m, state, {m.param_names()[0]: a, m.param_names()[1]: b})
        if kind != "return" or not isinstance(val, bool):
            raise _Undecided()
        return val

    def lt(self, a, b) -> bool:
        if self._is_obj(a) and self._is_obj(b):
            return self._compare_objects(a, b, "__lt__")
        return super().lt(a, b)

    def eq(self, a, b) -> bool:
        if self._is_obj(a) and self._is_obj(b):
            if a == b:
                return True
            if self._method(self._cmp_env["@heap"][a[1]][0], "__eq__") is None:
                return False
            return self._compare_objects(a, b, "__eq__")
        return super().eq(a, b)

    def other(self, e, env, ev):
        if isinstance(e, ast.Subscript) and not isinstance(e.slice, ast.Slice):
            base = ev.eval(e.value, env)
            if isinstance(base, tuple) and base[:1] == ("GLOBAL",):
                return base  # ``Cls[Any]``: the class itself
        return super().other(e, env, ev)

    def call(self, func, args, kwargs, node, env):
        last = self._resolved(node.func)
        if last == "cast" and len(args) == 2:
            return args[1]
        if last == "deque" and not node.keywords and len(node.args) <= 1:
            el = self._elements(args[0], env) if args else []
            return self._new(env, el) if el is not None else UNKNOWN
        gen_unit = self._gen_function(node, env)
        if gen_unit is not None:
            unit, self_value = gen_unit
            bound = self._bind_call(unit, node, env, self.ev, self_value)
            return self._new_gen(env, unit, bound) if bound is not None else UNKNOWN
        # a synchronous method of a model object / a static factory, called where no CFG node of its own exists
        # (inside a generator expression): evaluated right here
        if isinstance(node.func, ast.Attribute) and not any(isinstance(a, ast.Starred) for a in node.args):
            target = self.callee_unit(node, env)
            unit, self_value = (target if isinstance(target, tuple) else (target, None))
            if unit is not None and unit.kind == "sync" and getattr(self, "_depth", 0) < 3:
                bound = self._bind_call(unit, node, env, self.ev, self_value)
                if bound is not None:
                    sub = {k: v for k, v in env.items() if k.startswith("@") and k not in ("@return", "@callvals", "@exc")}
                    sub.update(bound)
                    self._depth = getattr(self, "_depth", 0) + 1
                    try:
                        outs = Machine(cfg_of(unit), self, max_steps=2000, resolver=self.resolver).run(sub)
                    except AnalysisError:
                        outs = []
                    finally:
                        self._depth -= 1
                    if len(outs) == 1 and outs[0].terminal.kind == "exit":
                        for k, v in outs[0].env.items():
                            if k.startswith("@") and k not in ("@return", "@callvals", "@handling", "@exc"):
                                env[k] = v
                        return outs[0].returned
                    return UNKNOWN
        if last in ("getattr", "hasattr") and len(args) >= 2 and self._is_obj(args[0]) and isinstance(args[1], str):
            clsfq, fields = env["@heap"][args[0][1]]
            f = self._field_name(clsfq, args[1])
            if f in fields:
                return fields[f] if last == "getattr" else True
            c = self._class_attr(clsfq, args[1])
            if c != ("@missing",):
                return c if last == "getattr" else True
            if self._method(clsfq, args[1]) is not None:
                return ("BOUND", args[0], args[1]) if last == "getattr" else True
            if last == "hasattr":
                return False
            return args[2] if len(args) == 3 else UNKNOWN
        return super().call(func, args, kwargs, node, env)

    def _gen_function(self, call, env):
        """(unit, self) when ``call`` calls a library async generator function / method of a model object"""
        f = call.func
        if isinstance(f, ast.Name):
            v = env.get(f.id, ("GLOBAL", f.id))
            if isinstance(v, tuple) and v[:1] == ("GLOBAL",):
                r = self.ctx.pkg.resolve_global(self.module, v[1])
                t = self.ctx.pkg.lib_unit(r.qual) if r.kind == "lib" else None
                if t is not None and t.kind == "asyncgen" and self.ctx.pkg.canonical(t) not in ("builtins.zip", "itertools._repeat") \
                        and not self._is_repeat_unit(t):
                    return t, None
        elif isinstance(f, ast.Attribute):
            base = self.ev.eval(f.value, env)
            if self._is_obj(base):
                m = self._method(env["@heap"][base[1]][0], f.attr)
                if m is not None and m.kind == "asyncgen":
                    return m, (None if m.is_static() else base)
            if isinstance(base, tuple) and base[:1] == ("GLOBAL",):
                r = self.ctx.pkg.resolve_global(self.module, base[1])
                info = self.ctx.pkg.lib_class(r.qual) if r.kind == "lib" else None
                m = self._method(info.fq, f.attr) if info is not None else None
                if m is not None and m.kind == "asyncgen" and (m.is_static() or m.is_classmethod()):
                    return m, (base if m.is_classmethod() else None)
        return None

    def raises(self, node: Node, env):
        if node.kind == "attr" and isinstance(node.ast, ast.Attribute) and isinstance(node.ast.ctx, ast.Load):
            base = self.ev.eval(node.ast.value, env)
            if self._is_obj(base):
                clsfq, fields = env["@heap"][base[1]]
                if self._field_name(clsfq, node.ast.attr) not in fields and self._class_attr(clsfq, node.ast.attr) == ("@missing",) \
                        and self._method(clsfq, node.ast.attr) is None:
                    return ("exc", "AttributeError")
            return None
        return super().raises(node, env)

    # ------------------------------------------------------------------ calls
    def resolves(self, call, env) -> bool:
        if isinstance(call.func, ast.Attribute):
            v = self.ev.eval(call.func, env)
            if isinstance(v, tuple) and v[:1] in (("FN",), ("LAMBDA",)):
                return False
        return super().resolves(call, env)

    def callee_unit(self, call, env):
        if isinstance(call.func, ast.Attribute):
            base = self.ev.eval(call.func.value, env)
            if self._is_obj(base):
                clsfq = env["@heap"][base[1]][0]
                f = self._field_name(clsfq, call.func.attr)
                held = env["@heap"][base[1]][1].get(f)
                if isinstance(held, tuple) and held[:1] == ("GLOBAL",):
                    r = self.ctx.pkg.resolve_global(self.module, held[1])
                    return self.ctx.pkg.lib_unit(r.qual) if r.kind == "lib" else None
                if held is None or f not in env["@heap"][base[1]][1]:
                    m = self._method(clsfq, call.func.attr)
                    if m is not None:
                        return m if m.is_static() else (m, base)
            if isinstance(base, tuple) and base[:1] == ("GLOBAL",):
                # ``cls.helper(...)`` / ``Cls.helper(...)``: a static or class method reached through the class
                r = self.ctx.pkg.resolve_global(self.module, base[1])
                info = self.ctx.pkg.lib_class(r.qual) if r.kind == "lib" else None
                m = self._method(info.fq, call.func.attr) if info is not None else None
                if m is not None and m.kind in ("sync", "coroutine"):
                    if m.is_static():
                        return m
                    if m.is_classmethod():
                        return (m, base)
            return None
        return super().callee_unit(call, env)

    def visit(self, node, env, ev):
        if node.kind == "del":
            # ``del obj.field``: the field is gone (reading it raises AttributeError from here on)
            targets = node.info.get("targets") or (node.ast.targets if isinstance(node.ast, ast.Delete) else [])
            for t in targets:
                base = ev.eval(t.value, env) if isinstance(t, ast.Attribute) else None
                if base is not None and self._is_obj(base):
                    heap = dict(env["@heap"])
                    clsfq, fields = heap[base[1]]
                    fields = dict(fields)
                    fields.pop(self._field_name(clsfq, t.attr), None)
                    heap[base[1]] = (clsfq, fields)
                    env["@heap"] = heap
        if node.kind == "call":
            call = node.ast
            f = call.func
            if isinstance(f, ast.Attribute) and f.attr in ("aclose", "__anext__") and not call.args:
                base = ev.eval(f.value, env)
                if isinstance(base, tuple) and base[:1] == ("GEN",):
                    vals = dict(env.get("@callvals", {}))
                    if f.attr == "aclose":
                        self._close_gen(base, env)
                        vals[id(call)] = None
                    else:
                        vals[id(call)] = self._resume(base, env)
                    env["@callvals"] = vals
                    return
            if isinstance(f, ast.Attribute) and f.attr in ("popleft", "pop", "appendleft") and not call.keywords:
                base = ev.eval(f.value, env)
                if self._is_list(base):
                    items = list(self._get(env, base))
                    vals = dict(env.get("@callvals", {}))
                    result: Any = UNKNOWN
                    if f.attr == "appendleft" and len(call.args) == 1:
                        items.insert(0, ev.eval(call.args[0], env))
                        result = None
                    elif f.attr == "popleft" and not call.args and items:
                        result = items.pop(0)
                    elif f.attr == "pop" and len(call.args) <= 1 and items:
                        idx = ev.eval(call.args[0], env) if call.args else -1
                        if isinstance(idx, int) and not isinstance(idx, bool) and -len(items) <= idx < len(items):
                            result = items.pop(idx)
                    if result is UNKNOWN:
                        env["@undecided"] = True
                        self.undecided = True
                    else:
                        self._set(env, base, items)
                    vals[id(call)] = result
                    env["@callvals"] = vals
                    return
            fv = ev.eval(f, env) if isinstance(f, (ast.Name, ast.Attribute)) else None
            # a user callable kept in a field (``self._key_func(value)``)
            if isinstance(f, ast.Attribute) and isinstance(fv, tuple) and fv[:1] == ("FN",) and fv[1] in self.fns and not call.keywords:
                args = tuple(ev.eval(a, env) for a in call.args)
                self._trace(env, "call", fv[1], args)
                vals = dict(env.get("@callvals", {}))
                try:
                    vals[id(call)] = self.fns[fv[1]](args)
                except (KeyError, IndexError, TypeError):
                    vals[id(call)] = UNKNOWN
                env["@callvals"] = vals
                return
            # constructing an object of a library class
            if isinstance(fv, tuple) and fv[:1] == ("GLOBAL",) and not any(isinstance(a, ast.Starred) for a in call.args):
                r = self.ctx.pkg.resolve_global(self.module, fv[1])
                info = self.ctx.pkg.lib_class(r.qual) if r.kind == "lib" else None
                if info is not None and self._wrapper_class(fv[1]) is None and not self._repeat_class(info) \
                        and self.ctx.pkg.canonical_class(info) not in ("_core.ScopedIter",):  # (a primitive of the model)
                    obj = self._alloc(env, info.fq)
                    init = self._method(info.fq, "__init__")
                    ok = True
                    if init is not None:
                        names = init.param_names()
                        sub = {k: v for k, v in env.items() if k.startswith("@") and k not in ("@return", "@callvals", "@exc")}
                        sub[names[0]] = obj
                        for pn, a in zip(names[1:], call.args):
                            sub[pn] = ev.eval(a, env)
                        for kw in call.keywords:
                            if kw.arg:
                                sub[kw.arg] = ev.eval(kw.value, env)
                        defaults = dict(zip(names[len(names) - len(init.node.args.defaults):], init.node.args.defaults))
                        for pn in names[1:]:
                            if pn not in sub and pn in defaults:
                                sub[pn] = ev.eval(defaults[pn], {})
                        try:
                            outs = Machine(cfg_of(init), self, max_steps=2000, resolver=self.resolver).run(sub)
                        except AnalysisError:
                            outs = []
                        if len(outs) == 1 and outs[0].terminal.kind == "exit":
                            for k, v in outs[0].env.items():
                                if k.startswith("@") and k not in ("@return", "@callvals", "@handling", "@exc"):
                                    env[k] = v
                        else:
                            ok = False
                    vals = dict(env.get("@callvals", {}))
                    vals[id(call)] = obj if ok else UNKNOWN
                    env["@callvals"] = vals
                    return
        super().visit(node, env, ev)


def make_ops(ctx, unit, lengths, items=None, fns=None) -> ObjOps:
    ops = ObjOps(ctx, unit, lengths, items, fns)
    ops.resolver = make_resolver(ctx, unit, ops, skip=("aiter", "iter", "borrow", "anext", "awaitify"), coroutines=True)
    return ops


def run_method(ctx, ops: ObjOps, unit, state: Dict[str, Any], bindings: Dict[str, Any]):
    """one method call on the model: (kind, value, new state) with kind in 'return' / 'raise' / None (not evaluable)"""
    env = dict(state)
    env.update(bindings)
    try:
        outs = Machine(cfg_of(unit), ops, max_steps=4000, resolver=ops.resolver).run(env)
    except AnalysisError:
        return None, None, state
    if len(outs) != 1:
        return None, None, state
    oc = outs[0]
    new = {k: oc.env[k] for k in STATE_KEYS if k in oc.env}
    if oc.terminal.kind == "exit":
        return "return", oc.returned, new
    exc = oc.raised
    return "raise", (exc[1] if isinstance(exc, tuple) and exc[:1] == ("exc",) else str(exc)), new


# ---------------------------------------------------------------------------------- groupby
def _oracle(items: List[Any], keyf, ops_seq: List[Tuple], taken: Optional[List[int]] = None) -> List[Any]:
    from .tooltables import _Src
    src = _Src(items)
    gb = _it.groupby(src, keyf) if keyf is not None else _it.groupby(src)
    groups: List[Any] = []
    out: List[Any] = []
    ended: Set[Tuple] = set()
    beyond = False  # some handle was asked again after it had answered "exhausted" (outside C05's "up to exhaustion")
    for op in ops_seq:
        beyond = beyond or op in ended
        if op[0] == "G":
            try:
                k, g = next(gb)
                groups.append(g)
                out.append(("key", k))
            except StopIteration:
                out.append("exhausted")
                ended.add(op)
        else:
            try:
                out.append(("item", next(groups[op[1]])))
            except StopIteration:
                out.append("exhausted")
                ended.add(op)
    if taken is not None:
        taken.append(src.taken)
        taken.append(None if beyond else src.ends)
    return out


def groupby_histories(ctx, rid: str, depth: int = 4, consumption: bool = False) -> None:
    ctx.rule(rid, f"groupby as operation histories: every sequence of up to {depth} operations (advance the groupby / advance any group "
                  "handed out so far) on every source of up to 3 items with keys from {a, b} (and with the default key) gives, operation "
                  "by operation, the key / item / exhaustion that itertools.groupby gives — by abstract evaluation over an object model")
    gb_cls = ctx.pkg.cls("itertools.GroupBy")
    grouper_next = ctx.unit("itertools._Grouper.__anext__")
    gb_next = ctx.unit("itertools.GroupBy.__anext__")
    gb_init = gb_cls.methods["__init__"]
    ip = gb_init.param_names()
    bad = undecided = 0
    n_ops = [0]
    scenarios = []
    for n in range(0, 4):
        for pattern in _it.product("ab", repeat=n):
            scenarios.append((n, pattern, True))
        # ... and with None as a key value (a legal key like any other: `key=record.get`)
        for pattern in _it.product("an", repeat=n):
            if "n" in pattern:
                scenarios.append((n, pattern, True))
        if n:
            scenarios.append((n, None, False))  # default key: every item is its own key
    for n, pattern, with_key in scenarios:
        items = [("item", 0, i) for i in range(n)]
        keymap = {items[i]: (None if pattern[i] == "n" else ("v", pattern[i])) for i in range(n)} if with_key else None
        ops = make_ops(ctx, gb_init, {0: n}, fns={"K": (lambda a, keymap=keymap: keymap[a[0]])} if with_key else {})
        state0: Dict[str, Any] = {"@heap": {}, "@lists": {}, "@trace": ()}
        gb = ops._alloc(state0, gb_cls.fq)
        binds = {ip[0]: gb, ip[1]: ("IT", 0)}
        if len(ip) > 2:
            binds[ip[2]] = ("FN", "K") if with_key else None
        kind, _v, state1 = run_method(ctx, ops, gb_init, state0, binds)
        label0 = f"groupby(<{n} items with keys {''.join(pattern) if with_key else 'default (the items)'}>)"
        if kind != "return":
            undecided += 1
            ctx.note(f"{rid}: {label0}: construction not evaluable")
            continue
        keyf = (lambda x, keymap=keymap: keymap[x]) if with_key else None

        def explore(state, groups, history, results):
            nonlocal bad, undecided
            if len(history) >= depth:
                return
            for op in [("G",)] + [("I", k) for k in range(len(groups))]:
                ctx.count("groupby_operations")
                n_ops[0] += 1
                if op[0] == "G":
                    kind, val, new = run_method(ctx, ops, gb_next, state, {gb_next.param_names()[0]: gb})
                else:
                    kind, val, new = run_method(ctx, ops, grouper_next, state, {grouper_next.param_names()[0]: groups[op[1]]})
                hist = history + [op]
                want_taken: List[int] = []
                want = _oracle(items, keyf, hist, want_taken)[-1]
                new_groups = groups
                if kind is None:
                    undecided += 1
                    continue
                if kind == "raise":
                    got: Any = "exhausted" if val == "StopAsyncIteration" else ("raises", val)
                elif op[0] == "G":
                    rv = ops.resolve(val, new)
                    if isinstance(rv, tuple) and len(rv) == 2 and ops._is_obj(rv[1]):
                        got = ("key", rv[0])
                        new_groups = groups + [rv[1]]
                    else:
                        got = ("returns", rv)
                else:
                    got = ("item", ops.resolve(val, new))
                if UNKNOWN in _flat(got):
                    undecided += 1  # a value the model cannot follow (e.g. a container it does not know): not decided
                    continue
                if consumption and got == want:
                    n_taken = new.get("@itpos", {}).get(0, 0)
                    n_ends = sum(1 for e in new.get("@trace", ()) if e[:2] == ("poll", 0)) - n_taken
                    if n_taken != want_taken[0]:
                        got = (got, f"{n_taken} items taken from the source")
                        want = (want, f"{want_taken[0]} items taken from the source")
                    elif want_taken[1] is not None and n_ends != want_taken[1]:
                        got = (got, f"the exhausted source was asked {n_ends} time(s)")
                        want = (want, f"the exhausted source was asked {want_taken[1]} time(s)")
                if got != want:
                    bad += 1
                    if bad <= 3:
                        text = " ".join("G" if o[0] == "G" else f"I{o[1]}" for o in hist)
                        ctx.fail(rid, gb_next if op[0] == "G" else grouper_next, "groupby",
                                 f"[{label0}; operations {text}] the last operation gives {_show(got)} where itertools.groupby gives {_show(want)}",
                                 witness=f"results so far: {[_show(r) for r in results]}")
                    continue  # (do not explore beyond a divergence)
                explore(new, new_groups, hist, results + [got])

        explore(state1, [], [], [])
    ctx.count("groupby_undecided", undecided)
    _enough_decided(ctx, rid, "groupby", undecided, n_ops[0])
    if not bad:
        ctx.ok(rid, gb_next, f"groupby equals itertools.groupby on every history of up to {depth} operations over {len(scenarios)} sources")


def _flat(v):
    if isinstance(v, tuple):
        out = []
        for x in v:
            out.extend(_flat(x))
        return out
    return [v]


def _show(v) -> str:
    if isinstance(v, tuple) and v[:1] == ("item",) and len(v) == 3:
        return f"x{v[2]}"
    if isinstance(v, tuple) and v[:1] == ("v",):
        return str(v[1])
    if isinstance(v, tuple):
        return "(" + ", ".join(_show(x) for x in v) + ")"
    return str(v)


# ---------------------------------------------------------------------------------- tee
def tee_histories(ctx, rid: str, depth: int = 5, consumption: bool = False) -> None:
    """``tee(source, n)`` driven sequentially: every order in which up to ``depth`` items are requested from
    the children gives each child what itertools.tee gives it (and, for C05, takes as many items from the source)."""
    ctx.rule(rid, f"tee as operation histories: for 2-3 children over a source of 0-3 items, every sequence of up to {depth} requests to "
                  "the children gives, request by request, the item / exhaustion that itertools.tee gives")
    tee_cls = ctx.pkg.cls("itertools.Tee")
    init = tee_cls.methods["__init__"]
    ip = init.param_names()
    getitem = tee_cls.methods.get("__getitem__")
    bad = undecided = 0
    n_ops = [0]
    for n_children in (2, 3):
        for n_items in range(0, 4):
            items = [("item", 0, i) for i in range(n_items)]
            ops = make_ops(ctx, init, {0: n_items})
            state0: Dict[str, Any] = {"@heap": {}, "@lists": {}, "@trace": (), "@gens": {}}
            tee = ops._alloc(state0, tee_cls.fq)
            binds = {ip[0]: tee, ip[1]: ("IT", 0), ip[2]: n_children}
            for extra in ip[3:]:
                binds[extra] = None
            kind, _v, state1 = run_method(ctx, ops, init, state0, binds)
            label0 = f"tee(<{n_items} items>, n={n_children})"
            children = None
            if kind == "return":
                for _fld, val in state1["@heap"][tee[1]][1].items():
                    el = ops._elements(val, state1)
                    if el is not None and len(el) == n_children and all(isinstance(x, tuple) and x[:1] == ("GEN",) for x in el):
                        children = el
            if children is None:
                undecided += 1
                ctx.note(f"{rid}: {label0}: construction not evaluable")
                continue

            def explore(state, history):
                nonlocal bad, undecided
                if len(history) >= depth:
                    return
                for k in range(n_children):
                    ctx.count("tee_operations")
                    n_ops[0] += 1
                    env = dict(state)
                    env.pop("@undecided", None)
                    val = ops._resume(children[k], env)
                    hist = history + [k]
                    if env.get("@undecided") or UNKNOWN in _flat(val):
                        undecided += 1
                        continue
                    got: Any = "exhausted" if val == ("@raise", "StopAsyncIteration") else \
                        ("raises", val[1]) if isinstance(val, tuple) and val[:1] == ("@raise",) else ("item", val)
                    from .tooltables import _Src
                    src = _Src(items)
                    its = _it.tee(src, n_children)
                    want: Any = None
                    ended: Set[int] = set()
                    beyond = False  # a child was asked again after it had ended (outside C05's "up to exhaustion")
                    for j in hist:
                        beyond = beyond or j in ended
                        try:
                            want = ("item", next(its[j]))
                        except StopIteration:
                            want = "exhausted"
                            ended.add(j)
                    if consumption and got == want:
                        n_taken = env.get("@itpos", {}).get(0, 0)
                        n_ends = sum(1 for e in env.get("@trace", ()) if e[:2] == ("poll", 0)) - n_taken
                        if n_taken != src.taken:
                            got = (got, f"{n_taken} items taken from the source")
                            want = (want, f"{src.taken} items taken from the source")
                        elif not beyond and n_ends != src.ends:
                            got = (got, f"the exhausted source was asked {n_ends} time(s)")
                            want = (want, f"the exhausted source was asked {src.ends} time(s)")
                    if got != want:
                        bad += 1
                        if bad <= 3:
                            ctx.fail(rid, ctx.unit("itertools.tee_peer"), "tee",
                                     f"[{label0}; children asked in the order {hist}] the last request gives {_show(got)} where "
                                     f"itertools.tee gives {_show(want)}")
                        continue
                    explore({k_: env[k_] for k_ in STATE_KEYS if k_ in env}, hist)

            explore(state1, [])
    ctx.count("tee_undecided", undecided)
    _enough_decided(ctx, rid, "tee", undecided, n_ops[0])
    if not bad:
        ctx.ok(rid, ctx.unit("itertools.tee_peer"), f"tee equals itertools.tee on every sequential history of up to {depth} requests")


# ---------------------------------------------------------------------------------- merge
def _merge_cells():
    from .tooltables import Cell, _Calls, _Src, _Sym, _observe
    import heapq as _hq
    runs = {0: [()], 1: [(0,), (1,)], 2: [(0, 0), (0, 1), (1, 1)], 3: [(0, 0, 0), (0, 0, 1), (0, 1, 1), (1, 1, 1)]}
    shapes = []
    for k in (1, 2):
        shapes += list(_it.product(*[runs[0] + runs[1] + runs[2] + runs[3]] * k))
    shapes += list(_it.product(*[runs[0] + runs[1]] * 3))
    for shape in shapes:
        for reverse in (False, True):
            for with_key in (False, True):
                srcs_ranks = [tuple(reversed(r)) if reverse else r for r in shape]
                rk: Dict[Any, int] = {}
                for k, r in enumerate(srcs_ranks):
                    for i, x in enumerate(r):
                        rk[("item", k, i)] = x
                        rk[("key", ("item", k, i))] = x

                def oracle(srcs_ranks=srcs_ranks, reverse=reverse, with_key=with_key):
                    calls: List[Any] = _Calls()
                    srcs = [_Src([_Sym(("item", k, i), rank=x, eq_by_rank=True) for i, x in enumerate(r)]) for k, r in enumerate(srcs_ranks)]

                    def key(x):
                        calls.append(("K", (x.sym,)))
                        return _Sym(("key", x.sym), rank=x.rank, eq_by_rank=True)
                    ys, taken, calls_, end = _observe(lambda: _hq.merge(*srcs, key=key if with_key else None, reverse=reverse), srcs, calls)
                    return [y.sym for y in ys], taken, calls_, end
                kw: Dict[str, Any] = {"reverse": reverse}
                if with_key:
                    kw["key"] = ("FN", "K")
                yield Cell("merge(" + ", ".join("<" + ",".join(map(str, r)) + ">" for r in srcs_ranks) + f"), reverse={reverse}, "
                           f"{'key' if with_key else 'no key'}", [("IT", k) for k in range(len(srcs_ranks))], kw,
                           {k: len(r) for k, r in enumerate(srcs_ranks)}, oracle, fns={"K": lambda a: ("key", a[0])}, ranks=rk)


def merge_table(ctx, rid: str, fields=None, faults: bool = False) -> None:
    from . import tooltables as T
    if not faults:
        ctx.rule(rid, "heapq.merge as a table: 1-3 sorted sources of 0-3 items in two ranks (ties included), both directions, with / without "
                      "key: the items come out in the order heapq.merge produces (equal items: the earlier source first, in either "
                      "direction) — the heap entries are model objects ordered by the class's own __lt__ / __eq__")

    def factory(ctx_, u, cell):
        ops = make_ops(ctx_, u, cell.lengths, cell.items, cell.fns)
        ops.ranks = cell.ranks or {}
        return ops

    T._tables(ctx, rid, [("heapq.merge", _merge_cells)], "asyncgen", "fault_base_cells" if faults else "merge_table_cells",
              fields or T.ITEMS_AND_END, make_ops=factory, faults=faults)


def _enough_decided(ctx, rid: str, what: str, undecided: int, total: int) -> None:
    """A history step the model cannot evaluate is never a violation - but a rule that cannot evaluate a good part of its
    histories decides too little to be believed: that is an analysis error (exit 2), not a silent pass.  (Across the 212
    refactorings of the neutral corpus at most 3 of about 2000 steps were undecided.)"""
    # (a floor: consulted only when the run found no violation - a violating tree is reported, not "not analysable")
    pct = 100 if not total else (100 * (total - undecided)) // total
    ctx.count(f"{rid}: {what} history steps decided (%)", pct)
    ctx.floor(f"{rid}: {what} history steps decided (%)", 98 if total >= 500 else 0)


def _released(ops, state, k: int, n_items: int) -> bool:
    """source k has been closed, or was run to exhaustion (asked once more after its last item)"""
    tr = state.get("@trace", ())
    if ("close", ("IT", k)) in tr:
        return True
    asked = sum(1 for e in tr if e[:2] == ("poll", k))
    return state.get("@itpos", {}).get(k, 0) >= n_items and asked > n_items


def release_histories(ctx, rid: str, depth: int = 4, only=None) -> None:
    """C04 for the handle classes, as histories on the object model: when an operation on the handle raises because the
    source or the user's key failed, the source is closed by the time the failure has surfaced; when the last child of a
    tee is done - closed (started or not) or exhausted - the source is closed or exhausted."""
    ctx.rule(rid, "handles as operation histories with failures: groupby - on every source of 1-3 items, for every failing request to "
                  "the source / failing call of the key and every sequence of operations that runs into it, the source is closed "
                  "when the failure surfaces; chain - likewise for two sources (all of them closed or exhausted); tee - after "
                  "every sequence of next / close operations on the children that leaves every child done, the source is closed "
                  "or exhausted")
    bad: Dict[str, int] = {"groupby": 0, "tee": 0, "chain": 0}
    classes: Dict[Tuple[str, str], List[Any]] = {}

    def fail(kind_: str, unit, text: str, cls: str = "") -> None:
        # one report per *kind of history* that fails (the first such history is the witness, the others are counted)
        bad[kind_] += 1
        entry = classes.setdefault((kind_, cls), [unit, text, 0])
        entry[2] += 1

    # ---- groupby
    gb_cls = ctx.pkg.cls("itertools.GroupBy")
    grouper_next = ctx.unit("itertools._Grouper.__anext__")
    gb_next = ctx.unit("itertools.GroupBy.__anext__")
    gb_init = gb_cls.methods["__init__"]
    ip = gb_init.param_names()
    for n in ((1, 2, 3) if only is None or "groupby" in only else ()):
        for pattern in list(_it.product("ab", repeat=n)):
            items = [("item", 0, i) for i in range(n)]
            keymap = {items[i]: ("v", pattern[i]) for i in range(n)}
            faults = [("poll", 0, j) for j in range(1, n + 2)] + [("call", "K", j) for j in range(1, n + 1)]
            for fault in faults:
                ops = make_ops(ctx, gb_init, {0: n}, fns={"K": (lambda a, keymap=keymap: keymap[a[0]])})
                ops.fault_at = fault
                state0: Dict[str, Any] = {"@heap": {}, "@lists": {}, "@trace": ()}
                gb = ops._alloc(state0, gb_cls.fq)
                binds = {ip[0]: gb, ip[1]: ("IT", 0)}
                if len(ip) > 2:
                    binds[ip[2]] = ("FN", "K")
                kind, _v, state1 = run_method(ctx, ops, gb_init, state0, binds)
                if kind != "return":
                    ctx.count("release_undecided")
                    continue
                what = (f"request {fault[2]} to the source fails" if fault[0] == "poll" else f"call {fault[2]} of the key fails")
                label0 = f"groupby(<{n} items with keys {''.join(pattern)}>), {what}"

                def explore(state, groups, history):
                    if len(history) >= depth:
                        return
                    for op in [("G",)] + [("I", k) for k in range(len(groups))]:
                        if op[0] == "G":
                            kind, val, new = run_method(ctx, ops, gb_next, state, {gb_next.param_names()[0]: gb})
                        else:
                            kind, val, new = run_method(ctx, ops, grouper_next, state, {grouper_next.param_names()[0]: groups[op[1]]})
                        hist = history + [op]
                        if kind is None:
                            ctx.count("release_undecided")
                            continue
                        if kind == "raise" and val == "Boom":
                            ctx.count("release_histories")
                            if not _released(ops, new, 0, n):
                                text = " ".join("G" if o[0] == "G" else f"I{o[1]}" for o in hist)
                                fail("groupby", gb_next,
                                     f"[{label0}; operations {text}] the failure surfaces and the source is neither closed nor "
                                     "exhausted", "groupby raises because its source or key failed: the source stays open")
                            continue
                        if kind == "raise":
                            continue
                        new_groups = groups
                        if op[0] == "G":
                            rv = ops.resolve(val, new)
                            if isinstance(rv, tuple) and len(rv) == 2 and ops._is_obj(rv[1]):
                                new_groups = groups + [rv[1]]
                        explore(new, new_groups, hist)

                explore(state1, [], [])

    # ---- tee: every child done => the source released
    tee_cls = ctx.pkg.cls("itertools.Tee")
    init = tee_cls.methods["__init__"]
    tp = init.param_names()
    peer = ctx.unit("itertools.tee_peer")
    for n_children in ((2, 3) if only is None or "tee" in only else ()):
        for n_items in (0, 1, 2):
            ops = make_ops(ctx, init, {0: n_items})
            state0 = {"@heap": {}, "@lists": {}, "@trace": (), "@gens": {}}
            tee = ops._alloc(state0, tee_cls.fq)
            binds = {tp[0]: tee, tp[1]: ("IT", 0), tp[2]: n_children}
            for extra in tp[3:]:
                binds[extra] = None
            kind, _v, state1 = run_method(ctx, ops, init, state0, binds)
            children = None
            if kind == "return":
                for _fld, val in state1["@heap"][tee[1]][1].items():
                    el = ops._elements(val, state1)
                    if el is not None and len(el) == n_children and all(isinstance(x, tuple) and x[:1] == ("GEN",) for x in el):
                        children = el
            if children is None:
                ctx.count("release_undecided")
                continue
            label0 = f"tee(<{n_items} items>, n={n_children})"

            def explore_tee(state, history, done):
                if len(history) >= depth + 1:
                    return
                for k in range(n_children):
                    if k in done:
                        continue
                    for what in ("next", "close"):
                        env = dict(state)
                        env.pop("@undecided", None)
                        if what == "next":
                            val = ops._resume(children[k], env)
                            finished = isinstance(val, tuple) and val[:1] == ("@raise",)
                        else:
                            ops._close_gen(children[k], env)
                            val, finished = None, True
                        if env.get("@undecided") or UNKNOWN in _flat(val):
                            ctx.count("release_undecided")
                            continue
                        hist = history + [f"{what} {k}"]
                        now_done = done | {k} if finished else done
                        new = {k_: env[k_] for k_ in STATE_KEYS if k_ in env}
                        if len(now_done) == n_children:
                            ctx.count("release_histories")
                            if not _released(ops, new, 0, n_items):
                                started = {int(h.split()[1]) for h in hist if h.startswith("next")}
                                unstarted = [int(h.split()[1]) for i_, h in enumerate(hist) if h.startswith("close")
                                             and int(h.split()[1]) not in {int(x.split()[1]) for x in hist[:i_] if x.startswith("next")}]
                                fail("tee", peer, f"[{label0}; operations {', '.join(hist)}] every child is done and the source is "
                                     "neither closed nor exhausted",
                                     "every child of a tee is done, one of them closed before it was ever advanced: the source stays open"
                                     if unstarted else "every child of a tee is done (each was advanced before): the source stays open")
                            continue
                        explore_tee(new, hist, now_done)

            explore_tee({k_: state1[k_] for k_ in STATE_KEYS if k_ in state1}, [], frozenset())

    # ---- chain: a failing source
    chain_cls = ctx.pkg.cls("itertools.chain")
    c_init = chain_cls.methods["__init__"]
    c_next = chain_cls.methods["__anext__"]
    cp = c_init.param_names()
    va = c_init.node.args.vararg.arg if c_init.node.args.vararg else None
    for lens in (((1, 1), (2, 1), (0, 1), (1, 0)) if only is None or "chain" in only else ()):
        faults = [("poll", k, j) for k in (0, 1) for j in range(1, lens[k] + 2)]
        for fault in faults:
            ops = make_ops(ctx, c_init, {0: lens[0], 1: lens[1]})
            ops.fault_at = fault
            state0 = {"@heap": {}, "@lists": {}, "@trace": (), "@gens": {}}
            ch = ops._alloc(state0, chain_cls.fq)
            binds = {cp[0]: ch}
            if va is None:
                ctx.count("release_undecided")
                continue
            binds[va] = ("SEQ", (("IT", 0), ("IT", 1)))
            for kwo, d in zip(c_init.node.args.kwonlyargs, c_init.node.args.kw_defaults):
                binds[kwo.arg] = ops.ev.eval(d, {}) if d is not None else None
            kind, _v, state = run_method(ctx, ops, c_init, state0, binds)
            if kind != "return":
                ctx.count("release_undecided")
                continue
            label0 = f"chain(<{lens[0]} items>, <{lens[1]} items>), request {fault[2]} to source {fault[1]} fails"
            for step in range(1, sum(lens) + 3):
                kind, val, state = run_method(ctx, ops, c_next, state, {c_next.param_names()[0]: ch})
                if kind is None:
                    ctx.count("release_undecided")
                    break
                rv = ops.resolve(val, state) if kind == "return" else None
                if isinstance(rv, tuple) and rv[:1] == ("@coro",):
                    rv = rv[1]
                failed = (kind == "raise" and val == "Boom") or (isinstance(rv, tuple) and rv[:2] == ("@raise", "Boom"))
                ended = kind == "raise" or (isinstance(rv, tuple) and rv[:1] == ("@raise",))
                if failed:
                    ctx.count("release_histories")
                    open_ = [k for k in (0, 1) if not _released(ops, state, k, lens[k])]
                    if open_:
                        fail("chain", c_next, f"[{label0}; step {step}] the failure surfaces and source(s) {open_} are neither closed "
                             "nor exhausted", "chain raises because a source failed: the sources it owns stay open")
                if ended or UNKNOWN in _flat(rv):
                    if not ended:
                        ctx.count("release_undecided")
                    break
    for (kind_, cls), (unit, text, n_) in sorted(classes.items(), key=lambda kv: kv[0]):
        ctx.fail(rid, unit, cls, text, witness=f"{n_} failing histor{'y' if n_ == 1 else 'ies'} of this kind")
    for kind_, n_bad in bad.items():
        if not n_bad:
            ctx.ok(rid, kind_, f"{kind_}: the source(s) are released in every history explored")


def tee_construction(ctx, rid: str, P: Dict[str, str], retention: bool = False) -> Optional[bool]:
    """What ``Tee.__init__`` builds, read off the evaluated heap: one shared list of n distinct, empty
    buffers; child k is a tee_peer frame whose buffer is element k of that list and whose ``peers`` is
    that very list; all children share one source iterator.  None = construction not evaluable."""
    tee_cls = ctx.pkg.cls("itertools.Tee")
    init = tee_cls.methods["__init__"]
    ip = init.param_names()
    ok_all = True
    for n_children in (1, 2, 3):
        ops = make_ops(ctx, init, {0: 2})
        state0: Dict[str, Any] = {"@heap": {}, "@lists": {}, "@trace": (), "@gens": {}}
        tee = ops._alloc(state0, tee_cls.fq)
        binds = {ip[0]: tee, ip[1]: ("IT", 0), ip[2]: n_children}
        for extra in ip[3:]:
            binds[extra] = None
        kind, _v, st = run_method(ctx, ops, init, state0, binds)
        if kind != "return" or ops.undecided:
            return None
        children = None
        for _fld, val in st["@heap"][tee[1]][1].items():
            el = ops._elements(val, st)
            if el is not None and len(el) == n_children and all(isinstance(x, tuple) and x[:1] == ("GEN",) for x in el):
                children = el
        if children is None:
            return None
        ctx.count("tee_constructions")
        frames = [st["@gens"][c[1]]["locals"] for c in children]
        peers = [f.get(P["peers"]) for f in frames]
        buffers = [f.get(P["buffer"]) for f in frames]
        sources = [f.get(P["iterator"]) for f in frames]
        if any(x is UNKNOWN or x is None for x in peers + buffers + sources):
            return None  # the model could not follow how an argument was built
        shared_ok = all(ops._is_list(x) for x in peers) and len(set(peers)) == 1
        elems = ops._elements(peers[0], st) if shared_ok else None
        if retention:
            # (C20) a finished child takes its buffer out of the shared list, and with that the buffer must be gone:
            # the tee object refers to the buffers through that list only
            if not shared_ok or elems is None:
                return None
            ctx.count("tee_constructions")
            extra = []
            for fld, val in st["@heap"][tee[1]][1].items():
                if val == peers[0]:
                    continue
                el = ops._elements(val, st)
                if (el is not None and any(x in elems for x in el)) or val in elems:
                    extra.append(fld)
            ctx.check(not extra, rid, init, "children",
                      f"[n={n_children}] the tee object refers to its children's buffers only through the list the children "
                      "remove their buffer from (a buffer whose child finished is not kept alive by the tee object)",
                      witness=f"also referenced from field(s) {extra}")
            ok_all = ok_all and not extra
            continue
        ok = shared_ok and elems is not None and len(elems) == n_children and len(set(elems)) == n_children \
            and all(ops._is_list(b) and ops._get(st, b) == () for b in elems) and buffers == list(elems) \
            and set(sources) == {("IT", 0)}
        ctx.check(bool(ok), rid, init, "children",
                  f"[n={n_children}] the children share one list of {n_children} distinct empty buffers; child k reads buffer k and "
                  "is handed that very list as peers; all children pull from the user's iterator itself (no library "
                  "generator in between that a cancelled child would take down with it)",
                  witness=f"peers={peers} buffers={buffers} shared list holds {elems}")
        ok_all = ok_all and bool(ok)
    return ok_all
