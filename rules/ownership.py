"""
Ownership / cleanup-coverage engine shared by C04 (all fault kinds) and C18
(cancellation = exception thrown in at a suspension point).

For every coroutine / async generator of the package and every ITERABLE-role parameter
``p`` the iterator of ``p`` is *owed a close* from function entry on.  A node is a
*close node* for p when executing it releases p (accepted idioms, by what they do):

  K1  exit of ``async with ScopedIter(<expr mentioning p>)``         (every copy of the exit)
  K2  a ``for x in C`` loop in which every path through the body awaits ``x.aclose()``
      or proves x has none, C being the complete container of p's iterators
  K2' a direct ``await it.aclose()`` on an iterator of p
  K3  ``await <library coroutine>(.. p ..)`` with p in an ITERABLE-role position
      (ownership transfer; the callee is checked for its own parameter)

Rule: every *risky* node (a node at which a source, a user callable, the consumer or a
canceller can make the function raise) that is reachable from entry without passing a
close node must have an exceptional continuation on which every path to the function's
exceptional exit passes a close node; and no normal exit is reachable without passing a
close node except on an exhaustion path of p.
"""
from __future__ import annotations

import ast
from typing import Dict, Iterable, List, Optional, Set, Tuple

from asl.cfg import CFG, Node, cfg_of
from asl.flow import find_path, pretty_path, reachable
from asl.loader import AnalysisError, Unit, norm, own_nodes
from asl.values import USERISH, Val, atoms_deep, mentions, roles_of_annotation
from .common import real_units

SUSPENSION_KINDS = ("await", "yield", "pull", "enter", "exit_cm")

# K0: deliberately non-owning adapters (outside C04's tool list), one reason each
NON_OWNING = {
    "asynctools.any_iter": "adapter that normalises shapes; documented to leave non-iterables alone, not in C04's tool list",
    "asynctools.await_each": "adapter over a *synchronous* iterable of awaitables; nothing to aclose",
    "_core._aiter_sync": "wraps a synchronous iterable, which has no aclose",
}

# parameter validation that precedes acquisition (outside the fault model "a source, a
# callable or the consumer raises"); keyed by (unit, normalised construct)
PRE_ACQUISITION = {
    ("itertools.batched", "raise ValueError('n must be at least one')"): "argument validation before the source is touched",
    ("builtins.dict", "iterable"): "truth test of the argument: a falsy iterable is empty and synchronous, nothing is owed",
}


def closes_all_param(ctx, u: Unit, pname: str) -> bool:
    """A cleanup helper: a coroutine whose body is a loop over ``pname`` that closes every
    element (same acceptance test as the K2 loop)."""
    if u.kind != "coroutine":
        return False
    cfg = cfg_of(u)
    src = f"{u.short}:{pname}"
    for n in cfg.nodes:
        if n.kind == "siter" and not n.tag and isinstance(n.info.get("iter"), ast.Name) and n.info["iter"].id == pname:
            if _loop_closes_all(ctx, u, cfg, n, src, elements_are_iterators=True):
                # nothing but the loop: no other await / yield outside of it
                others = [m for m in cfg.nodes if m.kind in ("await", "yield", "pull") and not m.tag
                          and not m.in_region("loop", n.ast)]
                return not others
    return False


def closes_own_param(ctx, u: Unit, pname: str) -> bool:
    """Summary "this coroutine closes the iterator it is given": on every normal path from
    entry to exit it awaits ``<pname>.aclose()`` or takes an edge on which the object is known
    to have no ``aclose``; it suspends nowhere else.  Lets a per-iterator cleanup helper live
    anywhere in the package (``await _close(it)``)."""
    if u.kind not in ("coroutine", "sync") or pname not in u.param_names():
        return False
    memo = ctx.__dict__.setdefault("_closes_own_param", {})
    key = (id(u.node), pname)
    if key in memo:
        return memo[key]
    memo[key] = False
    v = ctx.inlined(u)
    cfg = cfg_of(v)
    closes = set()
    # a coroutine awaits the close; a plain function hands the close awaitable to its caller
    # (``return it.aclose()``), who awaits it (``await helper(it)``, _is_close_helper_await)
    closing = "await" if u.kind == "coroutine" else "return"
    for n in cfg.nodes:
        if n.kind == closing and not n.tag and _names_aclose(ctx, v, n.info.get("value"), n):
            recv = _aclose_receiver(ctx, v, n.info.get("value"), n)
            if isinstance(recv, ast.Name) and recv.id == pname:
                closes.add(n)
    others = [n for n in cfg.nodes if n.kind in ("await", "yield", "pull", "enter", "exit_cm") and not n.tag and n not in closes]
    if not closes or others:
        return False
    no_aclose = {n: no_aclose_edge(ctx, v, n) for n in cfg.nodes if n.kind == "branch"}

    def edge(a: Node, lab: str, b: Node) -> bool:
        if lab == "p":
            return False
        if lab == "e":
            return a.kind == "attr" and b.kind == "dispatch"  # attribute lookup failing into its handler
        if a.kind == "dispatch":
            return False  # ... and that handler (AttributeError) means: nothing to close
        if a.kind == "branch" and lab == "f" and "ACloseable" in norm(a.ast):
            return False
        if a.kind == "branch" and no_aclose.get(a) and lab == no_aclose[a]:
            return False
        return True

    leak = find_path(cfg.entry, lambda x: x is cfg.exit, avoid=lambda x: x in closes, edge_ok=edge)
    memo[key] = leak is None
    return memo[key]


def _is_close_helper_await(ctx, unit: Unit, n: Node, src: Optional[str]) -> bool:
    """``await helper(x)`` where ``helper`` is summarised by closes_own_param and x is an
    iterator of src."""
    if n.kind != "await":
        return False
    call = n.info.get("value")
    if not isinstance(call, ast.Call) or not call.args or call.keywords:
        return False
    try:
        fv = ctx.vals.expr(unit, call.func, n)
    except Exception:  # noqa: BLE001
        return False
    for f in fv:
        target, off = None, 0
        if f[0] == "libfn":
            target = ctx.pkg.lib_unit(f[1])
        elif f[0] == "bound":
            target, off = ctx.vals.find_method(f[1], f[2]), 1
        if target is None or target.kind not in ("coroutine", "sync"):
            continue
        names = target.param_names()[off:] if not target.is_static() else target.param_names()
        if len(call.args) != 1 or not names:
            continue
        if not closes_own_param(ctx, target, names[0]):
            continue
        if src is None:
            return True
        av = ctx.vals.expr(unit, call.args[0], n)
        if any(a[0] in ("iter", "user", "item") and a[1] in (src, src + "[]") for a in av):
            return True
    return False


def _only_library_containers(ctx, u: Unit, pname: str) -> bool:
    """An internal helper whose iterable parameter is, at every call site, a container built by
    the library (the tuple of a ``*args`` parameter, a list the caller filled): iterating it is not
    iterating a user's iterable, there is nothing to close."""
    from . import c03
    if not c03._is_internal(u):
        return False
    b = c03.bindings(ctx, u, pname)
    return bool(b) and all(bv and all(x[0] in ("elems", "fresh", "kwargs") for x in bv) for bv in b)


def iterable_params(ctx) -> List[Tuple[Unit, str, str]]:
    out = []
    for u in real_units(ctx):
        if u.kind not in ("coroutine", "asyncgen"):
            continue
        if ctx.pkg.canonical(u) in NON_OWNING:
            continue
        for p in u.params():
            roles = roles_of_annotation(p.annotation)
            if "ITERABLE" in roles:
                if closes_all_param(ctx, u, p.arg):
                    continue  # a private cleanup helper: it *is* the close of what it receives
                if _only_library_containers(ctx, u, p.arg):
                    continue  # a private helper that is handed the tuple of ``*args`` / a list its caller built
                if _only_items(ctx, u, p.arg):
                    continue  # a private helper that is handed an *item* of a stream (starmap's argument tuple), not a source
                out.append((u, p.arg, f"{u.short}:{p.arg}"))
    return out


def _only_items(ctx, u: Unit, pname: str) -> bool:
    """every call site of the private helper ``u`` binds ``pname`` to an item taken from a source"""
    from .c03 import _is_internal, bindings
    if not _is_internal(u) or u.cls is not None:
        return False
    try:
        b = bindings(ctx, u, pname)
    except Exception:  # noqa: BLE001
        return False
    return bool(b) and all(bv and all(a[0] == "item" for a in bv) for bv in b)


# --------------------------------------------------------------------------- close nodes
def _is_aclose_await(ctx, unit: Unit, n: Node, src: Optional[str]) -> bool:
    """``await X.aclose()`` / ``await aclose()`` / ``await aclose`` on an iterator of src."""
    if n.kind != "await":
        return False
    operand = n.info.get("value")
    v = ctx.vals.expr(unit, operand, n)
    if src is not None and not any(a[0] == "userawait" and a[1] in (src, src + "[]") for a in v):
        return False
    return _names_aclose(ctx, unit, operand, n)


def _aclose_receiver(ctx, unit: Unit, e: Optional[ast.AST], n: Node, depth: int = 0) -> Optional[ast.AST]:
    """X for ``X.aclose()`` / ``getattr(X, "aclose", d)()`` / a local bound to either."""
    if e is None or depth > 4:
        return None
    if isinstance(e, ast.Call):
        if isinstance(e.func, ast.Name) and e.func.id == "getattr" and len(e.args) >= 2 \
                and isinstance(e.args[1], ast.Constant) and e.args[1].value == "aclose":
            return e.args[0]
        return _aclose_receiver(ctx, unit, e.func, n, depth + 1)
    if isinstance(e, ast.Attribute) and e.attr == "aclose":
        return e.value
    if isinstance(e, ast.Name):
        from .common import name_value
        v = name_value(ctx, unit, cfg_of(unit), n, e.id)
        return _aclose_receiver(ctx, unit, v, n, depth + 1) if v is not None else None
    return None


def _closes_owner_generator(ctx, unit: Unit, n: Node, src: str) -> bool:
    """K3': ``await g.aclose()`` where ``g`` is a library async generator that was handed the
    iterable (``g = aiter(zip(*iterable))``): the generator owns it (and is checked for its own
    parameter), closing the generator is this function's release."""
    if n.kind != "await":
        return False
    if _names_aclose(ctx, unit, n.info.get("value"), n):
        recv = _aclose_receiver(ctx, unit, n.info.get("value"), n)
    elif _is_close_helper_await(ctx, unit, n, None):
        recv = n.info["value"].args[0]
    else:
        return False
    if not isinstance(recv, ast.Name):
        return False
    v = ctx.vals.expr(unit, recv, n)
    if not v or not all(a[0] in ("libgen", "scoped") for a in v):
        return False
    from asl.flow import reaching
    defs = reaching(cfg_of(unit)).defs_at(n, recv.id)
    vals = [d.info.get("value") for d in defs if d.kind == "store"]
    return bool(vals) and len(vals) == len(defs) and all(_expr_mentions(ctx, unit, val, d, src) for val, d in zip(vals, defs))


def _names_aclose(ctx, unit: Unit, e: Optional[ast.AST], n: Node, depth: int = 0) -> bool:
    if e is None or depth > 4:
        return False
    if isinstance(e, ast.Call):
        if isinstance(e.func, ast.Name) and e.func.id == "getattr" and len(e.args) >= 2:
            return isinstance(e.args[1], ast.Constant) and e.args[1].value == "aclose"
        return _names_aclose(ctx, unit, e.func, n, depth + 1)
    if isinstance(e, ast.Attribute):
        return e.attr == "aclose"
    if isinstance(e, ast.Name):
        # a local bound to ``x.aclose`` or ``x.aclose()``
        from asl.flow import reaching
        cfg = cfg_of(unit)
        defs = reaching(cfg).defs_at(n, e.id)
        vals = [d.info.get("value") for d in defs if d.kind == "store"]
        return bool(vals) and all(_names_aclose(ctx, unit, v, n, depth + 1) for v in vals)
    return False


def no_aclose_edge(ctx, unit: Unit, n: Node) -> str:
    """The label of the edge of branch ``n`` on which the tested object is known to have no
    ``aclose`` ('' if the branch is no such test): ``hasattr(x, "aclose")`` false, or an
    identity test of ``getattr(x, "aclose", <default>)`` against that very default."""
    e = n.ast
    neg = False
    while isinstance(e, ast.UnaryOp) and isinstance(e.op, ast.Not):
        e, neg = e.operand, not neg
    # the CFG puts the branch on the innermost test: ``not`` is folded into the edge labels
    if isinstance(e, ast.Call) and isinstance(e.func, ast.Name) and e.func.id == "hasattr" and len(e.args) == 2 \
            and isinstance(e.args[1], ast.Constant) and e.args[1].value == "aclose":
        return "f"
    if isinstance(e, ast.Compare) and len(e.ops) == 1 and isinstance(e.ops[0], (ast.Is, ast.IsNot)):
        sides = [e.left, e.comparators[0]]
        for a, b in (sides, sides[::-1]):
            got = a
            if isinstance(a, ast.Name):
                from .common import name_value
                got = name_value(ctx, unit, cfg_of(unit), n, a.id)
            if isinstance(got, ast.NamedExpr):
                got = got.value
            if isinstance(got, ast.Call) and isinstance(got.func, ast.Name) and got.func.id == "getattr" \
                    and len(got.args) == 3 and isinstance(got.args[1], ast.Constant) and got.args[1].value == "aclose" \
                    and norm(got.args[2]) == norm(b):
                return "t" if isinstance(e.ops[0], ast.Is) else "f"
    return ""


def _loop_closes_all(ctx, unit: Unit, cfg: CFG, siter: Node, src: str, elements_are_iterators: bool = False) -> bool:
    """K2: does this ``for`` loop close every element (iterator of src)?"""
    loop = siter.ast
    if not isinstance(loop, ast.For):
        return False
    itv = ctx.vals.expr(unit, siter.info["iter"], siter)
    elem = ctx.vals.element_of(itv)
    if elements_are_iterators:
        src = src + "[]" if any(a[0] == "item" and a[1] == src + "[]" for a in elem) else src
    if not any(a[0] in ("iter", "user", "tuple", "item") and mentions(frozenset([a]), src) for a in elem):
        return False
    # the snext node of this copy of the loop
    snext = [s for (lab, s) in siter.succ if lab == "n" and s.kind == "snext"]
    if not snext:
        return False
    head = snext[0]
    body_entry = [s for (lab, s) in head.succ if lab == "n"]
    if not body_entry:
        return False
    closes = [n for n in cfg.nodes if n.in_region("loop", loop) and n.tag == siter.tag
              and (_is_aclose_await(ctx, unit, n, src) or _is_close_helper_await(ctx, unit, n, src))]
    if not closes:
        return False
    closeset = set(closes)
    # every path body-entry -> back to head passes a close await, the false edge of an
    # ``isinstance(x, ACloseable)`` test, or an AttributeError handler (no aclose attribute)
    seen: Set[Node] = set()
    work = list(body_entry)
    while work:
        n = work.pop()
        if n in seen or n in closeset:
            continue
        seen.add(n)
        if n is head:
            return False
        if n.kind == "handler" and "AttributeError" in norm(n.info.get("type")):
            continue
        for lab, s in n.succ:
            if lab in ("e", "p"):
                continue
            if n.kind == "branch" and lab == "f" and "ACloseable" in norm(n.ast):
                continue
            if n.kind == "branch" and lab == no_aclose_edge(ctx, unit, n):
                continue
            if not s.in_region("loop", loop):
                return False  # leaves the loop (``break``) before this element was closed: the rest stays open
            work.append(s)
    return True


def _container_complete(ctx, unit: Unit, cfg: CFG, siter: Node, src: str) -> Optional[str]:
    """R04.2: the K2 loop ranges over the complete container of p's iterators."""
    it = siter.info["iter"]
    if isinstance(it, ast.Call) and isinstance(it.func, ast.Name) and it.func.id in ("enumerate", "reversed", "list", "tuple") and it.args:
        it = it.args[0]
    if isinstance(it, (ast.Tuple, ast.List)):
        # ``for x in (padding, *sources)``: the complete container spliced into a display next to objects the tool made itself
        starred = [e.value for e in it.elts if isinstance(e, ast.Starred) and isinstance(e.value, ast.Name)]
        others = [e for e in it.elts if not isinstance(e, ast.Starred)]
        if len(starred) == 1 and len(starred) + len(others) == len(it.elts) \
                and not any(_expr_mentions(ctx, unit, e, siter, src) for e in others):
            it = starred[0]
    if not isinstance(it, ast.Name):
        return f"cleanup loop iterates `{norm(it)}`, not the bare container of acquired iterators"
    name = it.id
    for n in cfg.nodes:
        if n.kind != "store" or n.tag:
            continue
        from asl.flow import node_defs
        if name not in node_defs(n):
            continue
        value = n.info.get("value")
        comp = value
        if isinstance(comp, ast.Tuple) and len(comp.elts) == 1 and isinstance(comp.elts[0], ast.Starred):
            comp = comp.elts[0].value
        if isinstance(comp, ast.Call) and norm(comp.func).split(".")[-1] in ("list", "tuple") and comp.args:
            comp = comp.args[0]
        if isinstance(comp, ast.Name) and comp.id != name:
            # ``C = tuple(L)``: L is a list that was filled by an explicit loop
            why = _filled_completely(ctx, unit, cfg, comp.id)
            if why:
                return f"container `{name}` is built from `{comp.id}`: {why}"
            continue
        if isinstance(comp, ast.Call) and norm(comp.func).split(".")[-1] == "map" and len(comp.args) == 2 \
                and isinstance(comp.args[1], ast.Name) and norm(comp.args[0]).split(".")[-1] in ("aiter", "iter"):
            continue  # ``map(aiter, iterables)``: one iterator per argument, none left out
        if isinstance(comp, (ast.ListComp, ast.GeneratorExp)):
            if any(g.ifs for g in comp.generators):
                return f"container `{name}` is built by a filtered comprehension: some iterators are never closed"
            if len(comp.generators) != 1 or isinstance(comp.generators[0].iter, ast.Subscript):
                return f"container `{name}` does not range over the complete argument"
        elif value is not None and not isinstance(value, (ast.List, ast.Tuple)):
            return f"container `{name}` is bound to `{norm(value)}`, not a complete collection of the iterators"
    # removals only on an exhaustion path
    for n in cfg.nodes:
        if n.tag:
            continue
        removing = False
        if n.kind == "store":
            for t in n.info.get("targets", []):
                if isinstance(t, ast.Subscript) and isinstance(t.value, ast.Name) and t.value.id == name:
                    removing = True
        elif n.kind == "del":
            for t in n.info.get("targets", []):
                if isinstance(t, ast.Subscript) and isinstance(t.value, ast.Name) and t.value.id == name:
                    removing = True
        elif n.kind == "call":
            f = n.ast.func  # type: ignore[union-attr]
            if isinstance(f, ast.Attribute) and isinstance(f.value, ast.Name) and f.value.id == name \
                    and f.attr in ("pop", "popleft", "remove", "clear", "popitem"):
                removing = True
            args = n.ast.args  # type: ignore[union-attr]
            if args and isinstance(args[0], ast.Name) and args[0].id == name and \
                    norm(f).split(".")[-1] in ("heappop", "heapreplace", "heappushpop"):
                removing = True
        if removing:
            in_stop = any(k == "handler" and "StopAsyncIteration" in norm(a.type) for (k, a) in n.regions)  # type: ignore[union-attr]
            if not in_stop and _exhaustion_witnessed(ctx, unit, cfg, n):
                in_stop = True
            if not in_stop:
                return (f"`{norm(n.ast).splitlines()[0]}` removes an iterator from `{name}` "
                        f"outside an exhaustion handler: it would never be closed")
    return None


def _fetch_call(e: Optional[ast.AST]) -> Optional[ast.Call]:
    """``anext(it[, default])`` / ``it.__anext__()`` under an await -> the call."""
    if isinstance(e, ast.Await):
        e = e.value
    if isinstance(e, ast.Call):
        f = norm(e.func).split(".")[-1]
        if f in ("anext", "__anext__"):
            return e
    return None


def _exhaustion_flag_positions(ctx, unit: Unit, call: ast.Call) -> Optional[Tuple[Set[int], bool]]:
    """A private library coroutine that fetches one item and reports exhaustion in its return value: every return inside
    its StopAsyncIteration handler carries the constant False at some position (of a tuple, or as the whole value: -1)
    and every other return carries the constant True there.  -> (positions, True) or None."""
    res = ctx.pkg.resolve_expr_global(unit.module, call.func)
    target = ctx.pkg.lib_unit(res.qual) if res is not None and getattr(res, "qual", None) else None
    if target is None or target.kind != "coroutine" or not target.node.name.startswith("_"):
        return None
    tcfg = cfg_of(target)
    if not any(_fetch_call(n.ast) is not None for n in tcfg.nodes if n.kind == "await"):
        return None
    inside, outside = [], []
    for n in tcfg.nodes:
        if n.kind != "return" or n.tag:
            continue
        v = n.info.get("value")
        stop = any(k == "handler" and "StopAsyncIteration" in norm(a.type) for (k, a) in n.regions)  # type: ignore[union-attr]
        (inside if stop else outside).append(v)
    if not inside or not outside:
        return None

    def consts(v) -> Dict[int, object]:
        if isinstance(v, ast.Tuple):
            return {i: e.value for i, e in enumerate(v.elts) if isinstance(e, ast.Constant) and isinstance(e.value, bool)}
        if isinstance(v, ast.Constant) and isinstance(v.value, bool):
            return {-1: v.value}
        return {}
    positions = None
    for v in inside:
        here = {i for i, c in consts(v).items() if c is False}
        positions = here if positions is None else positions & here
    for v in outside:
        here = {i for i, c in consts(v).items() if c is True}
        positions = (positions or set()) & here
    return (positions, True) if positions else None


def _exhaustion_witnessed(ctx, unit: Unit, cfg: CFG, removal: Node) -> bool:
    """The removal is reached only with evidence that the item fetch before it found the iterator exhausted: on every
    path from the entry or from any fetch (await / async-for step) to the removal, control enters a StopAsyncIteration
    handler, or takes the branch on which the value of ``anext(it, MARK)`` *is* the marker, or the branch on which the
    flag returned by a private fetch helper (False exactly in its StopAsyncIteration handler) is false."""
    from asl.flow import node_defs, reaching
    rd = reaching(cfg)
    blocked_nodes: Set[Node] = {n for n in cfg.nodes if n.kind == "handler" and "StopAsyncIteration" in norm(n.info.get("type"))}
    blocked_edges: Set[Tuple[Node, str]] = set()

    def defining_stores(at: Node, name: str) -> List[Node]:
        return [d for d in rd.defs_at(at, name)]

    for b in cfg.nodes:
        if b.kind != "branch" or b.tag:
            continue
        t = b.ast
        # (b) ``value is MARK`` / ``value is not MARK``
        if isinstance(t, ast.Compare) and len(t.ops) == 1 and isinstance(t.ops[0], (ast.Is, ast.IsNot)) \
                and isinstance(t.left, ast.Name) and isinstance(t.comparators[0], ast.Name):
            for val, mark in ((t.left, t.comparators[0]), (t.comparators[0], t.left)):
                defs = defining_stores(b, val.id)
                ok = bool(defs)
                for d in defs:
                    call = _fetch_call(d.info.get("value")) if d.kind == "store" else None
                    if call is None or len(call.args) != 2 or norm(call.args[1]) != mark.id:
                        ok = False
                # the marker is private to this unit: a fresh object() (or a module-level sentinel), never an item
                if ok:
                    blocked_edges.add((b, "t" if isinstance(t.ops[0], ast.Is) else "f"))
                    break
        # (c) ``if alive`` where ``alive[, value] = await _helper(it)``
        if isinstance(t, ast.Name):
            defs = defining_stores(b, t.id)
            ok = bool(defs)
            for d in defs:
                v = d.info.get("value") if d.kind == "store" else None
                call = v.value if isinstance(v, ast.Await) and isinstance(v.value, ast.Call) else None
                summary = _exhaustion_flag_positions(ctx, unit, call) if call is not None else None
                if summary is None:
                    ok = False
                    break
                positions = summary[0]
                tg = d.info.get("targets", [None])[0]
                if isinstance(tg, ast.Tuple):
                    idx = [i for i, e in enumerate(tg.elts) if isinstance(e, ast.Name) and e.id == t.id]
                    if not idx or idx[0] not in positions:
                        ok = False
                elif not (isinstance(tg, ast.Name) and -1 in positions):
                    ok = False
            if ok:
                blocked_edges.add((b, "f"))
    if not blocked_edges and not blocked_nodes:
        return False
    starts = [cfg.entry] + [n for n in cfg.nodes if n.kind in ("await", "pull") and not n.tag and n is not removal]
    seen: Set[Node] = set()
    work = list(starts)
    while work:
        n = work.pop()
        if n in seen:
            continue
        seen.add(n)
        if n is removal:
            return False
        for lab, nxt in n.succ:
            if (n, lab) in blocked_edges or nxt in blocked_nodes:
                continue
            work.append(nxt)
    return True


def _filled_completely(ctx, unit: Unit, cfg: CFG, lname: str) -> Optional[str]:
    """A local list that starts empty and receives one element per element of the loop it is
    filled in, unconditionally ('' = complete, else the reason it may be incomplete)."""
    inits = [n for n in cfg.nodes if n.kind == "store" and not n.tag and lname in {
        t.id for t in n.info.get("targets", []) if isinstance(t, ast.Name)}]
    for i in inits:
        v = i.info.get("value")
        empty = (isinstance(v, ast.List) and not v.elts) or (isinstance(v, ast.Call) and norm(v.func).split(".")[-1] == "list" and not v.args)
        if not empty:
            return f"`{lname}` is not started as an empty list"
    adds = [n for n in cfg.nodes if n.kind == "call" and not n.tag and isinstance(n.ast.func, ast.Attribute)
            and isinstance(n.ast.func.value, ast.Name) and n.ast.func.value.id == lname]
    if not adds:
        return f"nothing is added to `{lname}`"
    for a in adds:
        if a.ast.func.attr != "append":
            return f"`{lname}.{a.ast.func.attr}(...)`"
        loops = [x for (k, x) in a.regions if k == "loop" and isinstance(x, ast.For)]
        if not loops:
            return f"`{lname}.append` outside a loop over the arguments"
        loop = loops[-1]
        it = loop.iter
        if isinstance(it, ast.Call) and norm(it.func).split(".")[-1] == "enumerate" and it.args:
            it = it.args[0]
        if not isinstance(it, ast.Name):
            return f"the filling loop ranges over `{norm(loop.iter)}`, not the complete argument"
        head = [n for n in cfg.nodes if n.kind == "snext" and n.ast is loop and not n.tag]
        for h in head:
            body = [s for (lab, s) in h.succ if lab == "n"]
            skip = find_path(body[0], lambda x: x is h, avoid=lambda x: x is a,
                             edge_ok=lambda p_, lab, q: lab not in ("e", "p")) if body else None
            if skip is not None:
                return f"`{lname}.append` can be skipped for some arguments"
    return None


def _handed_to_generator(ctx, unit: Unit, e: Optional[ast.AST], n: Node, src: str):
    """``g(x, ...)`` with g a library async generator and some argument mentioning src: [(g, parameter name)]; None if ``e``
    is not such a call"""
    if not isinstance(e, ast.Call):
        return None
    out = []
    for f in ctx.vals.expr(unit, e.func, n):
        g = ctx.pkg.lib_unit(f[1]) if f[0] == "libfn" else None
        if g is None or g.kind != "asyncgen":
            return None
        names = g.param_names()
        va = g.node.args.vararg.arg if g.node.args.vararg else None
        for i, a in enumerate(e.args):
            inner = a.value if isinstance(a, ast.Starred) else a
            if _expr_mentions(ctx, unit, inner, n, src):
                pn = va if (isinstance(a, ast.Starred) or i >= len(names)) else names[i]
                if pn is None:
                    return None
                out.append((g, pn))
    return out or None


class _Recorder:
    """a context that records instead of reporting (to ask "would the rule hold for this unit?")"""
    def __init__(self, ctx):
        self._ctx, self.failed = ctx, 0

    def __getattr__(self, name):
        return getattr(self._ctx, name)

    def ok(self, *a, **k):
        return None

    def count(self, *a, **k):
        return None

    def note(self, *a, **k):
        return None

    def fail(self, *a, **k):
        self.failed += 1

    def check(self, cond, *a, **k):
        if not cond:
            self.failed += 1
        return cond


def _releases_param(ctx, g: Unit, pname: str) -> bool:
    memo = ctx.__dict__.setdefault("_releases_param", {})
    key = (id(g.node), pname)
    if key not in memo:
        memo[key] = True  # (recursion: assume, then verify)
        rec = _Recorder(ctx)
        try:
            check_param(rec, "R04.1", g, pname, f"{g.short}:{pname}")
        except AnalysisError:
            rec.failed += 1
        memo[key] = rec.failed == 0
    return memo[key]


def closing_context_class(ctx, info):
    """A library context manager class whose ``__aexit__`` closes every element of a container its constructor was given
    (``async with Closing(iterators): ...`` stands for the try/finally with the closing loop), or of the list of iterators
    its constructor made of such a container (``self._its = [aiter(x) for x in iterables]``).  Returns the set of
    constructor parameters that are released this way (empty: not such a class)."""
    memo = ctx.__dict__.setdefault("_closing_context_class", {})
    if info.fq in memo:
        return memo[info.fq]
    memo[info.fq] = set()
    init, aexit, aenter = info.methods.get("__init__"), info.methods.get("__aexit__"), info.methods.get("__aenter__")
    if init is None or aexit is None or aenter is None or aexit.kind != "coroutine":
        return set()
    me0 = init.param_names()[0]
    params = init.param_names()[1:]

    def from_param(val):
        """the parameter a field value stands for: the parameter itself, or one iterator per element of it"""
        if isinstance(val, ast.Name) and val.id in params:
            return val.id
        if isinstance(val, ast.ListComp) and len(val.generators) == 1 and not val.generators[0].ifs \
                and not val.generators[0].is_async and isinstance(val.generators[0].iter, ast.Name) and val.generators[0].iter.id in params \
                and isinstance(val.generators[0].target, ast.Name) and isinstance(val.elt, ast.Call) and len(val.elt.args) == 1 \
                and isinstance(val.elt.args[0], ast.Name) and val.elt.args[0].id == val.generators[0].target.id \
                and norm(val.elt.func).split(".")[-1] in ("aiter", "iter"):
            return val.generators[0].iter.id
        if isinstance(val, ast.Call) and norm(val.func) == "list" and len(val.args) == 1 and isinstance(val.args[0], ast.Call) \
                and norm(val.args[0].func) == "map" and len(val.args[0].args) == 2 and norm(val.args[0].args[0]).split(".")[-1] in ("aiter", "iter") \
                and isinstance(val.args[0].args[1], ast.Name) and val.args[0].args[1].id in params:
            return val.args[0].args[1].id
        return None

    fields = {}
    for st in init.node.body:  # (top level: bound unconditionally)
        tgts = st.targets if isinstance(st, ast.Assign) else [st.target] if isinstance(st, ast.AnnAssign) and st.value is not None else []
        for t in tgts:
            if isinstance(t, ast.Attribute) and norm(t.value) == me0:
                pn = from_param(st.value)
                if pn is not None:
                    fields[t.attr] = pn
    if not fields:
        return set()
    # entering does nothing that could fail or suspend
    if any(n.kind in ("await", "yield", "pull", "enter") and not n.tag for n in cfg_of(aenter).nodes):
        return set()
    v = ctx.inlined(aexit)
    cfg = cfg_of(v)
    me = aexit.param_names()[0]
    closed = set()
    loops = []
    for n in cfg.nodes:
        if n.kind == "siter" and not n.tag:
            f = norm(n.info.get("iter"))
            if f.startswith(me + ".") and f[len(me) + 1:] in fields:
                pn = fields[f[len(me) + 1:]]
                if _loop_closes_all(ctx, v, cfg, n, f"{init.short}:{pn}", elements_are_iterators=True):
                    closed.add(pn)
                    loops.append(n)
    # nothing else happens at exit but closing library generators the object made itself
    for m in cfg.nodes:
        if m.kind in ("await", "yield", "pull") and not m.tag and not any(m.in_region("loop", l.ast) for l in loops):
            recv = _aclose_receiver(ctx, v, m.info.get("value"), m) if m.kind == "await" and _names_aclose(ctx, v, m.info.get("value"), m) else None
            vals = ctx.vals.expr(v, recv, m) if recv is not None else frozenset()
            if not vals or not all(a[0] in ("libgen", "iter") and (a[0] == "libgen" or (isinstance(a[1], tuple) and a[1][:1] == ("libgen",))) for a in vals):
                return set()
    memo[info.fq] = closed
    return closed


def _unstarted_path(ctx, unit: Unit, cfg: CFG, exit_node: Node):
    """a path from entering ``async with Scope(gen(..)) as name`` to ``exit_node`` (the exit of that scope) on which ``name``
    is never pulled - the generator is then closed without ever having been started; None if there is none"""
    cm = exit_node.info.get("cm")
    enters = [x for x in cfg.nodes if x.kind == "enter" and x.info.get("cm") is cm]
    for en in enters:
        item = en.ast
        bound = getattr(item, "optional_vars", None)
        name = bound.id if isinstance(bound, ast.Name) else None

        def pulls(x: Node) -> bool:
            if name is None:
                return False
            if x.kind in ("pull", "snext"):
                it = x.info.get("iter")
                return isinstance(it, ast.Name) and it.id == name
            if x.kind == "await":
                return asks(x.info.get("value"))
            return False

        def asks(c) -> bool:
            return isinstance(c, ast.Call) and norm(c.func).split(".")[-1] in ("anext", "__anext__") and any(
                isinstance(a, ast.Name) and a.id == name for a in list(c.args) + [getattr(c.func, "value", None)])

        def edge_ok(a: Node, lab: str, b: Node) -> bool:
            # entering the scope, asking a generator for its iterator (itself) and creating the awaitable of its next item
            # (``anext(gen)``, not yet awaited) do not fail
            if lab in ("e", "p") and (a is en or (a.kind == "aiter" and isinstance(a.info.get("iter"), ast.Name)
                                                  and a.info["iter"].id == name)
                                      or (a.kind == "call" and asks(a.ast))):
                return False
            # (exceptional edges only from what can raise in the fault model: user code, suspension points)
            if lab == "e" and a.kind != "dispatch" and not is_risky(ctx, unit, a, None):
                return False
            return True
        path = find_path(en, lambda x: x is exit_node, avoid=pulls, edge_ok=edge_ok)
        if path is not None:
            return path
    return None


def close_nodes(ctx, unit: Unit, cfg: CFG, src: str, findings: List[Tuple[Node, str]]) -> Set[Node]:
    out: Set[Node] = set()
    for n in cfg.nodes:
        if n.kind == "exit_cm":
            cm = n.info.get("cm")
            v = ctx.vals.expr(unit, cm, n)
            if any(a[0] == "scoped" for a in v) and isinstance(cm, ast.Call) and len(cm.args) == 1 and isinstance(cm.args[0], ast.Name):
                # ``args = zip(*iterable)`` ... ``async with ScopedIter(args)``: what the local held when the scope was entered
                from .common import inline_locals
                enters = [x for x in cfg.nodes if x.kind == "enter" and x.info.get("cm") is cm]
                if enters:
                    cm = inline_locals(ctx, unit, cfg, enters[0], cm)
            if any(a[0] == "scoped" for a in v) and _expr_mentions(ctx, unit, cm, n, src):
                # the scope closes what it was given; if that is a library generator that was handed the iterators, closing
                # it releases them only if that generator releases what it is handed (``zip`` does, its inner generators do not)
                inner = cm.args[0] if isinstance(cm, ast.Call) and len(cm.args) == 1 else None
                handed = _handed_to_generator(ctx, unit, inner, n, src)
                unstarted = _unstarted_path(ctx, unit, cfg, n) if handed is not None else None
                if unstarted is not None:
                    # closing an asynchronous generator that was never advanced does not run its body: its own clean-up
                    # (the scope around what it was handed) never happens
                    g, pn = handed[0]
                    findings.append((n, f"the scope closes the library generator `{g.short}` that may never have been advanced "
                                        f"({pretty_path(unstarted)}): closing an unstarted generator does not run its clean-up, "
                                        f"what it was handed through `{pn}` stays open"))
                elif handed is None or all(_releases_param(ctx, g, pn) for g, pn in handed):
                    out.add(n)
                else:
                    g, pn = next((g, pn) for g, pn in handed if not _releases_param(ctx, g, pn))
                    findings.append((n, f"the scope closes the library generator `{g.short}`, which does not close what it is handed "
                                        f"through `{pn}`: the iterators of the argument stay open"))
            elif v and all(a[0] == "libinst" and ctx.pkg.lib_class(a[1]) is not None for a in v) and len({a[1] for a in v}) == 1:
                info = ctx.pkg.lib_class(next(iter(v))[1])
                call, at = cm, n
                if isinstance(cm, ast.Name):
                    # ``obj = Closing(iterables, ...)`` ... ``async with obj:`` (the arguments mean what they meant there)
                    from asl.flow import reaching
                    defs = [d for d in reaching(cfg).defs_at(n, cm.id) if d.kind == "store"]
                    call, at = (defs[0].info.get("value"), defs[0]) if len(defs) == 1 else (None, n)
                released = closing_context_class(ctx, info) if isinstance(call, ast.Call) and not call.keywords else set()
                pnames = info.methods["__init__"].param_names()[1:] if released else []
                for i_, arg in enumerate(call.args if released else []):
                    if isinstance(arg, ast.Starred) or i_ >= len(pnames) or pnames[i_] not in released:
                        continue
                    av = ctx.vals.element_of(ctx.vals.expr(unit, arg, at))
                    if any(a[0] in ("iter", "user", "item") and mentions(frozenset([a]), src) for a in av) \
                            or mentions(ctx.vals.expr(unit, arg, at), src):
                        proxy = Node(-1, "siter", None, at.regions, at.tag, at.stmt)
                        proxy.info["iter"] = arg
                        why = _container_complete(ctx, unit, cfg, proxy, src)
                        if why is None:
                            out.add(n)
                        else:
                            findings.append((n, why))
        elif n.kind == "siter":
            if _loop_closes_all(ctx, unit, cfg, n, src):
                why = _container_complete(ctx, unit, cfg, n, src)
                if why is None:
                    out.add(n)
                else:
                    findings.append((n, why))
        elif n.kind == "await":
            if _is_aclose_await(ctx, unit, n, src):
                # direct close of a single iterator (not inside a per-element loop)
                if not n.in_loop():
                    out.add(n)
            elif _is_close_helper_await(ctx, unit, n, src) and not n.in_loop():
                out.add(n)
            elif _is_transfer_await(ctx, unit, n, src):
                out.add(n)
            elif _closes_owner_generator(ctx, unit, n, src) and not n.in_loop():
                out.add(n)
            elif _is_cleanup_helper_await(ctx, unit, cfg, n, src, findings):
                out.add(n)
    return out


def _is_cleanup_helper_await(ctx, unit: Unit, cfg: CFG, n: Node, src: str, findings) -> bool:
    """``await _close_all(container)``: the K2 loop extracted into a private helper."""
    call = n.info.get("value")
    if not isinstance(call, ast.Call) or len(call.args) != 1:
        return False
    fv = ctx.vals.expr(unit, call.func, n)
    for f in fv:
        if f[0] != "libfn":
            continue
        target = ctx.pkg.lib_unit(f[1])
        if target is None or target.kind != "coroutine" or not target.param_names():
            continue
        if not closes_all_param(ctx, target, target.param_names()[0]):
            continue
        av = ctx.vals.element_of(ctx.vals.expr(unit, call.args[0], n))
        if not any(a[0] in ("iter", "user") and mentions(frozenset([a]), src) for a in av):
            continue
        fake = type("S", (), {})()
        # completeness of the container handed to the helper (same rule as for an inline loop)
        proxy = Node(-1, "siter", None, n.regions, n.tag, n.stmt)
        proxy.info["iter"] = call.args[0]
        why = _container_complete(ctx, unit, cfg, proxy, src)
        if why is None:
            return True
        findings.append((n, why))
    return False


def _expr_mentions(ctx, unit: Unit, e: Optional[ast.AST], n: Node, src: str) -> bool:
    if e is None:
        return False
    for sub in ast.walk(e):
        if isinstance(sub, ast.Name):
            v = ctx.vals.expr(unit, sub, n)
            if mentions(v, src):
                return True
    return False


def _is_transfer_await(ctx, unit: Unit, n: Node, src: str) -> bool:
    call = n.info.get("value")
    if not isinstance(call, ast.Call):
        return False
    fv = ctx.vals.expr(unit, call.func, n)
    for f in fv:
        target = None
        if f[0] == "libfn":
            target = ctx.pkg.lib_unit(f[1])
            skip = 0
        elif f[0] == "bound":
            target = ctx.vals.find_method(f[1], f[2])
            skip = 1
        if target is None or target.kind != "coroutine":
            continue
        params = target.params()[skip:] if f[0] == "bound" else target.params()
        def handed_over(a) -> bool:
            # the callee closes what it is given: the iterator itself - not a generator expression / comprehension over it
            # (closing such a wrapper leaves what it iterates open, which is what ``borrow`` relies on)
            if isinstance(a, (ast.GeneratorExp, ast.ListComp, ast.SetComp, ast.DictComp)):
                return False
            return _expr_mentions(ctx, unit, a, n, src)

        for i, a in enumerate(call.args):
            if isinstance(a, ast.Starred):
                continue
            if i < len(params) and "ITERABLE" in roles_of_annotation(params[i].annotation) and handed_over(a):
                return True
        for kw in call.keywords:
            for p in params:
                if p.arg == kw.arg and "ITERABLE" in roles_of_annotation(p.annotation) and handed_over(kw.value):
                    return True
    return False


# --------------------------------------------------------------------------- risky nodes
def _inert_lib(ctx, qual: str) -> bool:
    """A library generator/coroutine that cannot run user code or raise when closed."""
    for cand in (qual, qual.rsplit(".", 1)[0]):
        target = ctx.pkg.lib_unit(cand)
        if target is not None:
            cfg = cfg_of(target)
            return not any(n.kind in ("await", "pull", "enter", "exit_cm", "dispatch", "snext")
                           or (n.kind == "call") for n in cfg.nodes)
    return False


class _DefaultsOps:
    """Just enough evaluation to tell which branches of a helper depend on parameters the call
    leaves at their defaults: module globals are themselves, identity tests on them are decided."""

    def name(self, ident, env):
        return ("GLOBAL", ident)

    def compare(self, op, left, right, env):
        from asl.absint import UNKNOWN
        if op in ("Is", "IsNot"):
            known = lambda v: v is None or (isinstance(v, tuple) and v[:1] == ("GLOBAL",))  # noqa: E731
            if known(left) and known(right):
                return (left == right) if op == "Is" else (left != right)
        return UNKNOWN


def _lib_raises(ctx, qual: str, call: ast.Call) -> bool:
    """A synchronous library function from which an explicit ``raise`` can escape *for this call*:
    the helper is evaluated with the supplied arguments unknown and the omitted ones at their defaults
    (``iter(x)`` never reaches the validation of the two-argument form)."""
    from asl.absint import UNKNOWN, AbsEval, Machine
    target = ctx.pkg.lib_unit(qual)
    if target is None or target.kind != "sync" or target.is_overload():
        return False
    cfg = cfg_of(target)
    if not any(r.kind == "raise" and isinstance(r.ast, ast.Raise) and r.ast.exc is not None for r in cfg.nodes):
        return False
    a = target.node.args
    names = [p.arg for p in list(a.posonlyargs) + list(a.args)]
    supplied = set(names[:len([x for x in call.args if not isinstance(x, ast.Starred)])]) | {k.arg for k in call.keywords if k.arg}
    if any(isinstance(x, ast.Starred) for x in call.args) or any(k.arg is None for k in call.keywords):
        supplied = set(names) | {p.arg for p in a.kwonlyargs}
    memo = ctx.__dict__.setdefault("_lib_raises", {})
    key = (qual, tuple(sorted(supplied)))
    if key in memo:
        return memo[key]
    memo[key] = True
    ops = _DefaultsOps()
    ev = AbsEval(ops)
    defaults = dict(zip(names[len(names) - len(a.defaults):], a.defaults))
    defaults.update({p.arg: d for p, d in zip(a.kwonlyargs, a.kw_defaults) if d is not None})
    env = {}
    for nme in names + [p.arg for p in a.kwonlyargs]:
        env[nme] = UNKNOWN if nme in supplied or nme not in defaults else ev.eval(defaults[nme], {})
    try:
        outs = Machine(cfg, ops, max_steps=400, max_outcomes=400).run(env)
    except AnalysisError:
        return True
    memo[key] = any(oc.terminal.kind == "raise_exit" and any(x.kind == "raise" and isinstance(x.ast, ast.Raise) for x in oc.path)
                    for oc in outs)
    return memo[key]


def is_risky(ctx, unit: Unit, n: Node, kinds: Optional[Tuple[str, ...]] = None) -> bool:
    k = n.kind
    if kinds is not None and k not in kinds:
        return False
    if k == "await":
        v = ctx.vals.expr(unit, n.info.get("value"), n)
        if v and all(a[0] == "libcoro" and _inert_lib(ctx, a[1]) for a in v):
            return False
        return True
    if k in ("yield", "pull"):
        return True
    if k == "enter":
        v = ctx.vals.expr(unit, n.info.get("cm"), n)
        return any(a[0] in USERISH or a[0] == "self" for a in v)
    if k == "exit_cm":
        v = ctx.vals.expr(unit, n.info.get("cm"), n)
        if v and all(a[0] == "libinst" and a[1].endswith((".NoLock", ".NullContext")) for a in v):
            return False
        return True
    if k == "call":
        if _names_aclose(ctx, unit, n.ast.func, n):  # type: ignore[union-attr]
            return False  # creating the close awaitable is part of the cleanup itself
        v = ctx.vals.expr(unit, n.ast.func, n)  # type: ignore[union-attr]
        if any(a[0] in USERISH for a in v):
            return True
        # a synchronous library helper that validates its argument (an explicit raise that can leave it)
        return any(a[0] == "libfn" and _lib_raises(ctx, a[1], n.ast) for a in v)
    if k == "op":
        for operand in n.info.get("operands", []):
            v = ctx.vals.expr(unit, operand, n)
            if any(a[0] in USERISH and not ctx.vals.is_plain(a) for a in v):
                return True
        return False
    if k in ("snext", "siter"):
        v = ctx.vals.expr(unit, n.info.get("iter"), n)
        return any(a[0] in USERISH for a in v)
    if k == "raise":
        return n.info.get("note") != "assert"
    if k == "store":
        targets = n.info.get("targets", [])
        if any(isinstance(t, (ast.Tuple, ast.List)) for t in targets):
            src_node = n.info.get("source")
            if src_node is not None:
                v = ctx.vals.element_of(ctx.vals.expr(unit, src_node.info["iter"], src_node),
                                        is_async=src_node.kind == "pull")
                return any(a[0] in USERISH for a in v)
        return False
    return False


PLAIN_TYPES = {"bool", "int", "str", "float", "Optional[int]", "Optional[bool]"}


def _plain_param(ctx, atom) -> bool:
    """A ('user', 'unit:param') atom of a parameter annotated with a plain builtin type:
    operators on it cannot run user code."""
    if atom[0] != "user" or ":" not in atom[1]:
        return False
    ushort, _, pname = atom[1].partition(":")
    if not ctx.pkg.has_unit(ushort):
        return False
    u = ctx.pkg.unit(ushort)
    for p in u.params():
        if p.arg == pname and p.annotation is not None:
            return norm(p.annotation) in PLAIN_TYPES
    return False


def _pre_acquisition(ctx, unit: Unit, cfg: CFG, n: Node, pname: str, risk_all) -> str:
    """Parameter validation that precedes acquisition is outside the fault model "a source,
    a callable or the consumer raises" (shape rule, see PRE_ACQUISITION for the instances):
      * an explicit ``raise`` that no user-code-running node can precede on any path,
      * a truth test of the iterable parameter itself (falsy = empty and synchronous)."""
    if n.kind == "raise":
        before = reachable_back_normal(n)
        if not any(m in risk_all and m is not n for m in before):
            return "argument validation before the source is touched"
    if n.kind == "op" and n.info.get("op") == "truth" and isinstance(n.ast, ast.Name) and n.ast.id == pname:
        return "truth test of the argument: a falsy iterable is empty and synchronous, nothing is owed"
    return ""


def reachable_back_normal(n: Node) -> Set[Node]:
    seen: Set[Node] = set()
    work = [n]
    while work:
        x = work.pop()
        if x in seen:
            continue
        seen.add(x)
        for lab, p in x.pred:
            if lab not in ("e", "p"):
                work.append(p)
    return seen


# --------------------------------------------------------------------------- the rule
def check_param(ctx, rule: str, unit: Unit, pname: str, src: str,
                kinds: Optional[Tuple[str, ...]] = None) -> None:
    unit = ctx.inlined(unit)  # cleanup moved into a private helper is still this function's cleanup
    cfg = cfg_of(unit)
    side: List[Tuple[Node, str]] = []
    closes = close_nodes(ctx, unit, cfg, src, side)
    for n, why in side:
        ctx.fail("R04.2" if rule.startswith("R04") else rule, unit, n, why, node=n)

    no_aclose = {n: no_aclose_edge(ctx, unit, n) for n in cfg.nodes if n.kind == "branch"}

    def falsy_param_edge(a: Node, lab: str, b: Node) -> bool:
        # leaving through "p is falsy" means there is nothing to close
        if a.kind == "branch" and isinstance(a.ast, ast.Name) and a.ast.id == pname and lab == "f":
            return False
        # "the iterator has no aclose" (hasattr / getattr-default identity): nothing to close
        if a.kind == "branch" and no_aclose.get(a) and lab == no_aclose[a] and not a.in_loop():
            return False
        return True

    risk_all = {n for n in cfg.nodes if is_risky(ctx, unit, n, None)}

    def pending_edge(a: Node, lab: str, b: Node) -> bool:
        # exceptional edges are followed only from nodes that can raise in the fault model
        if lab == "e" and a not in risk_all:
            return False
        return falsy_param_edge(a, lab, b)

    pending = reachable([cfg.entry], stop=lambda n: n in closes, edge_ok=pending_edge) - closes
    risky = [n for n in cfg.nodes if n in pending and n in risk_all and is_risky(ctx, unit, n, kinds)]
    bad = 0
    for n in risky:
        why_exempt = _pre_acquisition(ctx, unit, cfg, n, pname, risk_all)
        if why_exempt:
            ctx.ok(rule, unit, f"pre-acquisition `{_construct(n)[:60]}`: {why_exempt}", param=pname)
            continue
        start = n.exc_succ()
        if start is None:
            continue

        def exc_edge(a: Node, lab: str, b: Node) -> bool:
            if lab == "e" and a not in risk_all and a.kind != "dispatch":
                return False
            if not falsy_param_edge(a, lab, b):
                return False
            if b.kind in ("dispatch", "raise_exit", "reraise"):
                return True
            if b.tag == "exc":
                return True
            if any(k == "handler" for (k, _x) in b.regions):
                return True
            return False

        if start is cfg.raise_exit:
            path: Optional[List[Node]] = [n, start]
        elif start in closes:
            path = None
        else:
            path = find_path(start, lambda x: x is cfg.raise_exit, avoid=lambda x: x in closes,
                             edge_ok=exc_edge)
            if path is not None:
                path = [n] + path
        if path is not None:
            bad += 1
            ctx.fail(rule, unit, _construct(n),
                     f"{_why(n)} while the iterator of `{pname}` is owed a close, and the exception "
                     f"leaves the function without closing it", node=n,
                     witness=f"param={pname}; exceptional path: {pretty_path(path)}")

    # normal exits
    def normal_edge(a: Node, lab: str, b: Node) -> bool:
        if lab in ("e", "p"):
            return False
        if not falsy_param_edge(a, lab, b):
            return False
        if a.kind == "pull" and lab == "stop":
            v = ctx.vals.expr(unit, a.info.get("iter"), a)
            if mentions(v, src):
                return False  # exhausted
        if b.kind == "handler" and "StopAsyncIteration" in norm(b.info.get("type")):
            return False
        return True

    leak = find_path(cfg.entry, lambda x: x is cfg.exit, avoid=lambda x: x in closes, edge_ok=normal_edge)
    if leak is not None:
        # only a problem if something was actually acquired / could have been advanced
        bad += 1
        last = [x for x in leak if x.kind in ("return", "yield", "await", "pull")]
        anchor = last[-1] if last else leak[-1]
        ctx.fail(rule, unit, _construct(anchor) if anchor.ast is not None else f"fallthrough of {unit.qualname}",
                 f"a normal exit is reachable without closing or exhausting the iterator of `{pname}`",
                 node=anchor, witness=f"param={pname}; path: {pretty_path(leak)}")
    if not bad:
        ctx.ok(rule, unit, f"iterator of `{pname}` is released on every exit",
               param=pname, risky_nodes=len(risky), close_nodes=sorted({f"L{c.line}:{c.text()}" for c in closes})[:6])


def _construct(n: Node) -> str:
    node = n.ast if n.ast is not None else n.stmt
    if n.kind in ("pull", "aiter"):
        return "async for ... in " + norm(n.info.get("iter"))
    if n.kind in ("enter", "exit_cm"):
        return ("enter " if n.kind == "enter" else "exit ") + norm(n.info.get("cm"))
    if n.kind == "store":
        return "unpack into " + ", ".join(norm(t) for t in n.info.get("targets", []))
    return " ".join(norm(node).split("\n", 1)[0].split())


def _why(n: Node) -> str:
    return {
        "await": "an await can raise or be cancelled",
        "yield": "the consumer can close or throw into the generator at this yield",
        "pull": "pulling the source can raise or be cancelled",
        "enter": "entering a user context manager can raise or be cancelled",
        "exit_cm": "a context-manager exit can raise or be cancelled",
        "call": "a call can raise (a user callable, or a library helper that rejects its argument)",
        "op": "an operator runs user code",
        "snext": "iterating a user object can raise",
        "siter": "iterating a user object can raise",
        "raise": "the library raises",
        "store": "unpacking a user value can raise",
    }.get(n.kind, n.kind)
