"""C02 — aggregations return the standard-library result and never alter their inputs
(necessary clauses).

R02.1 selection guard table (first minimum / first maximum): the guard of every re-binding
      of the incumbent in ``_min_max`` is abstractly evaluated over the order outcome of
      (new item vs incumbent) in {LT, EQ, GT} x invert in {False, True}; specification:
      min replaces iff LT, max replaces iff GT — never on EQ.  The keyless and the keyed
      loop must both satisfy it, and the keyed loop must keep incumbent and key in step.
R02.2 a default is returned untouched: the ``default`` of min/max never reaches an argument
      of a user callable or an operand of an operator.
R02.3 no argument mutation: no augmented assignment, mutating method call, subscript or
      attribute store may act on an object that can be a caller-supplied argument.
R02.4 nlargest / nsmallest tie orientation, by order algebra on ``_largest``: heap entries
      are (key wrapper, position term, item); every library class used as key wrapper defines
      ``__lt__`` and a consistent ``__eq__`` (otherwise equal keys never compare equal and the
      position is never consulted); the position term is linear in the arrival index with the
      sign the final sort direction requires, identically in both entry constructors; the
      replacement test is strict.
R02.5 sorted is stable in both directions: ``reverse`` reaches the sort only as the
      ``reverse=`` argument of list.sort / sorted; the decorated sort projects the key.
R02.6 empty-input protocol: reduce / min / max raise the stdlib's class for empty input
      without initial / default; reduce folds ``function(accumulator, item)`` in that order.
"""
from __future__ import annotations

import ast
from typing import Any, Dict, List, Optional, Tuple

from asl.absint import UNKNOWN, AbsEval, Machine
from asl.cfg import Node, cfg_of
from asl.flow import find_path, reaching
from asl.loader import AnalysisError, Unit, norm, own_nodes
from asl.values import USERISH, atoms_deep
from .common import make_resolver, name_value, raised_class, real_units, uncast

LEVEL = {
    "decided": "C02 (necessary clauses): (R02.1) min/max replace the incumbent only on a strict comparison in the "
               "requested direction — abstract guard table over {LT,EQ,GT} x {min,max}, keyless and keyed loops; "
               "(R02.2) the default never reaches key or a comparison; (R02.3) no in-place operation on caller-supplied "
               "objects (start, initial, default, input); (R02.4) nlargest/nsmallest break ties by arrival order: key "
               "wrappers define a consistent __eq__, position sign matches the final sort direction, strict replacement; "
               "(R02.5) sorted passes reverse= to a stable sort and projects the key; (R02.6) empty-input exception "
               "classes and fold argument order.",
    "not_decided": "numeric results, the complete sorted order, and the exception class for unorderable / unhashable "
                   "data (run-time values).",
    "technique": "static analysis: finite-domain abstract evaluation (comparison guards; whole aggregations as tables against the executed stdlib), taint and alias dataflow, order algebra",
}
LEVEL["decided"] += " (R02.8) reduce, sum, all, any, min, max, sorted, nlargest, nsmallest, list, tuple, set as finite tables by abstract evaluation (874 cells: every truth pattern, every ranking with ties of up to 3 items, with / without key, default, initial, start) against the stdlib function executed on the same symbols; (R02.9) no handler of an aggregation can intercept an exception raised by user code (C06's census, shared)."
LEVEL["decided"] += " (R02.6) every raise of the empty-input error has the builtin's class; (R02.10) no __aexit__ of the library returns a truthy value it did not derive from the exception."
LEVEL["decided"] += ' (R02.11) nlargest / nsmallest take their first n items through a borrowed view that cannot close the source (R07.4, shared).'
LEVEL["decided"] += " (R02.12) the user's key is never handed to list.sort / sorted / min / max of the standard library (R03.14, shared)."
LEVEL["decided"] += " (R02.13) a key / reduction function is used whatever its truth value (R03.12, shared); R02.3 (no in-place operation on the caller's objects), R02.5 and R02.6 read the inlined views, so a private collecting / folding step is seen through."
LEVEL["decided"] += ' (R02.15) the awaited result of an awaitable-returning key / function is what is compared or folded (adapter table R03.3, shared).'
LEVEL["decided"] += ' (R02.14) the iterable is never asked for len() nor type-tested against synchronous containers (R03.2, shared); R02.4 reads the statements of _largest where they have the shape it knows and otherwise notes that the tables of nlargest / nsmallest decide.'

AGGREGATIONS = ["builtins.all", "builtins.any", "builtins.sum", "builtins.min", "builtins.max", "builtins._min_max",
                "builtins.list", "builtins.tuple", "builtins.set", "builtins.dict", "builtins.sorted",
                "functools.reduce", "heapq.nlargest", "heapq.nsmallest", "heapq._largest"]
MUTATORS = {"append", "extend", "insert", "sort", "reverse", "update", "clear", "pop", "popitem", "remove", "add",
            "discard", "setdefault", "appendleft", "extendleft", "__setitem__", "__delitem__", "__iadd__"}


def run(ctx) -> None:
    for rid, text in (("R02.1", "min/max guard table over {LT,EQ,GT} x invert"), ("R02.2", "default never reaches key / operators"),
                      ("R02.3", "no in-place operation on caller-supplied objects"), ("R02.4", "nlargest/nsmallest tie orientation"),
                      ("R02.5", "sorted: reverse= of a stable sort, key projection"), ("R02.6", "empty-input protocol and fold order")):
        ctx.rule(rid, text)
    ctx.assume("list.sort / sorted are stable and keep equal elements in input order also with reverse=True")
    ctx.assume("heapq maintains a min-heap using only < on entries; tuple comparison uses == to find the first "
               "differing component, then <")
    # the tables first: where a shape rule below does not find the statements it reads (a differently written
    # implementation), the property's clause is still decided by the table of that function - the shape rule then
    # only notes that it does not apply, provided the table decided all its cells
    from . import tooltables
    tooltables.aggregate_tables(ctx, "R02.8")
    r02_1(ctx)
    r02_2(ctx)
    r02_3(ctx)
    # R02.4 states the window's structure (entry layout, position counters, wrapper class) for windows of any
    # size; it applies when _largest has the shape it describes.  What nlargest / nsmallest *return* is decided by
    # the table R02.8 whatever the shape; a differently shaped implementation is noted, not failed.
    try:
        r02_4(ctx)
    except AnalysisError as exc:
        ctx.note(f"R02.4 not applicable to this shape of _largest ({exc}); results are decided by R02.8 on its cube")
    r02_5(ctx)
    r02_6(ctx)
    r02_7(ctx)
    # "raises what the builtin raises": no handler of an aggregation can turn an error raised by the
    # key function, a comparison or the source into a result (C06's handler census, shared)
    from . import c06
    from .common import Relabel, real_units
    ctx.rule("R02.9", "no except handler can intercept an exception raised by user code (handler census of C06, shared)")
    sub_ctx = Relabel(ctx, "R02.9", only=("R06.1",))
    for u in real_units(ctx):
        if u.module.short in ("builtins", "heapq", "functools"):
            c06._census(sub_ctx, u)
    ctx.rule("R02.10", "the scope around the source never suppresses: an exception raised while aggregating reaches the caller (R06.3, shared)")
    c06._aexit_falsy(Relabel(ctx, "R02.10"))
    from . import c07
    ctx.rule("R02.11", "nlargest / nsmallest take their first n items through a borrowed view that can never close the source: what "
                       "the internal borrow hands out is a new generator that only iterates (R07.4, shared)")
    c07.r07_4(Relabel(ctx, "R02.11"))
    from . import c03
    ctx.rule("R02.12", "sorted / min / max never hand the user's key to list.sort / sorted / min / max of the standard library, which "
                       "would use a coroutine as the key (R03.14, shared)")
    c03.r03_14(Relabel(ctx, "R02.12"), "R02.12")  # (sorted / min / max with a key that is asynchronous in any flavour)
    ctx.rule("R02.14", "what an aggregation returns does not depend on whether its argument has a length or is a list: the iterable "
                       "is never asked for len() nor type-tested against synchronous containers (R03.2, shared)")
    c03.r03_2(Relabel(ctx, "R02.14"), modules=("builtins", "heapq", "functools"))
    ctx.rule("R02.15", "an asynchronous key / reduction function is one whose call returns an awaitable (a coroutine, a future, an "
                       "object with __await__): its awaited result is what is compared / folded - the adapter table of awaitify "
                       "(R03.3, shared)")
    c03.r03_3_awaitify(Relabel(ctx, "R02.15"))
    ctx.rule("R02.13", "a key / reduction function is used whatever its truth value (a callable object may be falsy): whether one was "
                       "given is decided by `is None` (R03.12, shared)")
    c03.r03_12(Relabel(ctx, "R02.13"), modules=("builtins", "heapq", "functools", "_core"))
    ctx.floor("agg_cells_decided", 700)
    ctx.floor("guard_cells", 6)  # (one comparison loop x {LT, EQ, GT} x {min, max}; the library has two loops today)
    ctx.floor("aggregations", 15)
    ctx.floor("decided:heapq.nlargest", 100)
    ctx.floor("decided:heapq.nsmallest", 100)


# --------------------------------------------------------------------------- R02.1
class _WrapperOps:
    """``__lt__`` / ``__eq__`` of a key wrapper: the wrapped keys compare as the scenario says (other relative to self)"""

    def __init__(self, outcome: str):
        self.inner = _GuardOps(outcome)

    def attr(self, value, name, node, env):
        if value in ("OLD@", "NEW@"):
            return ("key", value[:-1])  # whatever the field is called: the wrapped key
        return UNKNOWN

    def compare(self, op, left, right, env):
        return self.inner.compare(op, left, right, env)

    def binop(self, op, left, right, env):
        return self.inner.binop(op, left, right, env)


class _GuardOps:
    """new-vs-incumbent comparisons are answered from the scenario's order outcome."""

    def __init__(self, outcome: str):
        self.outcome = outcome  # 'LT' | 'EQ' | 'GT'  (new item relative to incumbent)

    @staticmethod
    def _side(v):
        if v in ("NEW", ("key", "NEW")):
            return "new"
        if v in ("OLD", ("key", "OLD")):
            return "old"
        return None

    def compare(self, op, left, right, env):
        ls, rs = self._side(left), self._side(right)
        if {ls, rs} != {"new", "old"}:
            return UNKNOWN
        rel = self.outcome if ls == "new" else {"LT": "GT", "GT": "LT", "EQ": "EQ"}[self.outcome]
        table = {"Lt": rel == "LT", "Gt": rel == "GT", "LtE": rel in ("LT", "EQ"), "GtE": rel in ("GT", "EQ"),
                 "Eq": rel == "EQ", "NotEq": rel != "EQ"}
        return table.get(op, UNKNOWN)

    def binop(self, op, left, right, env):
        if op == "BitXor" and isinstance(left, bool) and isinstance(right, bool):
            return left ^ right
        if op == "BitAnd" and isinstance(left, bool) and isinstance(right, bool):
            return left & right
        if op == "BitOr" and isinstance(left, bool) and isinstance(right, bool):
            return left | right
        return UNKNOWN

    def call(self, func, args, kwargs, node, env):
        fv = env.get(func) if func.isidentifier() else None
        if fv == "KEY" and len(args) == 1:
            return ("key", args[0]) if args[0] in ("NEW", "OLD") else UNKNOWN
        return UNKNOWN

    def next(self, node, env):
        return "NEW"


class _ReplaceOps(_GuardOps):
    """_largest: keys of new items are NEW, the heap root's key is OLD; any call applied to
    the new item / its key (key function, order wrapper) yields the new item's key."""

    def call(self, func, args, kwargs, node, env):
        if any(a in ("NEW", ("key", "NEW")) for a in args):
            return ("key", "NEW")
        return UNKNOWN

    def visit(self, node, env, ev):
        if node.kind == "call" and norm(node.ast.func).endswith("heapreplace"):
            env["@replaced"] = True


def _consistent_path(cfg, target, edge_ok) -> bool:
    """Is ``target`` reachable from the entry along a path that never decides the same test (same text, its names not
    re-bound in between) in two different ways?  (``if key is None and invert: .. elif key is None: ..``: the second
    loop is not reached with invert set.)"""
    from asl.flow import node_defs
    seen = set()
    work = [(cfg.entry, frozenset())]
    while work:
        n, decided = work.pop()
        if n is target:
            return True
        if (n, decided) in seen or len(seen) > 20000:
            continue
        seen.add((n, decided))
        defs = set(node_defs(n))
        if defs:
            decided = frozenset((t, l, names) for (t, l, names) in decided if not (set(names) & defs))
        for lab, nxt in n.succ:
            if not edge_ok(n, lab, nxt):
                continue
            d = decided
            if n.kind == "branch" and lab in ("t", "f") and n.ast is not None and not n.info.get("const"):
                text = norm(n.ast)
                if any(t == text and l != lab for (t, l, _names) in decided):
                    continue
                names = tuple(sorted({x.id for x in ast.walk(n.ast) if isinstance(x, ast.Name)}))
                if not any(isinstance(x, (ast.Call, ast.Await)) for x in ast.walk(n.ast)):
                    d = decided | {(text, lab, names)}
            work.append((nxt, d))
    return False


def r02_1(ctx) -> None:
    u = ctx.inlined(ctx.unit("builtins._min_max"))  # the selection may be split into private steps
    cfg = cfg_of(u)
    rets = [n for n in cfg.nodes if n.kind == "return" and not n.tag and isinstance(n.info.get("value"), ast.Name)]
    names = {n.info["value"].id for n in rets}
    invert = _flag_param(ctx, u)
    loops = [n for n in cfg.nodes if n.kind == "pull" and not n.tag and isinstance(n.ast, ast.AsyncFor)]
    folds = []
    for loop in loops:
        body_stores = [s for s in cfg.nodes if s.kind == "store" and s.in_region("loop", loop.ast) and not s.tag
                       and any(isinstance(t, ast.Name) and t.id in names for t in s.info.get("targets", []))]
        if body_stores:
            folds.append((loop, body_stores))
    ctx.check(len(folds) >= 1, "R02.1", u, "_min_max", "a selection loop re-binding the returned incumbent was found")
    if not folds or invert is None:
        return
    table = {}
    for loop, stores in folds:
        best = [t.id for s in stores for t in s.info["targets"] if isinstance(t, ast.Name) and t.id in names][0]
        item = loop.ast.target.id if isinstance(loop.ast.target, ast.Name) else None
        if item is None:
            raise AnalysisError("_min_max loop target is not a plain name")
        # names holding keys of the incumbent before the loop / callable names
        keyed = {}
        callables = {}
        for s in cfg.nodes:
            if s.kind == "store" and not s.tag and isinstance(s.info.get("value"), ast.Await) \
                    and isinstance(s.info["value"].value, ast.Call) and not s.in_region("loop", loop.ast):
                c = s.info["value"].value
                if len(c.args) == 1 and isinstance(c.args[0], ast.Name) and c.args[0].id == best and isinstance(c.func, ast.Name):
                    for t in s.info["targets"]:
                        if isinstance(t, ast.Name):
                            keyed[t.id] = ("key", "OLD")
                            callables[c.func.id] = "KEY"
        which = "keyed" if any(k for k in keyed if any(
            isinstance(x, ast.Name) and x.id == k for b in loop.ast.body for x in ast.walk(b))) else "keyless"
        for inv in (False, True):
            # a loop written for one direction only (``if invert: <max loop> else: <min loop>``) is judged for that direction
            def consistent(a, lab, b, inv=inv):
                if a.kind == "branch" and lab in ("t", "f"):
                    t = a.ast
                    if isinstance(t, ast.Name) and t.id == invert:
                        return lab == ("t" if inv else "f")
                    if isinstance(t, ast.UnaryOp) and isinstance(t.op, ast.Not) and isinstance(t.operand, ast.Name) and t.operand.id == invert:
                        return lab == ("f" if inv else "t")
                return lab not in ("e", "p")
            if not _consistent_path(cfg, loop, consistent):
                continue
            for outcome in ("LT", "EQ", "GT"):
                ctx.count("guard_cells")
                env: Dict[str, Any] = {invert: inv, best: "OLD"}
                if which == "keyed":
                    env.update(keyed)
                    env.update(callables)
                start = [s for (lab, s) in loop.succ if lab == "n"]
                ops = _GuardOps(outcome)
                results = Machine(cfg, ops, resolver=make_resolver(ctx, u, ops)).run(
                    env, start=loop, stop=lambda n, loop=loop: n is loop)
                want_replace = (outcome == "GT") if inv else (outcome == "LT")
                mode = "max" if inv else "min"
                cell = f"{which} loop, {mode}, new item {outcome} incumbent"
                if not results:
                    ctx.fail("R02.1", u, loop, f"[{cell}] the loop body could not be evaluated", node=loop)
                for oc in results:
                    got = oc.env.get(best)
                    replaced = got == "NEW"
                    kept = got == "OLD"
                    table[cell] = "replace" if replaced else "keep" if kept else str(got)
                    ok = (replaced if want_replace else kept)
                    guard = _guard_text(loop)
                    ctx.check(ok, "R02.1", u, guard,
                              f"[{cell}] -> {'replace' if want_replace else 'keep'} (the first of equal elements wins)",
                              node=loop, witness=f"evaluated: incumbent becomes {got}")
                    if which == "keyed" and replaced:
                        stale = [k for k in keyed if oc.env.get(k) != ("key", "NEW")]
                        ctx.check(not stale, "R02.1", u, guard, f"[{cell}] the incumbent's key is updated together with it",
                                  node=loop, witness=f"{stale} still holds the old key")
    ctx.tables["min/max guard table"] = table
    idx = u.param_names().index(invert)
    for name, want in (("builtins.max", "True"), ("builtins.min", "False")):
        pu = ctx.unit(name)
        calls = [c for c in own_nodes(pu.node) if isinstance(c, ast.Call) and norm(c.func) == u.node.name]
        got = None
        if calls:
            got = {k.arg: norm(k.value) for k in calls[0].keywords}.get(invert)
            if got is None and len(calls[0].args) > idx:
                got = norm(calls[0].args[idx])
        ctx.check(got == want, "R02.1", pu, calls[0] if calls else name,
                  f"{name.split('.')[-1]} selects {invert}={want} of the shared implementation", witness=f"passes {got}")


def _flag_param(ctx, u: Unit) -> Optional[str]:
    for p in u.params():
        if p.annotation is not None and norm(p.annotation) == "bool":
            return p.arg
    return None


def _guard_text(loop: Node) -> str:
    for b in ast.walk(loop.ast):
        if isinstance(b, ast.If):
            return "if " + norm(b.test)
    return norm(loop.ast).split("\n")[0]


# --------------------------------------------------------------------------- R02.2
def r02_2(ctx) -> None:
    for short in ("builtins._min_max", "builtins.min", "builtins.max"):
        u = ctx.unit(short)
        if "default" not in u.param_names():
            if short == "builtins._min_max":
                # (the shared search does not take the default: the public functions deal with it; the tables of min / max decide
                # what is returned for empty input, R02.2 is read on the functions that do take it)
                ctx.note("R02.2: the shared search of min / max takes no `default`; checked on min and max")
                continue
            raise AnalysisError(f"{short} has no `default` parameter (anchor moved)")
        src = f"{u.short}:default"
        cfg = cfg_of(u)
        bad = []
        for n in cfg.nodes:
            if n.tag:
                continue
            if n.kind == "call":
                fv = ctx.vals.expr(u, n.ast.func, n)  # type: ignore[union-attr]
                if any(a[0] in ("acall", "user", "result", "item") for a in fv):
                    for a in n.ast.args:  # type: ignore[union-attr]
                        v = ctx.vals.expr(u, a.value if isinstance(a, ast.Starred) else a, n)
                        if any(x[0] == "user" and x[1] == src for x in v):
                            bad.append((n, "is passed to a user callable (the key function)"))
            if n.kind == "op" and n.info.get("op") in ("compare", "BitXor", "truth"):
                for operand in n.info.get("operands", []):
                    if isinstance(operand, ast.Compare) or n.info.get("op") != "compare":
                        continue
                    v = ctx.vals.expr(u, operand, n)
                    if any(x[0] == "user" and x[1] == src for x in v):
                        bad.append((n, "takes part in a comparison"))
        for n, why in bad:
            ctx.fail("R02.2", u, n, f"the default value {why}; the builtins return it untouched", node=n)
        if not bad:
            ctx.ok("R02.2", u, "the default only flows to identity tests, the return value or the shared implementation")


# --------------------------------------------------------------------------- R02.3
def r02_3(ctx) -> None:
    for short in AGGREGATIONS:
        u = ctx.inlined(ctx.unit(short))  # (what a private collecting step hands back may be the caller's own object)
        ctx.count("aggregations")
        cfg = cfg_of(u)
        params = {f"{u.short}:{p}" for p in u.param_names()}
        bad = 0

        def caller_object(v) -> bool:
            return any(a[0] == "user" and a[1] in params and not ctx.vals.is_plain(a) for a in v)

        for n in cfg.nodes:
            if n.tag:
                continue
            if n.kind == "op" and n.info.get("op") == "aug":
                stmt = n.ast
                assert isinstance(stmt, ast.AugAssign)
                tgt = stmt.target
                base = tgt if isinstance(tgt, ast.Name) else getattr(tgt, "value", None)
                v = ctx.vals.expr(u, base, n) if base is not None else frozenset()
                if caller_object(v):
                    bad += 1
                    ctx.fail("R02.3", u, stmt, "augmented assignment can operate in place on an object supplied by the "
                             "caller (it aliases a parameter on the first iteration): the argument is mutated", node=n)
            elif n.kind == "call" and isinstance(n.ast.func, ast.Attribute) and n.ast.func.attr in MUTATORS:  # type: ignore[union-attr]
                v = ctx.vals.expr(u, n.ast.func.value, n)  # type: ignore[union-attr]
                if caller_object(v):
                    bad += 1
                    ctx.fail("R02.3", u, n.ast, "mutating method is called on an object supplied by the caller", node=n)
            elif n.kind == "store":
                for t in n.info.get("targets", []):
                    if isinstance(t, (ast.Subscript, ast.Attribute)):
                        v = ctx.vals.expr(u, t.value, n)
                        if caller_object(v):
                            bad += 1
                            ctx.fail("R02.3", u, n.ast, "store into an object supplied by the caller", node=n)
            elif n.kind == "del":
                for t in n.info.get("targets", []):
                    if isinstance(t, (ast.Subscript, ast.Attribute)):
                        v = ctx.vals.expr(u, t.value, n)
                        if caller_object(v):
                            bad += 1
                            ctx.fail("R02.3", u, n.ast, "deletion inside an object supplied by the caller", node=n)
        if not bad:
            ctx.ok("R02.3", u, "no in-place operation can reach a caller-supplied object")


# --------------------------------------------------------------------------- R02.4
class _IntOps:
    def binop(self, op, left, right, env):
        if isinstance(left, int) and isinstance(right, int):
            return {"Mult": left * right, "Add": left + right, "Sub": left - right}.get(op, UNKNOWN)
        return UNKNOWN

    def neg(self, v):
        return -v if isinstance(v, int) else UNKNOWN


def r02_4(ctx) -> None:
    u = ctx.inlined(ctx.unit("heapq._largest"))  # fill / replacement steps may be private helpers
    node = u.node
    ev = AbsEval(_IntOps())
    flag = _flag_param(ctx, u)
    if flag is None:
        raise AnalysisError("_largest has no boolean direction parameter (anchor moved)")
    # heap entry constructors: 3-tuples whose last element is the item
    comps = [n for n in own_nodes(node) if isinstance(n, ast.ListComp) and isinstance(n.elt, ast.Tuple) and len(n.elt.elts) == 3]
    repl = [n for n in own_nodes(node) if isinstance(n, ast.Call) and norm(n.func).endswith("heapreplace")
            and len(n.args) == 2 and isinstance(n.args[1], ast.Tuple) and len(n.args[1].elts) == 3]
    if len(comps) != 1 or len(repl) != 1:
        raise AnalysisError("the heap entries are not built by one comprehension and one heapreplace")
    sorts = [n for n in own_nodes(node) if isinstance(n, ast.Call) and isinstance(n.func, ast.Attribute) and n.func.attr == "sort"]
    ctx.check(len(sorts) == 1, "R02.4", u, "_largest", "the heap is finally sorted once")
    if len(sorts) != 1:
        return
    rev_kw = [k.value for k in sorts[0].keywords if k.arg == "reverse"]
    # assignments before the loop that the position terms depend on
    assigns = {}
    for s in own_nodes(node):
        if isinstance(s, ast.Assign) and len(s.targets) == 1 and isinstance(s.targets[0], ast.Name):
            assigns.setdefault(s.targets[0].id, s.value)
    nparam = [p.arg for p in u.params() if p.annotation is not None and norm(p.annotation) == "int"]
    consts: Dict[str, Any] = {}
    for cname, sym in u.module.symbols.items():
        if sym[0] == "assign":
            try:
                cv = ast.literal_eval(sym[1])
            except Exception:  # noqa: BLE001
                continue
            if isinstance(cv, int) and not isinstance(cv, bool):
                consts[cname] = cv
    for rv in (False, True):
        env: Dict[str, Any] = dict(consts)
        env[flag] = rv
        for name, value in assigns.items():
            v = ev.eval(value, dict(env))
            if isinstance(v, (int, bool)):
                env[name] = v
        descending = ev.truth(ev.eval(rev_kw[0], env), env) if rev_kw else False
        if descending is UNKNOWN:
            ctx.fail("R02.4", u, sorts[0], "final sort direction could not be evaluated")
            continue
        want_slope = -1 if descending else 1
        which = "nsmallest" if rv else "nlargest"
        # initial fill: position term as function of the arrival index
        gen = comps[0].generators[0]
        idx_name = gen.target.elts[0].id if isinstance(gen.target, ast.Tuple) and isinstance(gen.target.elts[0], ast.Name) else None
        pos = comps[0].elt.elts[1]
        v1 = ev.eval(pos, dict(env, **({idx_name: 1} if idx_name else {})))
        v2 = ev.eval(pos, dict(env, **({idx_name: 2} if idx_name else {})))
        slope = (v2 - v1) if isinstance(v1, int) and isinstance(v2, int) else None
        ctx.check(slope == want_slope and v1 == want_slope, "R02.4", u, pos,
                  f"[{which}] initial fill: position term = {want_slope:+d} x arrival index, so that equal keys come out in "
                  f"arrival order from the final {'descending' if descending else 'ascending'} sort and the latest "
                  f"equal item is evicted first", witness=f"position(1)={v1}, position(2)={v2}")
        # replacement: position variable starts at n*slope and steps by slope
        rpos = repl[0].args[1].elts[1]
        if isinstance(rpos, ast.Name):
            init = assigns.get(rpos.id)
            e2 = dict(env)
            for nm in nparam:
                e2[nm] = 7
            start = ev.eval(init, e2) if init is not None else UNKNOWN
            steps = [s for s in own_nodes(node) if isinstance(s, ast.AugAssign) and isinstance(s.target, ast.Name)
                     and s.target.id == rpos.id]
            step = None
            if len(steps) == 1:
                sv = ev.eval(steps[0].value, e2)
                if isinstance(sv, int):
                    step = sv if isinstance(steps[0].op, ast.Add) else -sv if isinstance(steps[0].op, ast.Sub) else None
            ctx.check(start == 7 * want_slope and step == want_slope, "R02.4", u, rpos,
                      f"[{which}] replacement entries continue the same position sequence ({want_slope:+d} x arrival index)",
                      witness=f"start(n=7)={start}, step={step}")
        else:
            ctx.fail("R02.4", u, rpos, f"[{which}] replacement position term is not a running counter")
    # key wrappers define __lt__ and a consistent __eq__
    wrappers = set()
    for s in own_nodes(node):
        if isinstance(s, (ast.Assign, ast.AnnAssign)) and isinstance(s.value, ast.IfExp):
            for side in (s.value.body, s.value.orelse):
                if isinstance(side, ast.Name):
                    res = ctx.pkg.resolve_global(u.module, side.id)
                    if res.kind == "lib" and ctx.pkg.lib_class(res.qual) is not None:
                        wrappers.add(res.qual)
    ctx.count("key_wrappers", len(wrappers))
    for w in sorted(wrappers):
        info = ctx.pkg.lib_class(w)
        lt, eq = info.methods.get("__lt__"), info.methods.get("__eq__")
        ctx.check(lt is not None and eq is not None, "R02.4", w.replace("asyncstdlib.", ""), info.name,
                  "the key wrapper defines __lt__ and __eq__: without __eq__ two entries with equal keys never compare "
                  "equal, the arrival position is never consulted and ties come out in heap-layout order")
        # both methods as truth tables over the three order outcomes of the wrapped keys (however they are written)
        for meth, want, text in ((lt, {"LT": True, "EQ": False, "GT": False},
                                  "the wrapper reverses the order with a strict comparison (other < self)"),
                                 (eq, {"LT": False, "EQ": True, "GT": False},
                                  "equality of wrappers is equality of the wrapped keys (derived from < or ==)")):
            if meth is None or len(meth.param_names()) != 2:
                continue
            me, other = meth.param_names()
            got = {}
            for outcome in ("LT", "EQ", "GT"):  # (the other wrapper's key relative to this one's)
                ops = _WrapperOps(outcome)
                try:
                    outs = Machine(cfg_of(meth), ops, resolver=make_resolver(ctx, meth, ops)).run({me: "OLD@", other: "NEW@"})
                except AnalysisError:
                    outs = []
                vals = {oc.returned for oc in outs if oc.terminal.kind == "exit"}
                got[outcome] = next(iter(vals)) if len(vals) == 1 and len(outs) == 1 else None
            ctx.check(got == want, "R02.4", meth, meth.node.name, text,
                      witness=f"other's key LT / EQ / GT this one's: evaluated {got}")
    # strict replacement: the loop body is abstractly evaluated for the new item's key being
    # LT / EQ / GT the heap root's key; the root is replaced exactly when root < new
    cfg = cfg_of(u)
    root_names = set()
    for s_ in own_nodes(node):
        if isinstance(s_, ast.Assign) and isinstance(s_.value, ast.Subscript) and isinstance(s_.value.value, ast.Subscript) \
                and norm(s_.value.slice) == "0" and norm(s_.value.value.slice) == "0":
            root_names |= {t.id for t in s_.targets if isinstance(t, ast.Name)}
    loops = [n for n in cfg.nodes if n.kind == "pull" and not n.tag and isinstance(n.ast, ast.AsyncFor) and any(
        isinstance(c, ast.Call) and norm(c.func).endswith("heapreplace") for b in n.ast.body for c in ast.walk(b))]
    tables_decide = ctx.census.get("decided:heapq.nlargest", 0) >= 100 and ctx.census.get("decided:heapq.nsmallest", 0) >= 100
    if (len(loops) != 1 or not root_names) and tables_decide:
        # (the comparison may read the heap root directly instead of through a local)
        ctx.note("R02.4: the replacement loop of _largest does not keep the heap root's key in a local of its own; which item "
                 "replaces which is decided by the tables of nlargest / nsmallest (R02.8) alone")
        loops = []
    else:
        ctx.check(len(loops) == 1 and bool(root_names), "R02.4", u, "_largest",
                  "the replacement loop and the name holding the heap root's key were found", witness=str(sorted(root_names)))
    for loop in loops[:1]:
        for outcome in ("LT", "EQ", "GT"):
            ctx.count("replace_cells")
            ops = _ReplaceOps(outcome)
            env = {nm: ("key", "OLD") for nm in root_names}
            results = Machine(cfg, ops, resolver=make_resolver(ctx, u, ops)).run(
                env, start=loop, stop=lambda n, loop=loop: n is loop)
            results = [oc for oc in results if len(oc.path) > 1 and oc.path[1] not in [s for (lab, s) in loop.succ if lab == "stop"]]
            want = outcome == "GT"
            got = {bool(oc.env.get("@replaced")) for oc in results}
            ctx.check(got == {want}, "R02.4", u, loop,
                      f"[new key {outcome} heap-root key] -> {'replace the root' if want else 'keep the heap'}: a new item "
                      "replaces the current worst only if it is strictly better (ties keep the earlier item)",
                      node=loop, witness=f"evaluated: replaced={sorted(got)}")
    # directions of the two public functions
    for name, want in (("heapq.nlargest", "False"), ("heapq.nsmallest", "True")):
        pu = ctx.inlined(ctx.unit(name), keep=(u.node.name,))  # (the two may share a private body that is told the direction)
        calls = [c for c in own_nodes(pu.node) if isinstance(c, ast.Call) and norm(c.func) == u.node.name]
        got = {k.arg: norm(k.value) for k in calls[0].keywords}.get(flag) if calls else None
        if calls and got is None and len(calls[0].args) >= 4:
            got = norm(calls[0].args[3])
        if not calls and tables_decide:
            ctx.note(f"R02.4: no direct call of {u.node.name} is found in {name}; its direction is decided by its table (R02.8)")
            continue
        ctx.check(got == want, "R02.4", pu, calls[0] if calls else name, f"{name} selects direction {flag}={want}")


# --------------------------------------------------------------------------- R02.5
def r02_5(ctx) -> None:
    u = ctx.inlined(ctx.unit("builtins.sorted"))  # (the two ways of sorting may be private steps)
    node = u.node
    sorts = [n for n in own_nodes(node) if isinstance(n, ast.Call) and (
        (isinstance(n.func, ast.Attribute) and n.func.attr == "sort") or norm(n.func).endswith("sorted"))]
    if not sorts and ctx.census.get("decided:builtins.sorted", 0) >= 150:
        ctx.note("R02.5: no call of list.sort / sorted is found in this shape of sorted; what it returns (ties in input order in "
                 "both directions) is decided by its table R02.8 alone")
        return
    ctx.check(len(sorts) >= 1, "R02.5", u, "sorted", "sorted delegates to a stable library sort")
    for s in sorts:
        kws = {k.arg: k.value for k in s.keywords}
        ctx.check(isinstance(kws.get("reverse"), ast.Name) and kws["reverse"].id == "reverse", "R02.5", u, s,
                  "the direction is passed as reverse= to the stable sort (equal elements keep input order both ways)")
    bad = [n for n in own_nodes(node) if (isinstance(n, ast.Call) and norm(n.func) in ("reversed",)) or
           (isinstance(n, ast.Call) and isinstance(n.func, ast.Attribute) and n.func.attr == "reverse") or
           (isinstance(n, ast.Subscript) and isinstance(n.slice, ast.Slice) and n.slice.step is not None)]
    ctx.check(not bad, "R02.5", u, bad[0] if bad else "sorted", "the result is never reversed after sorting "
              "(that would reverse equal elements as well)")
    # decorate-sort-undecorate: whenever the sorted elements are tuples around the items, the
    # sort key selects exactly the pre-computed key component, so items are never compared
    # and the stable sort keeps equal keys in input order whatever ``reverse`` is
    cfg = cfg_of(u)
    for s in sorts:
        subject = s.func.value if isinstance(s.func, ast.Attribute) and s.func.attr == "sort" else (s.args[0] if s.args else None)
        comp = _tuple_comprehension(ctx, u, cfg, s, subject)
        if comp is None:
            continue
        ctx.count("decorated_sorts")
        key_pos = [i for i, e in enumerate(comp.elt.elts) if isinstance(e, ast.Await)]
        ctx.check(len(key_pos) == 1, "R02.5", u, comp, "the key of each item is computed once (awaited) up front")
        kw = [k.value for k in s.keywords if k.arg == "key"]
        sel = _projection_index(ctx, u, cfg, s, kw[0]) if kw else None
        ctx.check(bool(key_pos) and sel == key_pos[0], "R02.5", u, s,
                  "the decorated (key, item) tuples are sorted by the key component only: items (and positions) are "
                  "never compared, so ties keep input order in both directions",
                  witness=f"tuple arity {len(comp.elt.elts)}, key component {key_pos}, sort key selects {sel}")


def _tuple_comprehension(ctx, u, cfg, call, subject, depth=0):
    """The list comprehension of tuples that produced the list being sorted, if any."""
    subject = uncast(subject)
    if isinstance(subject, ast.ListComp):
        return subject if isinstance(subject.elt, ast.Tuple) and len(subject.elt.elts) >= 2 else None
    if isinstance(subject, ast.Name) and depth < 3:
        node = next((n for n in cfg.nodes if n.ast is not None and any(x is call for x in ast.walk(n.ast)) and not n.tag), None)
        if node is None:
            return None
        v = name_value(ctx, u, cfg, node, subject.id)
        return _tuple_comprehension(ctx, u, cfg, call, v, depth + 1) if v is not None else None
    return None


def _projection_index(ctx, u, cfg, call, key, depth=0):
    """i when ``key`` is a pure projection ``lambda t: t[i]`` / ``operator.itemgetter(i)``
    (possibly through a local or module-level name)."""
    key = uncast(key)
    if isinstance(key, ast.Lambda) and len(key.args.args) == 1 and isinstance(key.body, ast.Subscript) \
            and isinstance(key.body.value, ast.Name) and key.body.value.id == key.args.args[0].arg \
            and isinstance(key.body.slice, ast.Constant) and isinstance(key.body.slice.value, int):
        return key.body.slice.value
    if isinstance(key, ast.Call) and len(key.args) == 1 and not key.keywords \
            and isinstance(key.args[0], ast.Constant) and isinstance(key.args[0].value, int):
        r = ctx.pkg.resolve_expr_global(u.module, key.func)
        if r.kind == "stdlib" and r.qual in ("operator.itemgetter", "_operator.itemgetter"):
            return key.args[0].value
    if isinstance(key, ast.Name) and depth < 3:
        # a named library function that only projects: ``def _key_of(pair): return pair[0]``
        r_ = ctx.pkg.resolve_expr_global(u.module, key)
        t_ = ctx.pkg.lib_unit(r_.qual) if r_ is not None and r_.kind == "lib" else None
        if t_ is not None and t_.kind == "sync" and len(t_.param_names()) == 1:
            body = [b for b in t_.node.body if not (isinstance(b, ast.Expr) and isinstance(b.value, ast.Constant))]
            if len(body) == 1 and isinstance(body[0], ast.Return) and isinstance(body[0].value, ast.Subscript) \
                    and isinstance(body[0].value.value, ast.Name) and body[0].value.value.id == t_.param_names()[0] \
                    and isinstance(body[0].value.slice, ast.Constant) and isinstance(body[0].value.slice.value, int):
                return body[0].value.slice.value
        sym = u.module.symbols.get(key.id)
        if sym is not None and sym[0] == "assign":
            return _projection_index(ctx, u, cfg, call, sym[1], depth + 1)
        node = next((n for n in cfg.nodes if n.ast is not None and any(x is call for x in ast.walk(n.ast)) and not n.tag), None)
        v = name_value(ctx, u, cfg, node, key.id) if node is not None else None
        if v is not None:
            return _projection_index(ctx, u, cfg, call, v, depth + 1)
    return None


# --------------------------------------------------------------------------- R02.7
def r02_7(ctx) -> None:
    """dict(iterable, **kwargs): keyword arguments win over pairs of the iterable and come after them —
    nothing from the iterable is stored after the keywords were merged."""
    from asl.flow import find_path, pretty_path
    ctx.rule("R02.7", "dict: keyword arguments are merged after (and therefore override) the pairs of the iterable")
    u = ctx.inlined(ctx.unit("builtins.dict"))
    cfg = cfg_of(u)
    kw = u.node.args.kwarg.arg if u.node.args.kwarg else None
    if kw is None:
        ctx.ok("R02.7", u, "dict takes no keyword arguments")
        return

    def mentions_kw(e) -> bool:
        return e is not None and any(isinstance(x, ast.Name) and x.id == kw for x in ast.walk(e))

    merges = [n for n in cfg.nodes if not n.tag and (
        (n.kind == "store" and mentions_kw(n.info.get("value")) and not isinstance(n.info.get("value"), ast.Name))
        or (n.kind == "call" and any(mentions_kw(a) for a in list(n.ast.args) + [k.value for k in n.ast.keywords])))]
    src = f"{u.short}:{u.param_names()[0]}"
    pulls = [n for n in cfg.nodes if not n.tag and n.kind == "pull" and any(
        a[0] in ("user", "iter", "scoped") for a in atoms_deep(ctx.vals.expr(u, n.info.get("iter"), n)))]
    ctx.check(bool(merges), "R02.7", u, "dict", "keyword arguments are merged into the result")
    for m in merges:
        for p in pulls:
            path = find_path(m, lambda x, p=p: x is p, edge_ok=lambda a, lab, b: lab not in ("e", "p"))
            ctx.check(path is None, "R02.7", u, m, "no pair of the iterable is stored after the keyword arguments were merged "
                      "(on a key collision the keyword wins, and keyword keys come last)", node=m, witness=pretty_path(path))


# --------------------------------------------------------------------------- R02.6
def r02_6(ctx) -> None:
    table = {"functools.reduce": "TypeError", "builtins._min_max": "ValueError"}
    for short, cls in table.items():
        u = ctx.inlined(ctx.unit(short))  # the raise may sit in a private helper
        raises = [n for n in own_nodes(u.node) if isinstance(n, ast.Raise) and n.exc is not None]
        names = [raised_class(ctx, u, r) for r in raises]
        ctx.check(bool(names) and set(names) == {cls}, "R02.6", u, raises[0] if raises else short,
                  f"empty input without default/initial raises {cls} like the builtin", witness=str(names))
    u = ctx.inlined(ctx.unit("functools.reduce"))  # the seed may be chosen by a private helper
    cfg = cfg_of(u)
    from asl.flow import reaching
    rd = reaching(cfg)
    ok = False
    fold_target = None
    for s in cfg.nodes:
        # ``acc = await f(acc, item)`` in a loop, where ``item`` is what the loop just took from the source: the target of
        # an ``async for`` or the value of ``await anext(it)`` / ``await it.__anext__()``
        if s.kind == "store" and not s.tag and s.in_loop() and isinstance(s.info.get("value"), ast.Await):
            c = s.info["value"].value
            tgt = s.info["targets"][0]
            if isinstance(c, ast.Call) and len(c.args) == 2 and isinstance(tgt, ast.Name) and norm(c.args[0]) == tgt.id \
                    and isinstance(c.args[1], ast.Name):
                defs = rd.defs_at(s, c.args[1].id)

                def fetched(d) -> bool:
                    if d.kind != "store":
                        return False
                    if d.info.get("source") is not None and d.info["source"].kind == "pull":
                        return True
                    v = d.info.get("value")
                    v = v.value if isinstance(v, ast.Await) else None
                    return isinstance(v, ast.Call) and norm(v.func).split(".")[-1] in ("anext", "__anext__") and len(v.args) <= 1
                if defs and all(fetched(d) for d in defs):
                    ok = True
                    fold_target = tgt.id
    if not ok and fold_target is None and ctx.census.get("decided:functools.reduce", 0) >= 8:
        ctx.note("R02.6: no statement `acc = await f(acc, item)` is found in this shape of reduce; the order of its calls and "
                 "its result are decided by its table R02.8 alone")
    else:
        ctx.check(ok, "R02.6", u, "reduce", "reduce folds function(accumulator, item) in that order, re-binding the accumulator")
    # the seed: the accumulator's definitions before the loop are exactly {initial, first item}
    acc = fold_target
    seeds = set()
    initial = [p for p in u.param_names() if p == "initial"]
    from asl.flow import reaching
    from asl.loader import local_names
    locals_ = set(local_names(u)) - set(u.param_names())

    def parts_of(s_, depth=0):
        v = s_.info.get("value")
        for part in ([v.body, v.orelse] if isinstance(v, ast.IfExp) else [v]):
            part = uncast(part)
            if isinstance(part, ast.Name) and part.id in initial:
                seeds.add("initial")
            elif isinstance(part, ast.Await) and "anext" in norm(part):
                seeds.add("first item")
            elif isinstance(part, ast.Name) and part.id in locals_ and depth < 4:
                for d in reaching(cfg).defs_at(s_, part.id):  # a copy of another local: what that one holds
                    if d.kind == "store" and d.info.get("value") is not None:
                        parts_of(d, depth + 1)
                    else:
                        seeds.add(norm(part))
            else:
                seeds.add(norm(part))

    if acc is not None:
        for s_ in cfg.nodes:
            if s_.kind == "store" and not s_.tag and not s_.in_loop() \
                    and any(isinstance(t, ast.Name) and t.id == acc for t in s_.info.get("targets", [])):
                parts_of(s_)
    tests = [n for n in cfg.nodes if n.kind == "branch" and isinstance(n.ast, ast.Compare) and "initial" in norm(n.ast)
             and isinstance(n.ast.ops[0], (ast.Is, ast.IsNot))]
    table_clean = not any(getattr(f_, "rule", "") == "R02.8" and "reduce" in str(getattr(f_, "unit", "")) for f_ in ctx.findings)
    if not (seeds == {"initial", "first item"} and bool(tests)) and ctx.census.get("decided:functools.reduce", 0) >= 12 and table_clean:
        # (the choice of the seed is not written as one statement here - e.g. one private coroutine per call shape; with and
        # without initial, None as initial, empty and non-empty input are all cells of the reduce table R02.8, which decides)
        ctx.note("R02.6: the seed of reduce is not chosen in one statement in this shape of reduce; the reduce table (R02.8: "
                 f"{ctx.census.get('decided:functools.reduce', 0)} cells with / without / None initial) decides it")
    else:
        ctx.check(seeds == {"initial", "first item"} and bool(tests), "R02.6", u, "reduce",
                  "the seed is the initial value if given, otherwise the first item", witness=str(sorted(seeds)))
