"""C03 — async neutrality: sync and async arguments are interchangeable.

R03.1 every user callable is routed through the awaitify wrapper and its result awaited:
      a call whose callee is a raw CALLABLE-role parameter is a violation unless the unit
      is in the by-contract table (one reason each) or the parameter of an internal helper
      is bound to awaitified / library-async values at every call site in the package;
      the value of every call of an awaitified callable flows into ``await`` before any
      other use.
R03.2 every iterable is consumed through the uniform adapter: a raw ITERABLE-role
      parameter is never iterated directly (``for`` / ``async for`` / a Python builtin
      consumer); it only reaches ``aiter`` / ``ScopedIter`` / another library tool.
R03.3 the adapters dispatch correctly: ``aiter`` tests the async protocol first and wraps
      everything else; ``awaitify`` passes coroutine functions through and otherwise wraps;
      ``Awaitify.__call__`` invokes the wrapped callable exactly once per call, returns the
      awaitable itself or a library coroutine around the plain value (never a plain value),
      and caches a consistent decision.
R03.4 return kinds: every public name evaluates, independent of argument flavour, to a
      coroutine function / async iterator / async context manager / decorator producing
      one of those — never to a function returning a plain value.
"""
from __future__ import annotations

import ast
from typing import Dict, List, Optional, Set, Tuple

from asl.absint import UNKNOWN as UNKNOWN_, AbsEval, Machine
from asl.cfg import Node, cfg_of
from asl.flow import find_path, node_defs, reaching
from asl.loader import AnalysisError, Unit, norm, own_nodes
from asl.values import USERISH, Val, roles_of_annotation
from .common import make_resolver, real_units, uncast, uncast_deep
from .c06 import _builtin_consumer
from .lru import enumerate_paths

LEVEL = {
    "decided": "C03: (R03.1) every call of a user callable goes through awaitify and is awaited (by-contract table for "
               "the documented async-only / sync-only parameters; internal helpers checked through their call sites); "
               "(R03.2) iterable parameters are never iterated directly, only through aiter/ScopedIter/another tool; "
               "(R03.3) aiter / awaitify / Awaitify.__call__ as decision tables over an object model (async or not, "
               "coroutine function or not, kind known / first call with awaitable or plain result); (R03.4) every public "
               "name has an awaitable / async-iterator / async-context-manager return kind; (R03.5) `.aclose` is looked up "
               "on a user's iterator only where it is known to exist (class-based iterators without aclose stay usable).",
    "not_decided": "that results are equal across argument flavours for each input (follows from the routing rules "
                   "plus the value-level behaviour of C01/C02, which is not decided statically).",
    "technique": "static analysis: origin dataflow (callable -> awaitify -> await; iterable -> aiter) and return-kind lattice",
}
LEVEL["decided"] += " (R03.7) an awaitified callable is called and its result awaited under the same handlers and cleanups (a synchronous callable fails at the call, an asynchronous one at the await); (R03.8) any_iter's flavour table (R19.2, shared); (R03.9) awaitify wraps user callables only, never a plain library function whose result is a user value; the synchronous-iterable wrapper is decided as a table."
LEVEL["decided"] += ' (R03.10) no attribute a user callable need not have is read unconditionally; R03.2 also covers truth tests of the elements of a *iterables container.'
LEVEL["decided"] += " (R03.11) no __aexit__ hands back what the source's aclose() returned (R06.3, shared); (R03.12) the truth value of a callable argument is never taken; (R03.13) awaitify's wrappers pass *args and **kwargs on unchanged."
LEVEL["decided"] += " (R03.14) a user's callable is never handed to a synchronous higher-order function of the standard library; (R03.15) the internal borrow wraps every flavour of source alike (R07.4, shared); R03.2 also covers isinstance / len tests on the elements of a *iterables parameter."
LEVEL["decided"] += ' R03.13 also: the wrappers take `self` positional-only (a keyword argument named self belongs to the wrapped callable); R03.3 answers questions about objects derived from the callable (what it wraps, its attributes) against the answer for the callable itself, and evaluates the synchronous wrapper for two kinds of source (8 cells).'
LEVEL["decided"] += ' (R03.17) a shared source is closed only when its last reader is done (R04.5, shared: closing acts differently on generators and on class-based iterators).'
LEVEL["decided"] += ' (R03.16) an iterable argument is converted into an iterator once (a re-iterable flavour would start over); R03.2 also reports len() / length_hint() of an iterable parameter; R03.7 also: nothing observable happens between calling an awaitified callable and awaiting its result (also for awaitified callables kept in a field).'

# raw calls of user objects that are correct by documented contract (unit -> reason)
BY_CONTRACT = {
    "_core.Awaitify": "the awaitify wrapper itself: inspects the result of the first call",
    "_core.force_async": "coroutine wrapper built by awaitify for callables known to be synchronous",
    # a class name covers every method of the class (the contract is about the wrapped object)
    "_lrucache.UncachedLRUAsyncCallable": "lru_cache wraps callables documented to return an awaitable",
    "_lrucache.MemoizedLRUAsyncCallable": "lru_cache wraps callables documented to return an awaitable",
    "_lrucache.CachedLRUAsyncCallable": "lru_cache wraps callables documented to return an awaitable",
    "asynctools.apply": "apply's function is documented synchronous; only its arguments are awaited",
    "asynctools.sync": "sync() implements the same rule inline (isinstance(result, Awaitable))",
    "contextlib.ContextDecorator.__call__": "decorated function is a coroutine function by contract",
    "contextlib._AsyncGeneratorContextManager.__init__": "contextmanager wraps an async generator function by contract",
    "contextlib.ExitStack.__aexit__": "registered exits are awaitified, or __aexit__ methods documented to be awaitable",
    "functools._FutureCachedPropertyValue": "cached_property accepts coroutine functions only (checked at decoration)",
    "functools.CachedProperty.__get__": "instantiates the user's lock *type* (a synchronous constructor)",
    "_utility.public_module": "string method, not a user callable",
}
PROTOCOL_METHODS = {"__anext__", "__aiter__", "aclose", "athrow", "asend", "__aenter__", "__aexit__", "__enter__",
                    "__exit__", "__iter__", "__next__"}
# iterable parameters that are iterated directly by design
SYNC_ABCS = {"Iterable", "Iterator", "Sequence", "Collection", "Sized", "Reversible", "Generator", "list", "tuple",
             "set", "dict", "frozenset", "range"}
DIRECT_ITERATION_OK = {
    "_core._aiter_sync": "the uniform adapter itself",
    "asynctools.any_iter": "adapter that resolves awaitable layers before choosing the protocol",
    "asynctools.await_each": "documented to take a synchronous iterable of awaitables",
}


def run(ctx) -> None:
    for rid, text in (("R03.1", "user callables -> awaitify -> await"), ("R03.2", "iterables -> aiter / ScopedIter / tool"),
                      ("R03.3", "adapter dispatch shape (aiter, awaitify, Awaitify.__call__)"),
                      ("R03.4", "public return kinds are awaitable / async iterator / async context manager"),
                      ("R03.7", "an awaitified callable is called and awaited under the same handlers and cleanups"),
                      ("R03.9", "awaitify wraps user callables only, never a plain library function returning a user value")):
        ctx.rule(rid, text)
    ctx.tables["by contract"] = BY_CONTRACT
    ctx.tables["direct iteration by design"] = DIRECT_ITERATION_OK
    r03_1(ctx)
    r03_2(ctx)
    r03_3(ctx)
    r03_4(ctx)
    r03_5(ctx)
    # a handler that can intercept what user code raises treats the flavours differently (an
    # AttributeError from inside an async manager's __aenter__ read as "not async" ...): C06's census
    from . import c06
    from .common import Relabel
    ctx.rule("R03.6", "no except handler can intercept an exception raised by user code (handler census of C06, shared)")
    sub_ctx = Relabel(ctx, "R03.6", only=("R06.1",))
    for u in real_units(ctx):
        c06._census(sub_ctx, u)
    # the adapter for "an iterable, possibly behind an awaitable, of items possibly behind awaitables":
    # every flavour combination is handled (C19's shape table, shared)
    from . import c19
    ctx.rule("R03.8", "any_iter accepts every combination of (awaitable of) sync / async iterable of (awaitable) items (R19.2, shared)")
    c19.r19_2(Relabel(ctx, "R03.8"))
    r03_10(ctx)
    r03_13(ctx)
    r03_14(ctx)
    r03_12(ctx)
    from . import c07 as _c07
    from .common import Relabel as _Rel7
    ctx.rule("R03.15", "every flavour of source is shielded the same way: the internal borrow hands out a new generator whatever it "
                       "is given (R07.4, shared) - a class-based iterator is not passed on bare where an async generator is wrapped")
    _c07.r07_4(_Rel7(ctx, "R03.15"))
    from . import c06
    from .common import Relabel as _Rel
    ctx.rule("R03.11", "what an operation raises or returns does not depend on what the source's aclose() returns: no __aexit__ of "
                       "the library hands a value back that it did not derive from the exception (R06.3, shared)")
    c06._aexit_falsy(_Rel(ctx, "R03.11"))
    r03_16(ctx)
    # closing is the one operation whose effect depends on the flavour of a source: an (internally wrapped) generator
    # ends there, a class-based iterator without aclose goes on - so a source that still has readers is never closed
    from . import c04 as _c04
    ctx.rule("R03.17", "a shared source is closed only when no reader is left (tee: the last peer; R04.5, shared): what closing does "
                       "depends on the flavour of the source, so closing it under a remaining reader makes that reader's items "
                       "depend on the flavour")
    _c04.r04_5(_Rel(ctx, "R03.17"))
    ctx.floor("awaitified_calls", 8)
    ctx.floor("awaitify_sites", 10)
    ctx.floor("iterable_params", 25)
    ctx.floor("public_names", 40)


# --------------------------------------------------------------------------- call-site bindings
def bindings(ctx, target: Unit, pname: str) -> Optional[List[Val]]:
    """Values bound to parameter ``pname`` of internal unit ``target`` at its call sites."""
    out: List[Val] = []
    params = [p.arg for p in target.params()]
    is_method = target.cls is not None and target.parent is None and not target.is_static()
    for u in real_units(ctx):
        cfg = cfg_of(u)
        seen_calls = set()
        for n in cfg.nodes:
            if n.kind != "call" or id(n.ast) in seen_calls:
                continue  # (a finally body exists once per continuation: one copy is enough)
            seen_calls.add(id(n.ast))
            call = n.ast
            fv = ctx.vals.expr(u, call.func, n)  # type: ignore[union-attr]
            hit = False
            offset = 0
            for f in fv:
                if f[0] == "libfn" and f[1] == target.fq:
                    hit, offset = True, 0
                    if is_method and target.is_classmethod():
                        offset = 1
                if f[0] == "bound" and ctx.vals.find_method(f[1], f[2]) is target:
                    hit, offset = True, 1
                if f[0] in ("libfn", "cls") and target.qualname.endswith("__init__") and target.cls is not None \
                        and f[1] == target.cls.fq:
                    hit, offset = True, 1
            args = list(call.args)  # type: ignore[union-attr]
            if not hit and any(f[0] == "stdlib" and f[1] == "functools.partial" for f in fv) and args:
                # partial(<target>, bound positional arguments ...)
                tv = ctx.vals.expr(u, args[0], n)
                for f in tv:
                    if (f[0] == "libfn" and f[1] == target.fq) or \
                            (f[0] == "bound" and ctx.vals.find_method(f[1], f[2]) is target):
                        hit = True
                        offset = 1 if (f[0] == "bound" and not target.is_static()) else 0
                        args = args[1:]
            if not hit:
                continue
            ps = params[offset:]
            bound = None
            for i, a in enumerate(args):
                if isinstance(a, ast.Starred):
                    continue
                if i < len(ps) and ps[i] == pname:
                    bound = a
            for kw in call.keywords:  # type: ignore[union-attr]
                if kw.arg == pname:
                    bound = kw.value
            if bound is not None:
                out.append(ctx.vals.expr(u, bound, n))
    return out or None


def _deep_bindings(ctx, owner: Unit, pname: str, depth: int = 0) -> Optional[List[Val]]:
    """call-site bindings of an internal helper's parameter; a binding that is itself a parameter of
    an internal helper (the value is handed down two levels) is replaced by that parameter's bindings"""
    b = bindings(ctx, owner, pname)
    if not b or depth >= 3:
        return b
    out: List[Val] = []
    for bv in b:
        expanded: Set = set()
        for x in bv:
            if x[0] == "user" and ":" in x[1]:
                ushort, _, p2 = x[1].partition(":")
                up = ctx.pkg.unit(ushort) if ctx.pkg.has_unit(ushort) else None
                if up is not None and _is_internal(up) and up is not owner:
                    inner = _deep_bindings(ctx, up, p2, depth + 1)
                    if inner:
                        for iv in inner:
                            expanded |= set(iv)
                        continue
            expanded.add(x)
        out.append(frozenset(expanded))
    return out


def _is_internal(u: Unit) -> bool:
    parts = u.qualname.split(".")
    return any(p.startswith("_") and not p.startswith("__") for p in parts) or u.parent is not None


def _all_async(ctx, vals: List[Val], depth: int = 0) -> bool:
    for v in vals:
        for a in v:
            if a[0] == "acall" or a[0] == "none":
                continue
            if a[0] == "libfn":
                t = ctx.pkg.lib_unit(a[1])
                if t is not None and t.kind == "coroutine":
                    continue
                return False
            if a[0] == "user" and depth < 3 and ":" in a[1]:
                ushort, _, p = a[1].partition(":")
                if ctx.pkg.has_unit(ushort):
                    u = ctx.pkg.unit(ushort)
                    if _is_internal(u):
                        b = bindings(ctx, u, p)
                        if b and _all_async(ctx, b, depth + 1):
                            continue
                return False
            return False
    return True


# --------------------------------------------------------------------------- R03.1
def r03_1(ctx) -> None:
    for u in real_units(ctx):
        cfg = cfg_of(u)
        parents = None
        for n in cfg.nodes:
            if n.kind != "call" or n.tag:
                continue
            call = n.ast
            fv = ctx.vals.expr(u, call.func, n)  # type: ignore[union-attr]
            if _is_awaitify(fv):
                ctx.count("awaitify_sites")
                awaitify_argument(ctx, "R03.9", u, n)
            raw = [a for a in fv if a[0] in ("user", "result", "item") or
                   (a[0] == "usermeth" and a[2] not in PROTOCOL_METHODS)]
            raw = [a for a in raw if not _container_param(ctx, a)]
            raw = [a for a in raw if not (a[0] == "usermeth" and ctx.vals.is_plain(("user", a[1])))]
            if raw:
                outer = u
                while outer.parent is not None:
                    outer = outer.parent  # nested wrappers are covered by their enclosing definition
                cname_ = ctx.pkg.canonical(outer)
                contract = BY_CONTRACT.get(cname_) or BY_CONTRACT.get(cname_.rsplit(".", 1)[0]) or (
                    BY_CONTRACT.get(ctx.pkg.canonical_class(outer.cls)) if outer.cls is not None else None)
                if not contract and _is_internal(outer):
                    # a private factory working on behalf of by-contract operation(s) only
                    from .common import callers_of
                    users = []
                    for v in callers_of(ctx, outer):
                        while v.parent is not None:
                            v = v.parent  # (called from a nested wrapper: its enclosing definition carries the contract)
                        users.append(v)
                    def contract_of(v):
                        return BY_CONTRACT.get(ctx.pkg.canonical(v)) or (
                            BY_CONTRACT.get(ctx.pkg.canonical_class(v.cls)) if v.cls is not None else None)
                    if users and all(contract_of(v) for v in users):
                        contract = contract_of(users[0]) + f" (through the private helper {outer.short})"
                if contract:
                    ctx.ok("R03.1", u, f"raw call `{norm(call.func)}(...)` is by contract: {contract}")
                else:
                    ok = True
                    for a in raw:
                        if a[0] != "user" or ":" not in a[1]:
                            ok = False
                            continue
                        ushort, _, p = a[1].partition(":")
                        owner = ctx.pkg.unit(ushort) if ctx.pkg.has_unit(ushort) else None
                        b = _deep_bindings(ctx, owner, p) if owner is not None and _is_internal(owner) else None
                        library_only = bool(b) and all(x[0] in ("libfn", "cls", "lambda", "closure", "libinst", "none") for bv in b for x in bv)
                        if not (b and (_all_async(ctx, b) or library_only)):
                            ok = False
                    ctx.check(ok, "R03.1", u, call,
                              f"`{norm(call.func)}` is an awaitified / library-async callable at every call site of this "
                              f"internal helper" if ok else
                              f"user callable `{norm(call.func)}` is called without being routed through awaitify: a "
                              f"synchronous callable's plain result cannot be awaited and an awaitable-returning one "
                              f"(async def, partial, callable object) is not detected", node=n)
                    if ok:
                        # (an awaitified callable kept in a field / handed to a helper: the same call-and-await discipline)
                        if parents is None:
                            parents = _parents(u.node)
                        if _awaited(u, cfg, n, parents)[0]:
                            _same_protection(ctx, u, cfg, n, parents)
            acall = [a for a in fv if a[0] == "acall"]
            if acall and not raw:
                ctx.count("awaitified_calls")
                if parents is None:
                    parents = _parents(u.node)
                ok, why = _awaited(u, cfg, n, parents)
                ctx.check(ok, "R03.1", u, call, "the result of the awaitified callable is awaited before any other use"
                          if ok else f"the result of the awaitified callable `{norm(call.func)}` is used without being "
                          f"awaited ({why})", node=n)
                if ok:
                    _same_protection(ctx, u, cfg, n, parents)


def _same_protection(ctx, u: Unit, cfg, n: Node, parents) -> None:
    """R03.7: an awaitified *synchronous* callable runs (and fails) when it is called, an asynchronous
    one when the result is awaited.  Both points must therefore be covered by the same handlers and
    cleanups: the exceptional successor of the call node and of the awaiting node is the same node."""
    call = n.ast
    p = parents.get(id(call))
    awaits: List[Node] = []
    if isinstance(p, ast.Await):
        awaits = [m for m in cfg.nodes if m.kind == "await" and not m.tag and m.info.get("value") is call]
    else:
        tgt = p.targets[0] if isinstance(p, ast.Assign) and len(p.targets) == 1 else p.target if isinstance(p, ast.AnnAssign) else None
        if isinstance(tgt, ast.Name):
            stores = [s for s in cfg.nodes if s.kind == "store" and not s.tag and s.info.get("value") is call]
            rd = reaching(cfg)
            for m in cfg.nodes:
                if m.kind == "await" and not m.tag and isinstance(m.info.get("value"), ast.Name) and m.info["value"].id == tgt.id \
                        and any(d in stores for d in rd.defs_at(m, tgt.id)):
                    awaits.append(m)
    ctx.count("call_await_pairs", len(awaits))
    for m in awaits:
        same = n.exc_succ() is m.exc_succ()
        ctx.check(same, "R03.7", u, call,
                  "calling the awaitified callable and awaiting its result are covered by the same handlers / cleanups"
                  if same else
                  f"`{norm(call.func)}(...)` is called outside the protection that covers `{norm(m.ast)}`: a synchronous "
                  "callable fails at the call, an asynchronous one at the await — the two flavours are handled differently",
                  node=n)
        # ... and nothing that outlives a failure happens in between: a field or container written after the call and before
        # the await is written when an asynchronous callable fails, and not when a synchronous one does
        from asl.flow import find_path
        between = reachable_between(n, m)
        effects = [x for x in between if x.kind == "store" and any(isinstance(t_, (ast.Attribute, ast.Subscript))
                                                                      for t_ in x.info.get("targets", []))]
        effects += [x for x in between if x.kind in ("yield", "await", "pull", "enter") and x is not m]
        ctx.check(not effects, "R03.7", u, effects[0].ast if effects else call,
                  "nothing observable happens between calling the awaitified callable and awaiting its result"
                  if not effects else
                  f"`{norm(effects[0].ast).splitlines()[0][:70]}` happens after `{norm(call.func)}(...)` was called and before its result is "
                  "awaited: when the callable fails, a synchronous one has not got this far and an asynchronous one has — the "
                  "state left behind differs between the flavours", node=effects[0] if effects else n)


def reachable_between(a: Node, b: Node):
    """nodes on normal-edge paths from a (exclusive) to b (exclusive)"""
    from asl.flow import reachable, reachable_back
    fwd = reachable([s_ for lab, s_ in a.succ if lab not in ("e", "p")], stop=lambda x: x is b, edge_ok=lambda p_, lab, q_: lab not in ("e", "p"))
    back = reachable_back([p_ for lab, p_ in b.pred if lab not in ("e", "p")], labels=("n", "t", "f", "stop", "h"), stop=lambda x: x is a)
    return [x for x in fwd if x in back and x is not a and x is not b]


def awaitify_argument(ctx, rid: str, u: Unit, n: Node) -> None:
    """awaitify() decides at the first call whether its callable is asynchronous by looking at what it
    returned.  Wrapping one of the library's own *plain* functions that hands back a user value (an
    identity default) makes that probe look at the user's item: an awaitable item is then awaited
    instead of being passed through.  Library defaults must be coroutine functions, used as they are."""
    call = n.ast
    for a in list(call.args) + [k.value for k in call.keywords]:
        for x in ctx.vals.expr(u, a, n):
            if x[0] == "libfn":
                t = ctx.pkg.lib_unit(x[1])
                if t is not None and t.kind == "sync" and t.cls is None:
                    ctx.fail(rid, u, call, f"awaitify is applied to the library's own plain function `{t.short}`: its result (a user "
                             "value) is probed for awaitability on the first call, so awaitable items are awaited instead of "
                             "passed through", node=n)
                    return
    ctx.ok(rid, u, f"`{norm(call)}` wraps a user callable (or an asynchronous library default)", line=getattr(call, "lineno", None))


HIGHER_ORDER = {"sorted", "min", "max", "map", "filter", "reduce", "sort", "accumulate", "starmap", "takewhile", "dropwhile",
                "filterfalse", "groupby", "nlargest", "nsmallest", "merge", "bisect", "insort", "bisect_left", "bisect_right"}


def r03_16(ctx, rid: str = "R03.16", modules=None) -> None:
    """An iterable argument is turned into an iterator once.  A list can be iterated again from its start, an iterator or an
    async generator goes on where it was: an operation that hands the argument to ``aiter`` / ``ScopedIter`` / a tool and
    later uses the *argument* again (instead of the iterator it made) sees the first items twice for one flavour and not
    for the other."""
    from asl.flow import reachable
    ctx.rule(rid, "an iterable argument is converted into an iterator once: after it was handed to aiter / ScopedIter / a library "
                  "tool, the argument itself is not iterated or handed on again (a re-iterable flavour would start over)")
    sites = 0
    for u in real_units(ctx):
        if (modules is not None and u.module.short not in modules) or u.kind not in ("coroutine", "asyncgen", "sync"):
            continue
        iter_params = {p_.arg for p_ in u.params() if "ITERABLE" in roles_of_annotation(p_.annotation)
                       and not norm(p_.annotation).startswith(("Tuple", "tuple", "List", "list"))}
        va = u.node.args.vararg
        iter_params -= {va.arg} if va is not None else set()
        if not iter_params or u.cls is not None and u.node.name != "__init__" and False:
            continue
        cfg = cfg_of(u)

        def uses(n, pname):
            """call / iteration nodes that consume the bare parameter"""
            if n.tag:
                return False
            if n.kind == "call":
                fname = norm(n.ast.func).split(".")[-1]
                if fname in ("isinstance", "hasattr", "repr", "type", "id", "callable", "getattr", "len", "cast"):
                    return False
                return any(isinstance(a_, ast.Name) and a_.id == pname for a_ in list(n.ast.args) + [k.value for k in n.ast.keywords]) \
                    or any(isinstance(a_, ast.Starred) and isinstance(a_.value, ast.Name) and a_.value.id == pname for a_ in n.ast.args)
            if n.kind in ("aiter", "siter"):
                it_ = n.info.get("iter")
                return isinstance(it_, ast.Name) and it_.id == pname
            if n.kind == "enter":
                cm_ = n.info.get("cm")
                return isinstance(cm_, ast.Call) and any(isinstance(a_, ast.Name) and a_.id == pname for a_ in cm_.args)
            return False
        for pname in sorted(iter_params):
            rebinds = [n for n in cfg.nodes if n.kind in ("store", "del") and not n.tag and pname in node_defs(n)]
            consumers = [n for n in cfg.nodes if uses(n, pname)]
            for first in consumers:
                after = reachable([s_ for lab, s_ in first.succ if lab not in ("e", "p")],
                                  stop=lambda x: x in rebinds, edge_ok=lambda a, lab, b: lab not in ("e", "p"))
                again = [n for n in consumers if n in after and n is not first and n not in rebinds
                         and not (first.kind == "call" and n.kind == "enter" and any(first.ast is x for x in ast.walk(n.info.get("cm"))))]
                # (``async with ScopedIter(p)``: the call node and the enter node are one conversion)
                again = [n for n in again if not (n.kind == "call" and first.kind == "enter")]
                if again and first not in after:
                    sites += 1
                    ctx.fail(rid, u, again[0].ast if again[0].ast is not None else pname,
                             f"the iterable argument `{pname}` is consumed again after it was handed to "
                             f"`{norm(first.ast).splitlines()[0][:60]}`: a list starts over from its first item, an iterator or async "
                             "generator continues - the flavours of one argument give different results", node=again[0])
                    break
    if not sites:
        ctx.ok(rid, "package", "every iterable argument is converted once")


def r03_14(ctx, rid: str = "R03.14") -> None:
    """A synchronous consumer of the standard library (``list.sort(key=...)``, ``sorted``, ``min``, ``map`` ...) calls what it
    is given and uses the result as it is: handed a user's callable that may be asynchronous - an ``async def``, but also a
    partial, a lambda returning a coroutine or an object with an async ``__call__`` - it gets coroutines for values."""
    from asl.values import roles_of_annotation
    ctx.rule(rid, "a user's callable is never handed to a synchronous higher-order function of the standard library (sort / sorted / "
                  "min / max / map / filter / reduce / heapq ...): only the library's awaiting code may call it")
    sites = 0
    for u in real_units(ctx):
        cfg = cfg_of(u)
        for n in cfg.nodes:
            if n.kind != "call" or n.tag:
                continue
            call = n.ast
            r = ctx.pkg.resolve_expr_global(u.module, call.func)
            name = r.qual.split(".")[-1] if r.kind in ("builtin", "stdlib") else (
                call.func.attr if isinstance(call.func, ast.Attribute) and r.kind not in ("lib",) else "")
            if name not in HIGHER_ORDER or r.kind == "lib":
                continue
            if isinstance(call.func, ast.Attribute) and r.kind not in ("builtin", "stdlib"):
                # a method: only of the library's own plain containers (``items.sort(...)``), not of user objects
                recv = ctx.vals.expr(u, call.func.value, n)
                if any(a[0] in ("user", "item", "result") for a in recv):
                    continue
            for e in list(call.args) + [k.value for k in call.keywords]:
                e = e.value if isinstance(e, ast.Starred) else e
                for a in ctx.vals.expr(u, e, n):
                    if a[0] != "user" or ":" not in str(a[1]):
                        continue
                    owner, _, pname = a[1].partition(":")
                    ou = ctx.pkg.unit(owner) if ctx.pkg.has_unit(owner) else None
                    ann = next((p.annotation for p in ou.params() if p.arg == pname), None) if ou is not None else None
                    if ann is not None and "CALLABLE" in roles_of_annotation(ann) and not ({"ITERABLE", "ITERATOR"} & roles_of_annotation(ann)):
                        sites += 1
                        ctx.fail(rid, u, call, f"the user's callable `{pname}` is handed to `{norm(call.func)}`, which calls it "
                                 "synchronously and uses whatever comes back (a coroutine, for an asynchronous callable that is not an "
                                 "`async def`)", node=n)
    if not sites:
        ctx.ok(rid, "package", "no user callable reaches a synchronous higher-order function")


def r03_13(ctx, rid: str = "R03.13") -> None:
    """What awaitify hands out stands for the user's callable: it is called with whatever the callable would be called
    with - positional and keyword arguments alike (``ExitStack.callback(cb, *args, **kwargs)`` binds keyword arguments)."""
    ctx.rule(rid, "the wrappers awaitify puts around a user's callable take *args and **kwargs and pass both on unchanged")
    units = []
    if ctx.pkg.has_unit("_core.Awaitify.__call__"):
        units.append(ctx.unit("_core.Awaitify.__call__"))
    if ctx.pkg.has_unit("_core.force_async"):
        fa = ctx.unit("_core.force_async")
        units += [x for x in fa.module.units.values() if x.parent is fa]
    if not units:
        ctx.note(f"{rid}: the awaitify wrappers are not found under their names; not checked")
        return
    from .common import keywords_cannot_collide
    for u in units:
        a = u.node.args
        ok_sig = a.vararg is not None and a.kwarg is not None
        ctx.check(ok_sig, rid, u, u.node.name, "the wrapper accepts positional and keyword arguments (*args, **kwargs)")
        if not ok_sig:
            continue
        keywords_cannot_collide(ctx, rid, u, "the wrapped callable")
        cfg = cfg_of(u)
        for n in cfg.nodes:
            if n.kind != "call" or n.tag:
                continue
            fv = ctx.vals.expr(u, n.ast.func, n)
            if not any(x[0] in ("user", "result", "item") for x in fv):
                continue
            stars = [norm(x.value) for x in n.ast.args if isinstance(x, ast.Starred)]
            kws = [norm(k.value) for k in n.ast.keywords if k.arg is None]
            ok = stars == [a.vararg.arg] and kws == [a.kwarg.arg] and len(n.ast.args) == 1 and len(n.ast.keywords) == 1
            ctx.check(ok, rid, u, n.ast, "the wrapped callable is called with (*args, **kwargs) exactly as the wrapper was", node=n)


def r03_12(ctx, modules=None) -> None:
    """A callable argument is a ``def``, an ``async def``, a partial or any object with ``__call__`` - and such an object
    may well be falsy (``__len__`` / ``__bool__``: a memoising callable that is empty so far).  "Was a callable given?" is
    decided by identity with None, never by its truth value."""
    from asl.values import roles_of_annotation
    ctx.rule("R03.12", "the truth value of a user's callable is never taken (`key or default`, `if key:`, `not key`): whether one "
                       "was given is decided by `is None`")
    sites = 0
    for u in real_units(ctx):
        if modules is not None and u.module.short not in modules:
            continue
        cfg = cfg_of(u)
        for n in cfg.nodes:
            if n.kind != "op" or n.tag or n.info.get("op") not in ("truth", "not"):
                continue
            for operand in n.info.get("operands", []):
                if not isinstance(operand, ast.Name):
                    continue
                for a in ctx.vals.expr(u, operand, n):
                    if a[0] != "user" or ":" not in str(a[1]):
                        continue
                    owner, _, pname = a[1].partition(":")
                    ou = ctx.pkg.unit(owner) if ctx.pkg.has_unit(owner) else None
                    ann = next((p.annotation for p in ou.params() if p.arg == pname), None) if ou is not None else None
                    if ann is not None and "CALLABLE" in roles_of_annotation(ann) and not ({"ITERABLE", "ITERATOR"} & roles_of_annotation(ann)):
                        sites += 1
                        ctx.fail("R03.12", u, operand, f"the truth value of the callable `{pname}` decides a branch: a callable object that "
                                 "is falsy (it may define __len__ or __bool__) is treated as if none was given, a `def` never is", node=n)
    if not sites:
        ctx.ok("R03.12", "package", "no truth test of a callable argument")


def r03_10(ctx, modules=None) -> None:
    """The flavours of a user callable (def, async def, partial, callable object, bound method) have one thing in
    common: they can be called.  Reading any other attribute of it unconditionally (``function.__name__``) singles
    out the flavours that lack it — a callable object returning a coroutine has no ``__name__``."""
    from asl.values import roles_of_annotation
    ctx.rule("R03.10", "no attribute of a user callable is read unconditionally (only calling it, or getattr with a default)")
    for u in real_units(ctx):
        if modules is not None and u.module.short not in modules:
            continue
        callables = {p.arg for p in u.params() if "CALLABLE" in roles_of_annotation(p.annotation)
                     and not ({"ITERABLE", "ITERATOR"} & roles_of_annotation(p.annotation))}
        if not callables:
            continue
        srcs = {f"{u.short}:{p}" for p in callables}
        cfg = cfg_of(u)
        for n in cfg.nodes:
            if n.kind != "attr" or n.tag or not isinstance(n.ast, ast.Attribute) or not isinstance(n.ast.ctx, ast.Load):
                continue
            base = ctx.vals.expr(u, n.ast.value, n)
            if not any(a[0] == "user" and a[1] in srcs for a in base):
                continue
            if n.ast.attr in ("__doc__", "__module__", "__class__", "__call__"):
                continue  # every object has these (inherited from its class at the latest)
            ctx.count("callable_attribute_reads")
            # guarded by an AttributeError handler, or by hasattr on every path?
            handlers = [h for h in cfg.nodes if h.kind == "handler" and "AttributeError" in norm(h.info.get("type"))]
            covered = n.exc_succ() is not None and any(find_path(n.exc_succ(), lambda x, h=h: x is h, edge_ok=lambda a, lab, b: lab in ("h", "e")) is not None
                                                         for h in handlers)
            guards = {b for b in cfg.nodes if b.kind == "branch" and isinstance(b.ast, ast.Call) and norm(b.ast.func) == "hasattr"
                      and len(b.ast.args) == 2 and norm(b.ast.args[0]) == norm(n.ast.value)
                      and isinstance(b.ast.args[1], ast.Constant) and b.ast.args[1].value == n.ast.attr}
            guarded = bool(guards) and find_path(cfg.entry, lambda x: x is n, edge_ok=lambda a, lab, b: lab not in ("e", "p")
                                                 and not (a in guards and lab == "t")) is None
            ctx.check(covered or guarded, "R03.10", u, n.ast,
                      f"`{norm(n.ast)}` reads an attribute of the user's callable that not every flavour of callable has "
                      "(callable objects, partials): the flavours that lack it fail with AttributeError", node=n)


def _is_awaitify(fv: Val) -> bool:
    return any(a[0] == "libfn" and a[1].endswith("_core.awaitify") for a in fv)


def _container_param(ctx, a) -> bool:
    if a[0] != "usermeth":
        return False
    ushort, _, p = a[1].partition(":")
    p = p.rstrip("[]")
    if not ctx.pkg.has_unit(ushort):
        return False
    for prm in ctx.pkg.unit(ushort).params():
        if prm.arg == p and prm.annotation is not None:
            return ctx.vals._annotation_head(prm.annotation) in ctx.vals.CONTAINER_HEADS
    return False


def _parents(root) -> Dict[int, ast.AST]:
    out = {}
    for x in ast.walk(root):
        for c in ast.iter_child_nodes(x):
            out[id(c)] = x
    return out


def _awaited(u: Unit, cfg, n: Node, parents) -> Tuple[bool, str]:
    call = n.ast
    p = parents.get(id(call))
    if isinstance(p, ast.Await):
        return True, ""
    if isinstance(p, ast.AnnAssign) and p.value is call and isinstance(p.target, ast.Name):
        p = ast.copy_location(ast.Assign(targets=[p.target], value=call), p)
        store = [s for s in cfg.nodes if s.kind == "store" and s.info.get("value") is call and not s.tag]
    else:
        store = None
    if isinstance(p, ast.Assign) and p.value is call and len(p.targets) == 1 and isinstance(p.targets[0], ast.Name):
        name = p.targets[0].id
        if store is None:
            store = [s for s in cfg.nodes if s.kind == "store" and s.ast is p and not s.tag]
        uses = 0
        for m in cfg.nodes:
            if m.tag:
                continue
            for x in ([m.ast] if m.ast is not None else []):
                pass
        rd = reaching(cfg)
        for x in own_nodes(u.node):
            if isinstance(x, ast.Name) and x.id == name and isinstance(x.ctx, ast.Load):
                par = parents.get(id(x))
                # is this load reached by our store?
                nodes = [m for m in cfg.nodes if m.ast is par or m.ast is x]
                reached = any(any(d in store for d in rd.defs_at(m, name)) for m in nodes) if nodes else True
                if not reached:
                    continue
                uses += 1
                if not isinstance(par, ast.Await):
                    return False, f"`{name}` is used at line {x.lineno} without await"
        return (uses > 0), ("never awaited" if uses == 0 else "")
    if isinstance(p, ast.Return) or isinstance(p, ast.Lambda):
        return True, ""  # handed back to a caller that awaits (coroutine objects are values here)
    return False, f"used in {type(p).__name__}"


# --------------------------------------------------------------------------- R03.2
def r03_2(ctx, modules=None) -> None:
    for u in real_units(ctx):
        if modules is not None and u.module.short not in modules:
            continue
        iter_params = {p.arg for p in u.params() if "ITERABLE" in roles_of_annotation(p.annotation)
                       and not norm(p.annotation).startswith(("Tuple", "tuple", "List", "list", '"tuple', '"list', "'tuple", "'list"))}
        # ``Iterable[Any]`` element annotations of an outer iterable (starmap) are not parameters
        from .ownership import closes_all_param
        iter_params = {p for p in iter_params if not closes_all_param(ctx, u, p)}
        if iter_params and _is_internal(u):
            # a private helper that is only ever handed a library-built container (the tuple of a
            # ``*iterables`` parameter, a list the caller filled) iterates the container, not a user iterable
            for p in sorted(iter_params):
                b = bindings(ctx, u, p)
                if b and all(bv and all(x[0] in ("elems", "fresh", "kwargs") for x in bv) for bv in b):
                    iter_params.discard(p)
        if not iter_params:
            continue
        ctx.count("iterable_params", len(iter_params))
        cfg = cfg_of(u)
        srcs = {f"{u.short}:{p}" for p in iter_params}
        bad = 0
        for n in cfg.nodes:
            if n.tag:
                continue
            if n.kind in ("siter", "aiter"):
                v = ctx.vals.expr(u, n.info.get("iter"), n)
                raw = [a for a in v if a[0] == "user" and a[1] in srcs]
                if raw and ctx.pkg.canonical(u) not in DIRECT_ITERATION_OK:
                    bad += 1
                    kind = "async for" if n.kind == "aiter" else "for"
                    ctx.fail("R03.2", u, f"{kind} ... in {norm(n.info.get('iter'))}",
                             f"iterable parameter is iterated directly with `{kind}`: only one of the sync / async "
                             f"protocols is supported instead of both", node=n)
            if n.kind == "call" and ctx.pkg.canonical(u) not in DIRECT_ITERATION_OK and _builtin_consumer(ctx, u, n):
                args = [a.value if isinstance(a, ast.Starred) else a for a in n.ast.args]  # type: ignore[union-attr]
                if any(any(x[0] == "user" and x[1] in srcs for x in ctx.vals.expr(u, a, n)) for a in args):
                    bad += 1
                    ctx.fail("R03.2", u, n.ast, "iterable parameter is consumed by a synchronous Python builtin: an "
                             "async iterable argument fails or is handled on a different path than a sync one", node=n)
        # the truth value / length of a user's iterable exists for sized synchronous containers only: ``all(iterables)``
        # over the tuple of a ``*iterables`` parameter, ``bool(it)``, ``len(it)``
        va = u.node.args.vararg
        if va is not None and "ITERABLE" in roles_of_annotation(va.annotation) and ctx.pkg.canonical(u) not in DIRECT_ITERATION_OK:
            for n in cfg.nodes:
                if n.kind != "call" or n.tag:
                    continue
                fv = ctx.vals.expr(u, n.ast.func, n)
                if any(a[0] == "builtin" and a[1] in ("all", "any") for a in fv) and n.ast.args \
                        and isinstance(n.ast.args[0], ast.Name) and n.ast.args[0].id == va.arg:
                    bad += 1
                    ctx.fail("R03.2", u, n.ast, f"`{norm(n.ast)}` tests the truth value of every iterable argument: an empty list is falsy, "
                             "an empty (async) iterator is not — the flavours of one and the same argument are treated differently", node=n)
        for c in own_nodes(u.node):
            if isinstance(c, ast.Call) and norm(c.func) in ("isinstance", "issubclass") and len(c.args) == 2 \
                    and isinstance(c.args[0], (ast.Name, ast.NamedExpr)):
                nm = c.args[0].id if isinstance(c.args[0], ast.Name) else norm(c.args[0].target)
                if nm not in iter_params or ctx.pkg.canonical(u) in DIRECT_ITERATION_OK:
                    continue
                classes = c.args[1].elts if isinstance(c.args[1], ast.Tuple) else [c.args[1]]
                sync = [norm(k) for k in classes if norm(k).split(".")[-1] in SYNC_ABCS]
                if sync:
                    bad += 1
                    ctx.fail("R03.2", u, c, f"iterable parameter `{nm}` is type-tested against the synchronous "
                             f"{sync}: objects that are iterable only through __getitem__ (or sync/async flavours) "
                             f"are treated differently, although aiter() accepts them", line=c.lineno)
        # ``len(iterable)`` / ``iterable.__len__()`` / ``operator.length_hint``: only sized synchronous containers have a length, so a
        # decision taken on it treats the flavours of one argument differently (also when TypeError is handled: the other
        # branch is then the only one an (async) iterator ever takes)
        if ctx.pkg.canonical(u) not in DIRECT_ITERATION_OK:
            for n in cfg.nodes:
                if n.kind != "call" or n.tag or len(n.ast.args) != 1 or norm(n.ast.func).split(".")[-1] not in ("len", "length_hint"):
                    continue
                r_ = ctx.pkg.resolve_expr_global(u.module, n.ast.func)
                if r_.kind not in ("builtin", "stdlib"):
                    continue
                v0 = ctx.vals.expr(u, n.ast.args[0], n)
                hit = [a for a in v0 if a[0] == "user" and ":" in str(a[1]) and str(a[1]).split(":")[-1] in iter_params
                       and str(a[1]).startswith(u.short + ":")]
                if hit:
                    bad += 1
                    ctx.fail("R03.2", u, n.ast, f"`{norm(n.ast)}` asks the iterable argument for its length: a list has one, an "
                             "iterator or an asynchronous iterable of the same items has none - the flavours of one and the same "
                             "argument take different paths", node=n)
        # ``hasattr(iterable, ..)``: which attributes an argument has differs between the flavours of the same items (a list has
        # no aclose, the iterator aiter() makes of it has one): the question belongs to the iterator
        if ctx.pkg.canonical(u) not in DIRECT_ITERATION_OK:
            for n in cfg.nodes:
                if n.kind != "call" or n.tag or len(n.ast.args) != 2 or norm(n.ast.func) != "hasattr":
                    continue
                v0 = ctx.vals.expr(u, n.ast.args[0], n)
                hit = [a for a in v0 if a[0] == "user" and str(a[1]).startswith(u.short + ":") and str(a[1]).split(":")[-1] in iter_params]
                if hit:
                    bad += 1
                    ctx.fail("R03.2", u, n.ast, f"`{norm(n.ast)}` asks the iterable argument itself for an attribute: a list, an iterator and an "
                             "asynchronous iterable of the same items differ in what they have - the flavours of one and the same "
                             "argument take different paths (the question belongs to the iterator made by aiter())", node=n)
        # ... the same for the *elements* of a ``*iterables`` parameter, wherever the test sits (a comprehension filter):
        # ``isinstance(it, Sized)`` / ``len(it)`` single out synchronous containers among the arguments
        if va is not None and "ITERABLE" in roles_of_annotation(va.annotation) and ctx.pkg.canonical(u) not in DIRECT_ITERATION_OK:
            vsrc = f"{u.short}:{va.arg}"
            for n in cfg.nodes:
                if n.kind != "call" or n.tag or not n.ast.args:
                    continue
                fname = norm(n.ast.func)
                if fname not in ("isinstance", "len"):
                    continue
                v0 = ctx.vals.expr(u, n.ast.args[0], n)
                if not any(a[0] in ("user", "item") and str(a[1]).rstrip("[]") == vsrc and str(a[1]) != vsrc for a in v0):
                    continue
                if fname == "isinstance" and len(n.ast.args) == 2:
                    classes = n.ast.args[1].elts if isinstance(n.ast.args[1], ast.Tuple) else [n.ast.args[1]]
                    if not [k for k in classes if norm(k).split(".")[-1] in SYNC_ABCS]:
                        continue
                bad += 1
                ctx.fail("R03.2", u, n.ast, f"`{norm(n.ast)}` singles out the synchronous (sized) containers among the iterable arguments: "
                         "a list and an iterator over the same items are treated differently", node=n)
            # (generator expressions are evaluated lazily and have no nodes of their own in the enclosing CFG)
            for comp in ast.walk(u.node):
                if not isinstance(comp, (ast.GeneratorExp, ast.ListComp, ast.SetComp, ast.DictComp)):
                    continue
                targets = {g.target.id for g in comp.generators if isinstance(g.iter, ast.Name) and g.iter.id == va.arg
                           and isinstance(g.target, ast.Name)}
                if not targets:
                    continue
                for c in ast.walk(comp):
                    if isinstance(c, ast.Call) and norm(c.func) in ("isinstance", "len") and c.args and isinstance(c.args[0], ast.Name) \
                            and c.args[0].id in targets:
                        if norm(c.func) == "isinstance" and len(c.args) == 2:
                            classes = c.args[1].elts if isinstance(c.args[1], ast.Tuple) else [c.args[1]]
                            if not [k for k in classes if norm(k).split(".")[-1] in SYNC_ABCS]:
                                continue
                        if isinstance(comp, ast.GeneratorExp):
                            bad += 1
                            ctx.fail("R03.2", u, c, f"`{norm(c)}` singles out the synchronous (sized) containers among the iterable "
                                     "arguments: a list and an iterator over the same items are treated differently", line=c.lineno)
        if not bad:
            ctx.ok("R03.2", u, f"iterable parameter(s) {sorted(iter_params)} only reach aiter / ScopedIter / library tools")


# --------------------------------------------------------------------------- R03.3
class _AdapterOps:
    """Object model for the two adapters: opaque user objects (SUBJECT, FUNC, RESULT, CACHED),
    ``obj.name`` -> ('meth', obj, name), calls -> ('call', callee, args), library generator /
    coroutine functions and classes -> ('lib', qualified name, args).  ``isinstance`` and
    ``iscoroutinefunction`` answers come from the scenario; every call of a user callable is
    logged in env['@calls']."""

    def __init__(self, ctx, module, scenario: dict, cls=None):
        self.ctx, self.module, self.sc, self.cls = ctx, module, scenario, cls

    def attr(self, value, name, node, env):
        if value == "SELF":
            return env.get("@f:" + name, UNKNOWN_)
        if value is UNKNOWN_ or value is None:
            return UNKNOWN_
        return ("meth", value, name)

    def store(self, target, value, env, ev):
        if isinstance(target, ast.Attribute) and ev.eval(target.value, env) == "SELF":
            env["@f:" + target.attr] = value

    def _args(self, node, env):
        ev = AbsEval(self)
        out = []
        for a in node.args:
            out.append(("*", ev.eval(a.value, env)) if isinstance(a, ast.Starred) else ev.eval(a, env))
        for k in node.keywords:
            out.append(("**", ev.eval(k.value, env)) if k.arg is None else (k.arg, ev.eval(k.value, env)))
        return tuple(out)

    def call(self, func, args, kwargs, node, env):
        ev = AbsEval(self)
        r = self.ctx.pkg.resolve_expr_global(self.module, node.func)
        last = r.qual.split(".")[-1] if r.kind in ("lib", "builtin", "stdlib") else ""
        if last == "isinstance" and len(node.args) == 2 and len(args) == 2:
            return self.sc.get("isinstance", {}).get((args[0], norm(node.args[1]).split(".")[-1]), UNKNOWN_)
        if last == "iscoroutinefunction" and args:
            if args[0] == "FUNC" or "iscoroutinefunction" not in self.sc:
                return self.sc.get("iscoroutinefunction", UNKNOWN_)
            # asked about something derived from the callable (what it wraps, an attribute of it): that says nothing about
            # what calling the callable itself returns, so the scenario answers the opposite
            return not self.sc["iscoroutinefunction"]
        if last == "cast" and len(args) == 2:
            return args[1]
        if r.kind == "stdlib" and last in ("unwrap", "getattr") and args and args[0] == "FUNC":
            return ("derived", last, "FUNC")
        if r.kind == "lib":
            u_ = self.ctx.pkg.lib_unit(r.qual)
            if u_ is not None:
                last = self.ctx.pkg.canonical(u_).split(".")[-1]  # (under its anchor name when it was renamed / moved)
            return ("lib", last, self._args(node, env))
        if isinstance(node.func, ast.Attribute) and self.cls is not None and node.func.attr in self.cls.methods \
                and (ev.eval(node.func.value, env) == "SELF" or norm(node.func.value) == self.cls.name) \
                and "@f:" + node.func.attr not in env:
            # a helper kept as a static method of the wrapper class: the library function it is (by its anchor name)
            m_ = self.cls.methods[node.func.attr]
            if m_.is_static():
                return ("lib", self.ctx.pkg.canonical(m_).split(".")[-1], self._args(node, env))
        callee = ev.eval(node.func, env)
        if callee in ("FUNC", "CACHED") or (isinstance(callee, tuple) and callee[:1] in (("meth",), ("lib",))):
            return ("call", callee, self._args(node, env))
        return UNKNOWN_

    def visit(self, node, env, ev):
        if node.kind == "call":
            callee = ev.eval(node.ast.func, env)
            if callee in ("FUNC", "CACHED"):
                env["@calls"] = env.get("@calls", ()) + ((callee, self._args(node.ast, env)),)


def _adapter_run(ctx, u, scenario, env, skip=()):
    ops = _AdapterOps(ctx, u.module, scenario, cls=u.cls)
    return Machine(cfg_of(u), ops, resolver=make_resolver(ctx, u, ops, skip=skip)).run(env)


def r03_3(ctx) -> None:
    SKIP = ("force_async", "await_value", "awaitify", "aiter")
    # --- aiter: the asynchronous protocol wins; everything else goes through the sync wrapper
    u = ctx.unit("_core.aiter")
    p = u.param_names()[0]
    wrapper = ctx.pkg.canonical(ctx.unit("_core._aiter_sync")).split(".")[-1]  # (the model names library units by their anchor)
    for is_async in (True, False):
        ctx.count("adapter_cells")
        outs = _adapter_run(ctx, u, {"isinstance": {("SUBJECT", "AsyncIterable"): is_async, ("SUBJECT", "AsyncIterator"): is_async}},
                            {p: "SUBJECT"}, SKIP)
        got = {oc.returned if oc.terminal.kind == "exit" else ("raises", str(oc.raised)) for oc in outs}
        want = ("call", ("meth", "SUBJECT", "__aiter__"), ()) if is_async else \
            ("call", ("meth", ("lib", wrapper, ("SUBJECT",)), "__aiter__"), ())
        alt = ("lib", wrapper, ("SUBJECT",))  # the wrapper generator is its own iterator
        ctx.check(got == {want} or (not is_async and got == {alt}), "R03.3", u, "aiter",
                  f"[{'async' if is_async else 'not async'} iterable] aiter returns " + (
                      "the object's own async iterator" if is_async else
                      "the library's wrapper generator around the synchronous iterable"), witness=str(sorted(map(str, got))))
    s = ctx.unit("_core._aiter_sync")
    # the wrapper as a table: every item of the synchronous iterable, once, in order (abstract evaluation)
    from . import tooltables
    tooltables.sync_wrapper_table(ctx, "R03.3")
    ctx.floor("adapter_table_cells_decided", 8)
    # ... and it hands the iterable to Python's own iteration protocol (a ``for`` loop or iter()), so that
    # iterators and __getitem__ sequences both work
    loops = [n for n in own_nodes(s.node) if isinstance(n, ast.For) and norm(n.iter) == s.param_names()[0]]
    iters = [n for n in own_nodes(s.node) if isinstance(n, ast.Call) and norm(n.func) == "iter" and len(n.args) == 1
             and norm(n.args[0]) == s.param_names()[0]]
    ok = (len(loops) + len(iters)) == 1 and s.kind == "asyncgen"
    ctx.check(ok, "R03.3", s, "_aiter_sync", "the sync wrapper iterates with a plain `for` (so iterators and "
              "__getitem__ sequences both work) and yields every item unchanged")
    r03_3_awaitify(ctx)


def r03_3_awaitify(ctx) -> None:
    """the adapter for callables as a table (shared by C14: every exit registered with an ExitStack goes through it)"""
    SKIP = ("force_async", "await_value", "awaitify", "aiter")
    # --- awaitify: coroutine functions pass, everything else is wrapped for run-time detection
    w = ctx.unit("_core.awaitify")
    p = w.param_names()[0]
    # the table below is about the function as written: a decorator around it (a cache keyed on the callable, say) would reject
    # unhashable callable objects and hand one wrapper - with its remembered sync / async decision - to every use
    deco = [norm(d) for d in getattr(w.node, "decorator_list", []) if norm(d).split(".")[-1].split("(")[0] not in ("overload",)]
    ctx.check(not deco, "R03.3", w, "awaitify", "awaitify is used as written, no decorator stands between the tools and the adapter "
              "(a cache keyed on the callable rejects unhashable callable objects and shares one wrapper between uses)",
              witness=str(deco))
    for is_coro in (True, False):
        ctx.count("adapter_cells")
        outs = _adapter_run(ctx, w, {"iscoroutinefunction": is_coro}, {p: "FUNC"}, SKIP)
        got = {oc.returned if oc.terminal.kind == "exit" else ("raises", str(oc.raised)) for oc in outs}
        want = "FUNC" if is_coro else ("lib", "Awaitify", ("FUNC",))
        ctx.check(got == {want}, "R03.3", w, "awaitify",
                  f"[{'coroutine function' if is_coro else 'other callable'}] awaitify " + (
                      "passes it through" if is_coro else "wraps it for run-time detection"), witness=str(sorted(map(str, got))))
    # --- Awaitify.__call__
    a = ctx.inlined(ctx.unit("_core.Awaitify.__call__"))  # (the first-call probe may be a private step)
    info = a.cls
    init = info.methods.get("__init__")
    me = a.param_names()[0]
    va = a.node.args.vararg.arg if a.node.args.vararg else None
    kw = a.node.args.kwarg.arg if a.node.args.kwarg else None
    if init is None or va is None or kw is None:
        ctx.fail("R03.3", a, "__call__", "the awaitify wrapper takes (*args, **kwargs): it stands for a callable that is called with "
                 "whatever its caller passes (R03.13)")
        return
    # field roles from __init__: the field bound to the parameter is the wrapped callable, the one bound to None the cache
    wrapped = cache = None
    for st in own_nodes(init.node):
        tg = st.targets[0] if isinstance(st, ast.Assign) else st.target if isinstance(st, ast.AnnAssign) else None
        if isinstance(tg, ast.Attribute) and getattr(st, "value", None) is not None:
            if isinstance(st.value, ast.Name) and st.value.id in init.param_names()[1:]:
                wrapped = tg.attr
            if isinstance(st.value, ast.Constant) and st.value.value is None:
                cache = tg.attr
    if wrapped is None or cache is None:
        raise AnalysisError("_core.Awaitify.__init__: wrapped-callable / cache fields not found (anchor moved)")
    star = (("*", "ARGS"), ("**", "KWARGS"))
    base = {me: "SELF", va: "ARGS", kw: "KWARGS", "@f:" + wrapped: "FUNC"}
    ctx.count("adapter_cells")
    outs = _adapter_run(ctx, a, {}, dict(base, **{"@f:" + cache: "CACHED"}), SKIP)
    got = {(oc.returned, oc.env.get("@calls", ())) for oc in outs if oc.terminal.kind == "exit"}
    ctx.check(got == {(("call", "CACHED", star), (("CACHED", star),))} and all(oc.terminal.kind == "exit" for oc in outs),
              "R03.3", a, "__call__", "[kind already known] the remembered callable is invoked exactly once with the call's "
              "arguments and its result returned", witness=str(sorted(map(str, got))))
    for awaitable in (True, False):
        ctx.count("adapter_cells")
        result = ("call", "FUNC", star)
        outs = _adapter_run(ctx, a, {"isinstance": {(result, "Awaitable"): awaitable}}, dict(base, **{"@f:" + cache: None}), SKIP)
        got = {(oc.returned, oc.env.get("@calls", ()), oc.env.get("@f:" + cache)) for oc in outs if oc.terminal.kind == "exit"}
        if awaitable:
            want = (result, (("FUNC", star),), "FUNC")
            text = "an awaitable result is returned itself and the callable is remembered as asynchronous"
        else:
            want = (("lib", "await_value", (result,)), (("FUNC", star),), ("lib", "force_async", ("FUNC",)))
            text = ("a plain result is wrapped in a library coroutine (never returned as a plain value) and the callable is "
                    "remembered as synchronous")
        ctx.check(got == {want} and all(oc.terminal.kind == "exit" for oc in outs), "R03.3", a, "__call__",
                  f"[first call, {'awaitable' if awaitable else 'plain'} result] the wrapped callable is invoked exactly once, "
                  "the decision is isinstance(result, Awaitable): " + text, witness=str(sorted(map(str, got)))[:400])
    f = ctx.unit("_core.force_async.async_wrapped")
    fa_ = ctx.unit("_core.force_async")
    callee = fa_.param_names()[0] if fa_.param_names() else "call"
    if f.cls is not None and f.parent is None:
        # (the wrapper is an object of a private class: the callable is the field its __init__ stores)
        init_ = f.cls.methods.get("__init__")
        flds = [t.attr for st in (own_nodes(init_.node) if init_ is not None else []) if isinstance(st, ast.Assign)
                for t in st.targets if isinstance(t, ast.Attribute) and isinstance(st.value, ast.Name)
                and st.value.id in init_.param_names()[1:]]
        callee = f"{f.param_names()[0]}.{flds[0]}" if len(flds) == 1 else "?"
    ok = f.kind == "coroutine" and any(isinstance(x, ast.Return) and isinstance(x.value, ast.Call) and
                                       norm(x.value.func) == callee for x in own_nodes(f.node))
    ctx.check(ok, "R03.3", f, "async_wrapped", "force_async builds a coroutine function that calls the sync callable")


# --------------------------------------------------------------------------- R03.4
ASYNC_ITER_BASES = ("AsyncIterator", "AsyncGenerator")


def class_kind(ctx, fq: str, depth: int = 0) -> str:
    info = ctx.pkg.lib_class(fq)
    if info is None:
        return "PLAIN"
    mro = ctx.vals.mro(fq)
    names: Set[str] = set()
    for c in mro:
        names |= set(c.methods)
    bases = " ".join(b for c in mro for b in c.bases)
    kinds = []
    if ("__aenter__" in names and "__aexit__" in names) or "AsyncContextManager" in bases:
        kinds.append("ASYNC_CM")
    if "__anext__" in names or any(b in bases for b in ASYNC_ITER_BASES):
        kinds.append("ASYNC_ITER")
    if "__await__" in names:
        kinds.append("AWAITABLE")
    call = ctx.vals.find_method(fq, "__call__")
    if call is not None and call.kind == "coroutine":
        kinds.append("ASYNC_CALLABLE")
    get = ctx.vals.find_method(fq, "__get__")
    if get is not None and depth < 3 and not kinds:
        rk = {value_kind(ctx, get, r.info.get("value"), r, depth + 1)
              for r in cfg_of(get).nodes if r.kind == "return" and not r.tag}
        rk.discard("SELF")
        if rk and "PLAIN" not in rk:
            kinds.append("DESCRIPTOR->" + "/".join(sorted(rk)))
    if fq.endswith("itertools.Tee") or ("__getitem__" in names and "__iter__" in names and "ASYNC_CM" in kinds):
        kinds.append("HANDLE_OF_ASYNC_ITER")
    return "+".join(kinds) if kinds else "PLAIN"


def value_kind(ctx, unit: Unit, e, at, depth: int = 0) -> str:
    if e is None:
        return "PLAIN"
    # ``return update_wrapper(wrapper, function)``: functools.update_wrapper hands its first argument back
    if isinstance(e, ast.Call) and e.args:
        r = ctx.pkg.resolve_expr_global(unit.module, e.func)
        if r.kind == "stdlib" and r.qual in ("functools.update_wrapper",):
            return value_kind(ctx, unit, e.args[0], at, depth)
        # a private plain helper of the library that hands one of its parameters back (``return lru`` after dressing it up):
        # what the call gives is what was passed for that parameter
        t_ = ctx.pkg.lib_unit(r.qual) if r.kind == "lib" else None
        if t_ is not None and t_.kind == "sync" and t_.node.name.startswith("_") and depth < 4 and not e.keywords \
                and not any(isinstance(a_, ast.Starred) for a_ in e.args):
            rets = [x.value for x in own_nodes(t_.node) if isinstance(x, ast.Return)]
            names = t_.param_names()
            stores = {x.id for x in own_nodes(t_.node) if isinstance(x, ast.Name) and isinstance(x.ctx, ast.Store)}
            if rets and all(isinstance(v_, ast.Name) and v_.id in names and v_.id not in stores for v_ in rets):
                idx = {names.index(v_.id) for v_ in rets}
                if len(idx) == 1 and next(iter(idx)) < len(e.args):
                    return value_kind(ctx, unit, e.args[next(iter(idx))], at, depth + 1)
    v = ctx.vals.expr(unit, e, at)
    kinds = set()
    for a in v:
        k = a[0]
        if k in ("libgen", "iter", "borrowed", "genexp"):
            kinds.add("ASYNC_ITER")
        elif k in ("libcoro", "userawait"):
            kinds.add("AWAITABLE")
        elif k in ("libinst", "self"):
            kinds.add("SELF" if k == "self" else class_kind(ctx, a[1], depth))
        elif k == "libfn":
            t = ctx.pkg.lib_unit(a[1])
            if ctx.pkg.lib_class(a[1]) is not None:
                kinds.add("CLASS->" + class_kind(ctx, a[1], depth))
            elif t is None:
                kinds.add("PLAIN")
            elif t.kind == "coroutine":
                kinds.add("ASYNC_CALLABLE")
            elif t.kind == "asyncgen":
                kinds.add("ASYNC_ITER_FACTORY")
            elif depth < 4:
                kinds.add("DECORATOR->" + function_kind(ctx, t, depth + 1))
            else:
                kinds.add("PLAIN")
        elif k == "user":
            kinds.add("USER_PASSTHROUGH")
        elif k in ("scoped",):
            kinds.add("ASYNC_CM")
        elif k == "none":
            continue
        else:
            kinds.add("PLAIN")
    return "/".join(sorted(kinds)) if kinds else "PLAIN"


def function_kind(ctx, u: Unit, depth: int = 0) -> str:
    if u.kind == "coroutine":
        return "COROUTINE"
    if u.kind == "asyncgen":
        return "ASYNC_ITER"
    cfg = cfg_of(u)
    kinds = set()
    for r in cfg.nodes:
        if r.kind == "return" and not r.tag:
            kinds.add(value_kind(ctx, u, r.info.get("value"), r, depth))
    return "/".join(sorted(kinds)) if kinds else "PLAIN"


def r03_4(ctx) -> None:
    init = ctx.pkg.module("")
    table = {}
    for name in ctx.pkg.public_names():
        ctx.count("public_names")
        res = ctx.pkg.resolve_global(init, name)
        if res.kind != "lib":
            ctx.fail("R03.4", "__init__", name, f"public name `{name}` does not resolve to a library definition")
            continue
        info = ctx.pkg.lib_class(res.qual)
        if info is not None:
            kind = class_kind(ctx, res.qual)
        else:
            u = ctx.pkg.lib_unit(res.qual)
            kind = function_kind(ctx, u) if u is not None else "PLAIN"
        table[name] = kind
        ctx.check("PLAIN" not in kind.split("/") and kind != "PLAIN" and "->PLAIN" not in kind, "R03.4",
                  res.qual.replace("asyncstdlib.", ""), name,
                  f"`{name}` returns an awaitable / async iterator / async context manager ({kind})" if "PLAIN" not in kind
                  else f"public `{name}` can return a plain value instead of an awaitable, async iterator or async "
                       f"context manager (kind {kind})")
    ctx.tables["return kinds"] = table


# --------------------------------------------------------------------------- R03.5
class _NoAcloseOps:
    """The element is an async iterator WITHOUT ``aclose`` (a bare class-based iterator)."""

    def call(self, name, args, kwargs, e, env):
        if name == "isinstance" and len(e.args) == 2:
            kinds = e.args[1].elts if isinstance(e.args[1], ast.Tuple) else [e.args[1]]
            names = [norm(k).split(".")[-1] for k in kinds]
            if any(k in ("AsyncIterator", "AsyncIterable") for k in names):
                return True
            if all(k in ("ACloseable", "AsyncGenerator", "AClose") for k in names):
                return False
        if name == "hasattr" and len(e.args) == 2 and isinstance(e.args[1], ast.Constant):
            return e.args[1].value in ("__anext__", "__aiter__")
        return UNKNOWN_


def r03_5(ctx) -> None:
    """A class-based async iterator need not have ``aclose``: the attribute is only looked up on
    a user's object where it is known to exist (or its absence is handled)."""
    from asl.flow import find_path, pretty_path
    from .common import abstract_values
    ctx.rule("R03.5", "`.aclose` is looked up on a user's iterator only under a guard that it exists (isinstance ACloseable / "
                      "hasattr / AttributeError handler / filtered collection / declared type)")
    for u in real_units(ctx):
        cfg = cfg_of(u)
        for n in cfg.nodes:
            if n.kind != "attr" or n.tag or n.ast.attr != "aclose":
                continue
            from .common import uncast
            recv = uncast(n.ast.value)
            v = ctx.vals.expr(u, recv, n)
            if not any(a[0] in ("user", "iter", "item") for a in v):
                continue
            # a parameter of an internal helper stands for what its call sites pass
            through = set()
            for a in v:
                owner, _, pname = str(a[1]).partition(":") if a[0] in ("user", "iter", "item") else ("", "", "")
                ou = ctx.pkg.unit(owner) if owner and ctx.pkg.has_unit(owner) else None
                b = bindings(ctx, ou, pname.rstrip("[]")) if ou is not None and _is_internal(ou) and ou.cls is None else None
                if b:
                    for bv in b:
                        through |= set(bv)
                else:
                    through.add(a)
            v = frozenset(through)
            if not any(a[0] in ("user", "iter", "item") for a in v):
                continue
            ctx.count("aclose_lookups")
            why = _aclose_guard(ctx, u, cfg, n, recv, v, find_path, abstract_values)
            ctx.check(bool(why), "R03.5", u, n.ast,
                      f"`{norm(n.ast)}`: {why}" if why else
                      f"`{norm(n.ast)}` is looked up on a user-supplied iterator that need not have it: a class-based async "
                      "iterator without aclose raises AttributeError where a generator works", node=n)


def _aclose_guard(ctx, u, cfg, n, recv, v, find_path, abstract_values) -> str:
    # g1: the lookup is protected by an AttributeError handler
    for (k, a) in n.regions:
        if k == "try_body" and any(h.type is not None and "AttributeError" in norm(h.type) for h in a.handlers):
            return "absence is handled (AttributeError handler)"
    # g2: every path to the lookup passes the true edge of isinstance(x, ACloseable..) / hasattr(x, "aclose")
    rtext = norm(recv)

    def establishes(b) -> bool:
        e = b.ast
        if not isinstance(e, ast.Call) or len(e.args) != 2:
            return False
        f = norm(e.func)
        if f == "isinstance":
            kinds = e.args[1].elts if isinstance(e.args[1], ast.Tuple) else [e.args[1]]
            return all(norm(k).split(".")[-1] in ("ACloseable", "AsyncGenerator", "AClose") for k in kinds) and _same(e.args[0], rtext, u, cfg, b)
        if f == "hasattr":
            return isinstance(e.args[1], ast.Constant) and e.args[1].value == "aclose" and _same(e.args[0], rtext, u, cfg, b)
        return False

    tests = {b for b in cfg.nodes if b.kind == "branch" and establishes(b)}
    if tests:
        path = find_path(cfg.entry, lambda x: x is n, edge_ok=lambda a, lab, b: lab not in ("e", "p") and not (a in tests and lab == "t"))
        if path is None:
            return "guarded by an isinstance/hasattr test on every path"
    # g3: the declared type of the parameter / field guarantees aclose
    for a in v:
        if a[0] in ("user", "iter", "item") and ":" in str(a[1]):
            owner, _, pname = a[1].partition(":")
            pname = pname.rstrip("[]")
            ou = ctx.pkg.unit(owner) if ctx.pkg.has_unit(owner) else None
            ann = next((p.annotation for p in ou.params() if p.arg == pname), None) if ou is not None else None
            text = norm(ann) if ann is not None else ""
            if any(k in text for k in ("AClose", "ACloseable", "AsyncGenerator")) and "AsyncIterator" not in text.replace("AsyncGenerator", ""):
                return f"declared type `{text}` has aclose"
    # g4: an element of a field collection whose filter keeps only closeable objects (the collection may be iterated
    # directly, or as part of a display ``(*self._owned, self._own_generator)`` whose other entries the library made itself)
    loops = [a for (k, a) in n.regions if k == "loop" and isinstance(a, ast.For)]
    for loop in loops:
        if not (isinstance(recv, ast.Name) and isinstance(loop.target, ast.Name) and loop.target.id == recv.id and u.cls is not None):
            continue
        it = loop.iter
        if isinstance(it, ast.Name):
            from .common import inline_locals
            head = next((x for x in cfg.nodes if x.kind in ("iter", "pull", "loop", "for") and getattr(x, "stmt", None) is loop), n)
            it = inline_locals(ctx, u, cfg, head, it, depth=1)
        entries = list(it.elts) if isinstance(it, (ast.Tuple, ast.List)) else [ast.Starred(value=it, ctx=ast.Load())]
        reasons = []
        for e in entries:
            if isinstance(e, ast.Starred) and isinstance(e.value, ast.Attribute) and norm(e.value.value) == "self":
                why = _field_elements_closeable(ctx, u, e.value.attr, find_path, abstract_values)
            elif isinstance(e, ast.Attribute) and norm(e.value) == "self":
                fv = ctx.vals.expr(u, e, n)
                why = "" if (not fv or any(a[0] in ("user", "iter", "item", "unknown") for a in fv)) else \
                    f"self.{e.attr} is an object the library made itself"
            else:
                why = ""
            if not why:
                reasons = []
                break
            reasons.append(why)
        if reasons:
            return "; ".join(dict.fromkeys(reasons))
    # g5: a field of a class that is only constructed under a hasattr(x, "aclose") guard
    if isinstance(recv, ast.Name):
        from .common import inline_locals
        recv = inline_locals(ctx, u, cfg, n, recv)  # (``iterator = self._iterator; await iterator.aclose()``)
    if isinstance(recv, ast.Attribute) and norm(recv.value) == "self" and u.cls is not None:
        sites = 0
        guarded = 0
        for w in real_units(ctx):
            for c in own_nodes(w.node):
                if isinstance(c, ast.Call) and ctx.pkg.resolve_expr_global(w.module, c.func).node is u.cls.node:
                    sites += 1
                    wcfg = cfg_of(w)
                    cn = next((x for x in wcfg.nodes if x.kind == "call" and x.ast is c and not x.tag), None)
                    from .common import hasattr_branches
                    tests2 = set(hasattr_branches(ctx, w, wcfg))
                    if cn is not None and tests2 and find_path(
                            wcfg.entry, lambda x: x is cn, edge_ok=lambda a, lab, b: lab not in ("e", "p") and not (a in tests2 and lab == "t")) is None:
                        guarded += 1
        if sites and sites == guarded:
            return f"{u.cls.name} is only constructed for objects that have aclose (hasattr guard at every construction site)"
    return ""


def _field_elements_closeable(ctx, u, attr: str, find_path, abstract_values) -> str:
    """why every element of the collection ``self.<attr>`` (built in ``__init__``) has ``aclose``, or ''"""
    init = u.cls.methods.get("__init__")
    if init is not None:
        init = ctx.inlined(init)  # the collection may be built by a private helper
    for st in (own_nodes(init.node) if init is not None else []):
        tg = st.targets[0] if isinstance(st, ast.Assign) else st.target if isinstance(st, ast.AnnAssign) else None
        if isinstance(tg, ast.Attribute) and tg.attr == attr and st.value is not None:
            if isinstance(st.value, ast.Name):
                from .common import name_value
                icfg = cfg_of(init)
                at = next((x for x in icfg.nodes if x.kind == "store" and not x.tag and x.stmt is st), None)
                alias = name_value(ctx, init, icfg, at, st.value.id) if at is not None else None
                if alias is not None:
                    st = ast.copy_location(ast.Assign(targets=[tg], value=alias), st)
            comps = [c for c in ast.walk(st.value) if isinstance(c, (ast.GeneratorExp, ast.ListComp))]
            conds = [c for comp in comps for g in comp.generators for c in g.ifs]
            if conds and all(abstract_values(ctx, init, _NoAcloseOps(), c, {}) == {False} for c in conds):
                return f"elements of self.{tg.attr} are filtered to objects that have aclose"
            # ``tuple(filter(predicate, xs))``: the predicate says "no" to an object without aclose
            filters = [c for c in ast.walk(st.value) if isinstance(c, ast.Call) and norm(c.func) == "filter" and len(c.args) == 2]
            probes = []
            for f_ in filters:
                pr = ast.copy_location(ast.Call(func=f_.args[0], args=[ast.Name(id="<element>", ctx=ast.Load())], keywords=[]), f_)
                ast.fix_missing_locations(pr)
                probes.append(pr)
            if probes and all(abstract_values(ctx, init, _NoAcloseOps(), pr, {}) == {False} for pr in probes):
                return f"elements of self.{tg.attr} are filtered to objects that have aclose"
            if _built_from_guarded_appends(ctx, init, st, find_path):
                return f"elements of self.{tg.attr} are appended only after an isinstance/hasattr test for aclose"
    return ""


def _built_from_guarded_appends(ctx, init, st, find_path) -> bool:
    """``self.f = tuple(L)`` / ``list(L)`` / ``L`` where L is a local list that only receives
    objects under the true edge of a test that they have aclose."""
    val = st.value
    if isinstance(val, ast.Call) and norm(val.func) in ("tuple", "list") and len(val.args) == 1:
        val = val.args[0]
    if not isinstance(val, ast.Name):
        return False
    cfg = cfg_of(init)
    adds = [n for n in cfg.nodes if n.kind == "call" and not n.tag and isinstance(n.ast.func, ast.Attribute)
            and isinstance(n.ast.func.value, ast.Name) and n.ast.func.value.id == val.id
            and n.ast.func.attr in ("append", "add", "appendleft", "insert", "extend")]
    if not adds:
        return False
    for a_ in adds:
        if a_.ast.func.attr not in ("append", "add", "appendleft") or len(a_.ast.args) != 1:
            return False
        x = norm(a_.ast.args[0] if not (isinstance(a_.ast.args[0], ast.Call) and norm(a_.ast.args[0].func) in ("cast", "typing.cast"))
                 else a_.ast.args[0].args[1])

        def establishes(b, x=x) -> bool:
            e = b.ast
            if not isinstance(e, ast.Call) or len(e.args) != 2 or norm(e.args[0]) != x:
                return False
            if norm(e.func) == "isinstance":
                kinds = e.args[1].elts if isinstance(e.args[1], ast.Tuple) else [e.args[1]]
                return all(norm(k).split(".")[-1] in ("ACloseable", "AsyncGenerator", "AClose") for k in kinds)
            return norm(e.func) == "hasattr" and isinstance(e.args[1], ast.Constant) and e.args[1].value == "aclose"

        tests = {b for b in cfg.nodes if b.kind == "branch" and establishes(b)}
        if not tests or find_path(cfg.entry, lambda y, a_=a_: y is a_,
                                  edge_ok=lambda p_, lab, q: lab not in ("e", "p") and not (p_ in tests and lab == "t")) is not None:
            return False
    return True


def _same(e, rtext: str, u, cfg, at) -> bool:
    """``e`` denotes the same object as the receiver text (directly or through a local alias)."""
    if norm(e) == rtext:
        return True
    if isinstance(e, ast.NamedExpr):
        return norm(e.target) == rtext or norm(e.value) == rtext
    return False
