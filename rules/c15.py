"""C15 — context managers as decorators wrap every call in a fresh, paired context.

The statement is a code shape:

R15.1 in ``ContextDecorator.__call__``'s inner coroutine the manager entered is the value of
      a ``_recreate_cm()`` call evaluated *inside* the inner function (per call, not
      hoisted); the decorated function is awaited inside the ``async with`` body with
      ``*args, **kwds`` forwarded completely; its result is returned; nothing is caught.
R15.2 ``_AsyncGeneratorContextManager._recreate_cm`` returns a new instance of its own type
      built from exactly the triple ``__init__`` stored; ``__init__`` stores the triple it
      received and creates the generator by calling ``func(*args, **kwds)`` — a fresh
      generator per instance; no path returns ``self``.
R15.3 ``contextmanager(func)`` returns a helper that constructs the manager from its own
      call arguments on every call (no caching of an instance).
R15.4 sibling check: every ContextDecorator subclass in the package that holds a one-shot
      resource overrides ``_recreate_cm``.
"""
from __future__ import annotations

import ast

from asl.absint import UNKNOWN, AbsEval, Machine
from asl.cfg import cfg_of
from asl.loader import AnalysisError, norm, own_nodes
from .common import make_resolver, name_value

LEVEL = {
    "decided": "C15: (R15.1) the decorator wrapper re-creates the manager inside every call, awaits the decorated "
               "function inside the async-with with all arguments, returns its result and catches nothing; (R15.2) the "
               "generator-based manager re-creates itself from the stored (func, args, kwds) and builds a fresh generator "
               "per instance; (R15.3) contextmanager() builds a new manager per helper call; (R15.4) subclasses with "
               "one-shot state override _recreate_cm; (R15.5) each call's exit passes the body's exception to the context "
               "and honours suppression (C13's exit table, shared).",
    "not_decided": "that enter/exit pair up at run time is the language's async-with guarantee; what user-defined "
                   "ContextDecorator subclasses do in _recreate_cm.",
    "technique": "static analysis: structural rules over the decorator wrapper and its re-creation chain",
}
LEVEL["decided"] += ' (R15.6) the stored constructor arguments, shared by every call, are never rebound or mutated after construction.'


def run(ctx) -> None:
    for rid, text in (("R15.1", "per-call re-creation inside the wrapper; full forwarding; nothing caught"),
                      ("R15.2", "fresh instance from the stored triple; fresh generator per instance"),
                      ("R15.3", "contextmanager builds a manager per call"), ("R15.4", "one-shot subclasses override _recreate_cm")):
        ctx.rule(rid, text)
    ctx.assume("async with enters before the body and exits after it with the body's exception (language semantics)")
    r15_1(ctx)
    r15_2(ctx)
    r15_3(ctx)
    r15_4(ctx)
    r15_6(ctx)
    ctx.floor("recreate_fields", 1)
    # the exit every decorated call performs is the generator-based manager's: "exits it with the
    # body's exception ... propagates unless the context suppresses it" is C13's decision table
    from . import c13
    from .common import Relabel
    ctx.rule("R15.5", "the exit of each decorated call hands the body's exception to the context and honours its decision "
                      "(the contextmanager exit table of C13, shared)")
    c13.run(Relabel(ctx, "R15.5"))


def recreate_name(ctx) -> str:
    """Name of the re-creation hook: the zero-argument method of ``self`` that the per-call
    wrapper of ``ContextDecorator.__call__`` enters (``async with self.<hook>():``)."""
    cached = ctx.__dict__.get("_recreate_name")
    if cached:
        return cached
    outer = ctx.unit("contextlib.ContextDecorator.__call__")
    name = None
    for w in [u for u in outer.module.units.values() if u.parent is outer and u.kind == "coroutine"]:
        for c in own_nodes(w.node):
            if isinstance(c, ast.Call) and isinstance(c.func, ast.Attribute) and norm(c.func.value) == "self" and not c.args \
                    and outer.cls is not None and c.func.attr in outer.cls.methods:
                name = c.func.attr
    if name is None and outer.cls is not None:
        # the wrapper does not call it (that is what R15.1 will report): the hook is the one other
        # zero-argument method the decorator base class defines
        others = [m for k, m in outer.cls.methods.items() if k != "__call__" and len(m.param_names()) == 1]
        if len(others) == 1:
            name = others[0].node.name
    if name is None:
        name = "_recreate_cm"
    ctx.__dict__["_recreate_name"] = name
    return name


def r15_1(ctx) -> None:
    RN = recreate_name(ctx)
    outer = ctx.unit("contextlib.ContextDecorator.__call__")
    inner = [u for u in outer.module.units.values() if u.parent is outer and u.kind in ("coroutine", "asyncgen", "sync")]
    ctx.check(len(inner) == 1 and inner[0].kind == "coroutine", "R15.1", outer, "__call__",
              "the decorator returns exactly one coroutine wrapper")
    if len(inner) != 1:
        return
    w = ctx.inlined(inner[0], keep=(RN,))  # (the body may live in a private coroutine the wrapper awaits)
    fname = outer.param_names()[1]
    withs = [n for n in own_nodes(w.node) if isinstance(n, ast.AsyncWith)]
    ctx.check(len(withs) == 1 and len(withs[0].items) == 1, "R15.1", w, "inner", "each call runs inside one async with")
    if len(withs) != 1:
        return
    cm = withs[0].items[0].context_expr
    if isinstance(cm, ast.Name):
        # the manager may be bound to a local first - as long as that happens inside the wrapper
        wcfg = cfg_of(w)
        enters = [n for n in wcfg.nodes if n.kind == "enter" and not n.tag]
        bound = name_value(ctx, w, wcfg, enters[0], cm.id) if enters else None
        cm = bound if bound is not None else cm
    ok = isinstance(cm, ast.Call) and isinstance(cm.func, ast.Attribute) and cm.func.attr == RN \
        and norm(cm.func.value) == "self" and not cm.args
    ctx.check(ok, "R15.1", w, cm, "the context entered is a manager re-created inside the call (self._recreate_cm())")
    hoisted = [n for n in own_nodes(outer.node) if isinstance(n, ast.Call) and norm(n.func).endswith(RN)]
    ctx.check(not hoisted, "R15.1", outer, hoisted[0] if hoisted else "__call__",
              "the manager is not re-created once at decoration time (hoisted out of the per-call wrapper)")
    awaits = [n for n in own_nodes(w.node) if isinstance(n, ast.Await)]
    inside = [a for a in awaits if any(a is x for s in withs[0].body for x in ast.walk(s))]
    va = w.node.args.vararg.arg if w.node.args.vararg else None
    kw = w.node.args.kwarg.arg if w.node.args.kwarg else None
    good = [a for a in inside if isinstance(a.value, ast.Call) and norm(a.value.func) == fname
            and any(isinstance(x, ast.Starred) and norm(x.value) == va for x in a.value.args)
            and any(k.arg is None and norm(k.value) == kw for k in a.value.keywords)
            and len(a.value.args) == 1 and len(a.value.keywords) == 1]
    ctx.check(len(good) == 1 and len(awaits) == 1, "R15.1", w, awaits[0] if awaits else "inner",
              "the decorated function is awaited exactly once, inside the context, with *args and **kwds unchanged")
    # (falling off the end after a context that swallowed the exception returns None, implicitly or spelled out)
    last = w.node.body[-1] if w.node.body else None
    rets = [n for n in own_nodes(w.node) if isinstance(n, ast.Return)
            and not (n is last and (n.value is None or (isinstance(n.value, ast.Constant) and n.value.value is None)))]
    ctx.check(len(rets) == 1 and good and rets[0].value is good[0] if good else False, "R15.1", w, rets[0] if rets else "inner",
              "the function's result is returned")
    tries = [n for n in own_nodes(w.node) if isinstance(n, ast.Try)]
    ctx.check(not tries, "R15.1", w, tries[0] if tries else "inner", "the wrapper catches nothing: exceptions reach the "
              "context's exit and then the caller")
    # the wrapper is what the decorator returns
    orets = [n for n in own_nodes(outer.node) if isinstance(n, ast.Return)]
    ctx.check(len(orets) == 1 and norm(orets[0].value) == w.node.name, "R15.1", outer, orets[0] if orets else "__call__",
              "the decorator returns the per-call wrapper")
    base = ctx.unit(f"contextlib.ContextDecorator.{RN}")
    brets = [n for n in own_nodes(base.node) if isinstance(n, ast.Return)]
    ctx.check(len(brets) == 1 and norm(brets[0].value) == "self", "R15.1", base, "_recreate_cm",
              "the documented default for re-entrant managers returns self")


class _RecreateOps:
    """Object model for the generator-based manager: SELF with fields, the constructor
    arguments FUNC / ARGS / KWDS as opaque values."""

    def attr(self, value, name, node, env):
        if value == "SELF":
            if name == "__class__":
                return ("type", "SELF")
            return env.get("@f:" + name, UNKNOWN)
        return UNKNOWN

    def store(self, target, value, env, ev):
        if isinstance(target, ast.Attribute) and ev.eval(target.value, env) == "SELF":
            env["@f:" + target.attr] = value

    def call(self, func, args, kwargs, node, env):
        ev = AbsEval(self)
        callee = ev.eval(node.func, env)
        if func == "type" and args == ["SELF"]:
            return ("type", "SELF")
        flat = []
        for a in node.args:
            if isinstance(a, ast.Starred):
                v = ev.eval(a.value, env)
                if isinstance(v, tuple) and not (v and isinstance(v[0], str) and v[0] in ("type", "new", "call")):
                    flat.extend(v)
                else:
                    flat.append(("*", v))
            else:
                flat.append(ev.eval(a, env))
        kws = tuple((k.arg, ev.eval(k.value, env)) if k.arg else ("**", ev.eval(k.value, env)) for k in node.keywords)
        if callee == ("type", "SELF"):
            return ("new", callee, tuple(flat), kws)
        if callee == "FUNC":
            return ("call", "FUNC", tuple(flat), kws)
        if func == "cast" and len(args) == 2:
            return args[1]
        return UNKNOWN


def r15_2(ctx) -> None:
    info = ctx.pkg.cls("contextlib._AsyncGeneratorContextManager")
    init, rec = info.methods.get("__init__"), info.methods.get(recreate_name(ctx))
    if init is None:
        raise AnalysisError("_AsyncGeneratorContextManager.__init__ missing (anchor moved)")
    if rec is None:
        ctx.fail("R15.2", "contextlib._AsyncGeneratorContextManager", "_recreate_cm",
                 "the generator-based manager does not override _recreate_cm: the inherited default returns self, so "
                 "every decorated call re-enters the same, already exhausted generator")
        return
    p = init.param_names()
    ctx.check(len(p) == 4, "R15.2", init, "__init__", "the manager is constructed from (func, args, kwds)")
    if len(p) != 4:
        return
    ops = _RecreateOps()
    outs = Machine(cfg_of(init), ops, resolver=make_resolver(ctx, init, ops)).run(
        {p[0]: "SELF", p[1]: "FUNC", p[2]: "ARGS", p[3]: "KWDS"})
    outs = [oc for oc in outs if oc.terminal.kind == "exit"]
    ctx.check(bool(outs), "R15.2", init, "__init__", "construction was evaluated")
    for oc in outs:
        fields = {k[3:]: v for k, v in oc.env.items() if k.startswith("@f:")}
        gens = [f for f, v in fields.items() if v == ("call", "FUNC", (("*", "ARGS"),), (("**", "KWDS"),))]
        ctx.check(bool(gens), "R15.2", init, "__init__", "every instance creates its own generator by calling func(*args, **kwds)",
                  witness=str({f: str(v)[:60] for f, v in fields.items()}))
        env = {k: v for k, v in oc.env.items() if k.startswith("@f:")}
        env[rec.param_names()[0]] = "SELF"
        ops2 = _RecreateOps()
        for oc2 in Machine(cfg_of(rec), ops2, resolver=make_resolver(ctx, rec, ops2)).run(env):
            got = oc2.returned if oc2.terminal.kind == "exit" else ("raises", oc2.raised)
            ok = got == ("new", ("type", "SELF"), ("FUNC", "ARGS", "KWDS"), ())
            ctx.check(ok, "R15.2", rec, "_recreate_cm",
                      "_recreate_cm returns a new instance of its own type from exactly the (func, args, kwds) that "
                      "__init__ received (never self)", witness=f"evaluated {got}")


MUTATORS = {"clear", "pop", "popitem", "update", "setdefault", "append", "extend", "insert", "remove", "sort", "reverse",
            "__setitem__", "__delitem__", "__ior__"}


def r15_6(ctx) -> None:
    """The per-call manager is built from the *same* (func, args, kwds) objects the decorating
    manager holds (``type(self)(*stored)``): they are shared by every call.  No method but
    ``__init__`` may therefore rebind the fields that hold them or mutate the objects."""
    ctx.rule("R15.6", "the stored constructor arguments are never rebound or mutated after construction (all calls share them)")
    from .c08 import _field_writes
    info = ctx.pkg.cls("contextlib._AsyncGeneratorContextManager")
    init = info.methods.get("__init__")
    p = init.param_names()
    if len(p) != 4:
        return
    ops = _RecreateOps()
    outs = [oc for oc in Machine(cfg_of(init), ops, resolver=make_resolver(ctx, init, ops)).run(
        {p[0]: "SELF", p[1]: "FUNC", p[2]: "ARGS", p[3]: "KWDS"}) if oc.terminal.kind == "exit"]
    held = set()
    for oc in outs:
        for k, v in oc.env.items():
            if k.startswith("@f:") and ("ARGS" in str(v) or "KWDS" in str(v)) and not str(v).startswith("('call'"):
                held.add(k[3:])
    ctx.check(bool(held), "R15.6", init, "__init__", "the constructor arguments are stored for re-creation", witness=str(sorted(held)))
    ctx.count("recreate_fields", len(held))
    for name, meth in info.methods.items():
        if name == "__init__":
            continue
        me = meth.param_names()[0] if meth.param_names() else "self"
        bad = []
        for fld in held:
            plain = fld.split("__")[-1] if fld.startswith("_" + info.name.lstrip("_") + "__") else fld
            for cand in {fld, "__" + plain if fld != plain else fld}:
                bad += _field_writes(meth, cand)
        # names bound (directly or by unpacking) from an expression that reads a held field
        def reads_held(e) -> bool:
            return any(isinstance(x, ast.Attribute) and isinstance(x.value, ast.Name) and x.value.id == me
                       and info.mangle(x.attr) in {info.mangle(h) for h in held} | held for x in ast.walk(e))
        tainted = set()
        for st in own_nodes(meth.node):
            if isinstance(st, (ast.Assign, ast.AnnAssign)) and st.value is not None and reads_held(st.value):
                for t in (st.targets if isinstance(st, ast.Assign) else [st.target]):
                    tainted |= {x.id for x in ast.walk(t) if isinstance(x, ast.Name)}
            if isinstance(st, ast.NamedExpr) and reads_held(st.value) and isinstance(st.target, ast.Name):
                tainted.add(st.target.id)
        for x in own_nodes(meth.node):
            if isinstance(x, ast.Call) and isinstance(x.func, ast.Attribute) and x.func.attr in MUTATORS:
                base = x.func.value
                if (isinstance(base, ast.Name) and base.id in tainted) or reads_held(base):
                    bad.append(x)
            if isinstance(x, (ast.Assign, ast.AugAssign, ast.Delete)):
                for t in (x.targets if isinstance(x, (ast.Assign, ast.Delete)) else [x.target]):
                    for sub in ast.walk(t):
                        if isinstance(sub, ast.Subscript) and ((isinstance(sub.value, ast.Name) and sub.value.id in tainted)
                                                                or reads_held(sub.value)):
                            bad.append(x)
        ctx.check(not bad, "R15.6", meth, bad[0] if bad else name,
                  f"{name} leaves the stored constructor arguments alone" if not bad else
                  f"`{norm(bad[0])}` rebinds or mutates the stored constructor arguments: the decorating manager and every "
                  "later call are built from these very objects", line=getattr(bad[0], "lineno", None) if bad else None)


def r15_3(ctx) -> None:
    u = ctx.unit("contextlib.contextmanager")
    helpers = [x for x in u.module.units.values() if x.parent is u]
    ctx.check(len(helpers) == 1, "R15.3", u, "contextmanager", "contextmanager defines one helper")
    if len(helpers) != 1:
        return
    h = helpers[0]
    f = u.param_names()[0]
    rets = [n for n in own_nodes(h.node) if isinstance(n, ast.Return)]
    va = h.node.args.vararg.arg if h.node.args.vararg else None
    kw = h.node.args.kwarg.arg if h.node.args.kwarg else None
    ok = len(rets) == 1 and isinstance(rets[0].value, ast.Call) and norm(rets[0].value.func) == ctx.pkg.cls_name("contextlib._AsyncGeneratorContextManager") \
        and [norm(a) for a in rets[0].value.args] == [f, va, kw]
    ctx.check(ok, "R15.3", h, rets[0] if rets else "helper",
              "every call of the helper constructs a new manager from the function and the call's own arguments")
    orets = [n for n in own_nodes(u.node) if isinstance(n, ast.Return)]
    ctx.check(len(orets) == 1 and norm(orets[0].value) == h.node.name, "R15.3", u, "contextmanager", "the helper is returned")
    cached = [n for n in own_nodes(u.node) if isinstance(n, ast.Call) and norm(n.func) == ctx.pkg.cls_name("contextlib._AsyncGeneratorContextManager")]
    ctx.check(not cached, "R15.3", u, cached[0] if cached else "contextmanager",
              "no manager instance is created at decoration time (nothing to share between calls)")


def r15_4(ctx) -> None:
    for mod in ctx.pkg.modules.values():
        for info in mod.classes.values():
            if info.name == "ContextDecorator":
                continue
            chain = [c.name for c in ctx.vals.mro(info.fq)]
            if "ContextDecorator" not in chain:
                continue
            ctx.count("decorator_subclasses")
            init = info.methods.get("__init__")
            one_shot = False
            if init is not None:
                for s in own_nodes(init.node):
                    if isinstance(s, ast.Assign) and isinstance(s.value, ast.Call) and any(
                            isinstance(t, ast.Attribute) for t in s.targets):
                        v = s.value
                        if isinstance(v.func, ast.Name) and v.func.id in init.param_names():
                            one_shot = True  # stores the result of calling a user factory (a generator)
            if one_shot:
                own = recreate_name(ctx) in info.methods
                ctx.check(own, "R15.4", f"{mod.short}.{info.name}", "_recreate_cm",
                          "a ContextDecorator subclass holding a one-shot resource overrides _recreate_cm")
            else:
                ctx.ok("R15.4", f"{mod.short}.{info.name}", "no one-shot state: the re-entrant default applies")
