"""C12 — cached_property computes once, serves one value to all, recomputes after del.

Premises of the hand argument (DESIGN.md §4 appendix), decided on the CFGs of the
placeholder class and the descriptor:

R12.1 double-checked locking in the placeholder's await: "the slot still holds me" test,
      acquire the lock, the same test again, then the getter — with no suspension point
      between the second test and the start of the getter call; the other branch awaits
      what is stored.
R12.2 atomic publish: the finished value is stored into the instance dict after the getter's
      await with no suspension in between, as a wrapper of the *same* value that is
      returned, and the store is unreachable from the await's exceptional successor
      (a failed or cancelled computation caches nothing).
R12.3 the lock is only held through ``async with`` (C18 R18.2, shared).
R12.4 non-data descriptor, per instance: ``CachedProperty`` defines ``__get__`` and neither
      ``__set__`` nor ``__delete__``; every value store targets ``instance.__dict__[name]``
      with the name agreed between descriptor and placeholder; nothing is stored on the
      descriptor or the class during access.
R12.5 deletion restarts through the descriptor: the KeyError branch of the slot read calls
      ``getattr(instance, name)``.
R12.6 ``AwaitableValue.__await__`` cannot reach its ``yield`` (C17 R17.2, shared).
"""
from __future__ import annotations

import ast
from typing import List, Optional, Set

from asl.cfg import Node, cfg_of
from asl.flow import find_path, pretty_path, reachable, live_nodes
from asl.loader import AnalysisError, norm, own_nodes
from . import c18

LEVEL = {
    "decided": "C12 (premises of the hand proof): (R12.1) check / lock / re-check / compute with no suspension between "
               "the re-check and the getter call; (R12.2) publish is atomic with the getter's completion, stores a wrapper "
               "of the returned value, never on the exceptional successor; (R12.3) lock only via async with; (R12.4) "
               "non-data descriptor storing only in instance.__dict__[name]; (R12.5) deletion restarts via getattr; "
               "(R12.6) the cached value's __await__ never suspends.",
    "not_decided": "the schedule-quantified conclusion (at most one getter run per cached value, all awaiters get that "
                   "value) — it follows from the premises by the atomicity argument in DESIGN.md; whole-history behaviour "
                   "of await/del/fail sequences.",
    "technique": "static analysis: double-checked-locking and atomic-publish shape rules on the CFG",
}
LEVEL["decided"] += " (R12.8) the descriptor decides 'looked up on the class' by `instance is None` only."
LEVEL["decided"] += ' (R12.9) the supplied lock is used whatever its truth value.'

PLACEHOLDER = "functools._FutureCachedPropertyValue"


def run(ctx) -> None:
    for rid, text in (("R12.1", "double-checked locking around the getter"), ("R12.2", "atomic publish after the getter"),
                      ("R12.3", "lock only through async with"), ("R12.4", "non-data descriptor, per-instance store"),
                      ("R12.5", "deletion restarts through the descriptor"), ("R12.6", "AwaitableValue never suspends")):
        ctx.rule(rid, text)
    ctx.assume("a coroutine runs without interleaving between two suspension points")
    info = ctx.pkg.cls(PLACEHOLDER)
    for m in ("__await__", "__init__"):
        if m not in info.methods:
            raise AnalysisError(f"{PLACEHOLDER}.{m} missing (anchor moved)")
    ctx.tables["placeholder roles"] = {k: (v.qualname if hasattr(v, "qualname") else v) for k, v in roles(ctx, info).items()}
    r12_1(ctx, info)
    r12_2(ctx, info)
    r12_3(ctx)
    r12_4(ctx, info)
    r12_5(ctx, info)
    r12_6(ctx)
    r12_7(ctx, info)
    from .common import descriptor_binding
    descriptor_binding(ctx, "R12.8", ("functools",))
    from . import c09
    c09.r09_8(ctx, "R12.9", "functools")  # (a supplied lock is used whatever its truth value: R09.8's rule for cached_property)
    ctx.floor("descriptors", 1)
    ctx.floor("slot_tests", 2)


def placeholder_fields(info) -> dict:
    """{'func','instance','name','lock'} -> attribute names, by the order of __init__'s parameters."""
    init = info.methods["__init__"]
    pn = init.param_names()
    roles = dict(zip(pn[1:5], ("func", "instance", "name", "lock")))
    out = {}
    for s_ in own_nodes(init.node):
        if isinstance(s_, (ast.Assign, ast.AnnAssign)):
            tgt = s_.targets[0] if isinstance(s_, ast.Assign) else s_.target
            if isinstance(tgt, ast.Attribute) and isinstance(s_.value, ast.Name) and s_.value.id in roles:
                out[roles[s_.value.id]] = tgt.attr
            elif isinstance(tgt, ast.Attribute) and s_.value is not None:
                # stored through an expression (``lock if lock is not None else NoLock()``): the one parameter it mentions
                mentioned = {x.id for x in ast.walk(s_.value) if isinstance(x, ast.Name) and x.id in roles}
                if len(mentioned) == 1:
                    out.setdefault(roles[mentioned.pop()], tgt.attr)
    if set(out) != {"func", "instance", "name", "lock"}:
        raise AnalysisError(f"placeholder __init__ no longer stores (getter, instance, name, lock): {out} (anchor moved)")
    return out


def roles(ctx, info) -> dict:
    """The private methods of the placeholder by what they do (their names are free):
    ``impl`` — the coroutine ``__await__`` delegates to; ``slot_read`` — the method / property
    reading ``instance.__dict__[name]``; plus the attribute names of ``placeholder_fields``."""
    cached = info.__dict__.get("_asl_roles")
    if cached is not None:
        return cached
    F = placeholder_fields(info)
    out = dict(F)
    aw = info.methods["__await__"]
    for r in own_nodes(aw.node):
        if isinstance(r, ast.Return) and isinstance(r.value, ast.Call) and isinstance(r.value.func, ast.Attribute) \
                and r.value.func.attr == "__await__" and isinstance(r.value.func.value, ast.Call) \
                and isinstance(r.value.func.value.func, ast.Attribute) and norm(r.value.func.value.func.value) == "self":
            out["impl"] = info.methods.get(r.value.func.value.func.attr)
    want = f"self.{F['instance']}.__dict__[self.{F['name']}]"
    from .common import inline_locals
    for m in info.methods.values():
        mcfg = None
        for x in own_nodes(m.node):
            if not (isinstance(x, ast.Subscript) and isinstance(x.ctx, ast.Load)):
                continue
            text = norm(x)
            if text != want and isinstance(x.value, ast.Name):
                # the instance dictionary held in a local first (``cache = self._instance.__dict__``)
                mcfg = mcfg or cfg_of(m)
                at = next((n for n in mcfg.nodes if not n.tag and n.stmt is not None and any(y is x for y in ast.walk(n.stmt))), None)
                if at is not None:
                    text = norm(inline_locals(ctx, m, mcfg, at, x))
            if text == want:
                out["slot_read"] = m
    if out.get("slot_read") is None and out.get("impl") is not None:
        # ... or a private module-level function that is handed (instance, name) and reads ``instance.__dict__[name]``
        for c in own_nodes(out["impl"].node):
            if not (isinstance(c, ast.Call) and isinstance(c.func, ast.Name) and len(c.args) == 2 and not c.keywords
                    and [norm(a) for a in c.args] == [f"self.{F['instance']}", f"self.{F['name']}"]):
                continue
            r = ctx.pkg.resolve_expr_global(info.module, c.func)
            t = ctx.pkg.lib_unit(r.qual) if r.kind == "lib" else None
            if t is None or t.kind != "sync" or len(t.param_names()) != 2:
                continue
            a0, a1 = t.param_names()
            if any(isinstance(x, ast.Subscript) and isinstance(x.ctx, ast.Load) and norm(x) == f"{a0}.__dict__[{a1}]" for x in own_nodes(t.node)):
                out["slot_read"] = t
                out["slot_is_function"] = True
    if out.get("impl") is None or out.get("slot_read") is None:
        raise AnalysisError(f"{PLACEHOLDER}: cannot identify the await implementation / the slot read (anchor moved)")
    out["slot_name"] = out["slot_read"].qualname.rsplit(".", 1)[-1]
    info.__dict__["_asl_roles"] = out
    return out


_SLOT = {"name": "_instance_value", "function": False}


def _reads_slot(text: str) -> bool:
    """the expression text reads the slot through the derived accessor (a property / method of the placeholder, or a
    module-level function handed the instance and the name)"""
    return (f"{_SLOT['name']}(" in text) if _SLOT.get("function") else (f".{_SLOT['name']}" in text)


def _is_slot_test(n: Node, cfg=None) -> bool:
    """branch on `<slot read> is self` (or `self is <slot read>`)."""
    if n.kind != "branch" or not isinstance(n.ast, ast.Compare) or len(n.ast.ops) != 1:
        return False
    if not isinstance(n.ast.ops[0], (ast.Is, ast.IsNot)):
        return False
    sides = [n.ast.left, n.ast.comparators[0]]
    has_self = any(isinstance(s, ast.Name) and s.id == "self" for s in sides)
    other = [s for s in sides if not (isinstance(s, ast.Name) and s.id == "self")]
    if not has_self or len(other) != 1:
        return False
    text = norm(other[0])
    if _reads_slot(text) or "__dict__" in text:
        return True
    if isinstance(other[0], ast.Name) and cfg is not None:
        from asl.flow import reaching
        defs = reaching(cfg).defs_at(n, other[0].id)
        vals = [norm(d.info.get("value")) for d in defs if d.kind == "store"]
        return bool(vals) and all(_reads_slot(v) or "__dict__" in v for v in vals)
    return False


def _held_edge(n: Node) -> str:
    """label of the edge on which the slot still holds the placeholder"""
    return "t" if isinstance(n.ast.ops[0], ast.Is) else "f"  # type: ignore[union-attr]


def _impl_view(ctx, info):
    """The await implementation with its private helper coroutines inlined (the computation
    may or may not sit in a helper of its own)."""
    R = roles(ctx, info)
    _SLOT["name"] = R["slot_name"]
    _SLOT["function"] = bool(R.get("slot_is_function"))
    return ctx.inlined(R["impl"], keep=(R["slot_name"],))


def _getter_awaits(ctx, u, main, F):
    return [n for n in main if n.kind == "await" and norm(n.info.get("value")) == f"self.{F['func']}(self.{F['instance']})"]


def r12_1(ctx, info) -> None:
    F = placeholder_fields(info)
    u = _impl_view(ctx, info)
    cfg = cfg_of(u)
    main = [n for n in cfg.nodes if not n.tag]
    getters = _getter_awaits(ctx, u, main, F)
    enters = [n for n in main if n.kind == "enter" and norm(n.info.get("cm")) == f"self.{F['lock']}"]
    tests = [n for n in main if _is_slot_test(n, cfg)]
    ctx.count("slot_tests", len(tests))
    ctx.check(len(getters) >= 1, "R12.1", u, "_await_impl", "the computation is started from _await_impl")
    ctx.check(len(enters) >= 1, "R12.1", u, "_await_impl", "the lock is taken around the computation")
    for g in getters:
        in_lock = any(k == "with" and norm(a.context_expr) == f"self.{F['lock']}" for (k, a) in g.regions)
        ctx.check(in_lock, "R12.1", u, g, "the getter runs while the lock is held", node=g)
        for e in enters:
            path = find_path(e, lambda x: x is g, avoid=None,
                             edge_ok=lambda a, lab, b: lab not in ("e", "p") and not (a in tests and lab == _held_edge(a)))
            ctx.check(path is None, "R12.1", u, g,
                      "after acquiring the lock the slot is tested again and the getter is started only if it still "
                      "holds this placeholder", node=g, witness=pretty_path(path))
        # first check (before the lock): getter unreachable without passing a slot test at all
        path0 = find_path(cfg.entry, lambda x: x in enters, avoid=None,
                          edge_ok=lambda a, lab, b: lab not in ("e", "p") and not (a in tests and lab == _held_edge(a)))
        ctx.check(path0 is None, "R12.1", u, enters[0] if enters else g,
                  "the lock is only contended while the slot holds the placeholder (first check)",
                  witness=pretty_path(path0))
        # no suspension between the second test and the getter call
        for t in tests:
            if not any(k == "with" for (k, _a) in t.regions):
                continue
            starts = [s for (lab, s) in t.succ if lab == _held_edge(t)]
            seg = reachable(starts, stop=lambda x: x is g, edge_ok=lambda a, lab, b: lab not in ("e", "p"))
            if g not in seg:
                continue
            sus = [n for n in seg if n.kind in ("await", "yield", "pull", "enter", "exit_cm") and n is not g]
            ctx.check(not sus, "R12.1", u, sus[0] if sus else g,
                      "no suspension point between the re-check under the lock and the start of the getter",
                      node=sus[0] if sus else g)
    # the other branch awaits what is stored
    others = [n for n in main if n.kind == "await" and n not in getters]
    ok = bool(others) and all(isinstance(n.info.get("value"), ast.Name) for n in others)
    ctx.check(ok, "R12.1", u, others[0] if others else "_await_impl",
              "an awaiter that finds a different object in the slot awaits exactly that stored object")
    for n in others:
        if not isinstance(n.info.get("value"), ast.Name):
            continue
        name = n.info["value"].id
        from asl.flow import reaching
        defs = reaching(cfg).defs_at(n, name)
        vals = {norm(d.info.get("value")) for d in defs if d.kind == "store"}
        ctx.check(bool(vals) and all(_reads_slot(v) for v in vals), "R12.1", u, n,
                  "the awaited object is the one read from the instance slot", node=n, witness=str(sorted(vals)))


def r12_2(ctx, info) -> None:
    F = placeholder_fields(info)
    u = _impl_view(ctx, info)
    cfg = cfg_of(u)
    main = [n for n in cfg.nodes if not n.tag]
    awaits = _getter_awaits(ctx, u, main, F)
    stores = [n for n in main if n.kind == "store" and any(
        isinstance(t, ast.Subscript) and "__dict__" in norm(t.value) for t in n.info.get("targets", []))]
    ctx.check(len(awaits) == 1, "R12.2", u, awaits[1] if len(awaits) > 1 else "the computation",
              "the getter is awaited at exactly one place")
    ctx.check(len(stores) >= 1, "R12.2", u, "the computation", "the finished value is stored in the instance dict")
    if not awaits or not stores:
        return
    a = awaits[0]
    v = ctx.vals.expr(u, a.info.get("value"), a)
    ctx.check(any(x[0] == "userawait" for x in v) and norm(a.info.get("value")) == f"self.{F['func']}(self.{F['instance']})", "R12.2", u, a,
              "the awaited call is the user's getter applied to the instance", node=a)
    for s in stores:
        # after the await, with no suspension between
        path = find_path(cfg.entry, lambda x: x is s, avoid=lambda x: x is a,
                         edge_ok=lambda p, lab, b: lab not in ("e", "p"))
        ctx.check(path is None, "R12.2", u, s, "the store happens only after the getter has returned", node=s,
                  witness=pretty_path(path))
        seg = reachable([x for (lab, x) in a.succ if lab == "n"], stop=lambda x: x is s,
                        edge_ok=lambda p, lab, b: lab not in ("e", "p"))
        sus = [n for n in seg if n.kind in ("await", "yield", "pull", "enter", "exit_cm") and n is not s]
        ctx.check(not sus, "R12.2", u, sus[0] if sus else s,
                  "no suspension point between the getter's completion and the publish", node=s)
        val = s.info.get("value")
        t = [t for t in s.info["targets"] if isinstance(t, ast.Subscript)][0]
        key_ok = norm(t.value) == f"self.{F['instance']}.__dict__" and norm(t.slice) == f"self.{F['name']}"
        ctx.check(key_ok, "R12.2", u, s, "the value is published in instance.__dict__ under the property's name", node=s)
        wrapped = isinstance(val, ast.Call) and norm(val.func) == "AwaitableValue" and len(val.args) == 1 \
            and isinstance(val.args[0], ast.Name)
        ctx.check(wrapped, "R12.2", u, s, "the published object is a non-suspending wrapper of the value", node=s)
        if wrapped:
            vname = val.args[0].id  # type: ignore[union-attr]
            after = reachable([x for (lab, x) in s.succ if lab == "n"], edge_ok=lambda p, lab, b: lab not in ("e", "p"))
            rets = [n for n in main if n.kind == "return" and n in after]
            same = all(isinstance(r.info.get("value"), ast.Name) and r.info["value"].id == vname for r in rets) and rets
            from asl.flow import reaching
            defs = reaching(cfg).defs_at(s, vname)
            from_await = all(d.kind == "store" and isinstance(d.info.get("value"), ast.Await) for d in defs) and defs
            ctx.check(bool(same) and bool(from_await), "R12.2", u, s,
                      "the published value is the getter's result and is the very value returned to the awaiter",
                      node=s)
    start = a.exc_succ()
    if start is not None:
        cont = reachable([start], edge_ok=lambda p, lab, b: b.kind in ("dispatch", "raise_exit", "reraise", "handler")
                         or b.tag == "exc" or any(k == "handler" for (k, _x) in b.regions))
        leaked = [n for n in cont if n.kind == "store" and any(
            isinstance(t, ast.Subscript) and "__dict__" in norm(t.value) for t in n.info.get("targets", []))]
        ctx.check(not leaked, "R12.2", u, leaked[0] if leaked else a,
                  "a failed or cancelled getter publishes nothing", node=leaked[0] if leaked else a)
    for (k, x) in a.regions:
        if k == "try_body" and x.handlers:  # type: ignore[union-attr]
            ctx.fail("R12.2", u, a, "the getter is awaited inside a try block with handlers: a failure could be cached", node=a)


def r12_3(ctx) -> None:
    before = len(ctx.findings)
    c18.r18_2(_Relabel(ctx, "R12.3"))
    if len(ctx.findings) == before:
        ctx.ok("R12.3", PLACEHOLDER, "the lock is only used as an async-with context expression")


class _Relabel:
    def __init__(self, ctx, rid):
        self._ctx, self._rid = ctx, rid

    def __getattr__(self, name):
        return getattr(self._ctx, name)

    def ok(self, rule, *a, **k):
        return None

    def fail(self, rule, *a, **k):
        return self._ctx.fail(self._rid, *a, **k)

    def count(self, *a, **k):
        return None


def r12_4(ctx, info) -> None:
    desc = ctx.pkg.cls("functools.CachedProperty")
    ctx.check("__get__" in desc.methods, "R12.4", "functools.CachedProperty", "__get__", "the descriptor defines __get__")
    for bad in ("__set__", "__delete__"):
        ctx.check(bad not in desc.methods, "R12.4", "functools.CachedProperty", bad,
                  f"the descriptor defines no {bad}: the instance dict takes precedence once a value is stored "
                  f"(non-data descriptor)")
    g = desc.methods.get("__get__")
    if g is None:
        return
    g = ctx.inlined(g)  # (building the placeholder / reaching the instance dict may sit in private helpers)
    cfg = cfg_of(g)
    names = g.param_names()
    inst = names[1] if len(names) > 1 else "instance"
    stores = [n for n in cfg.nodes if n.kind == "store" and not n.tag]
    bad_stores = []
    slot_stores = []
    for s in stores:
        for t in s.info.get("targets", []):
            if isinstance(t, ast.Attribute):
                bad_stores.append(s)
            if isinstance(t, ast.Subscript):
                base = ctx.vals.expr(g, t.value, s)
                if any(a[0] == "usermeth" and a[2] == "__dict__" and a[1].endswith(f":{inst}") for a in base):
                    slot_stores.append((s, t))
                else:
                    bad_stores.append(s)
    ctx.check(not bad_stores, "R12.4", g, bad_stores[0] if bad_stores else "__get__",
              "access stores nothing on the descriptor or the class (values are per instance)")
    from .common import inline_locals
    calls = [n for n in cfg.nodes if n.kind == "call" and not n.tag
             and ctx.pkg.resolve_expr_global(g.module, n.ast.func).node is info.node]
    ok = len(calls) == 1 and len(slot_stores) >= 1
    if ok:
        cn = calls[0]
        c = inline_locals(ctx, g, cfg, cn, cn.ast)  # ``getter = self.func`` etc. unfolded
        args = [norm(a) for a in c.args]
        if c.keywords and not c.args and all(k.arg for k in c.keywords):
            # (keyword arguments: in the order of the placeholder's constructor parameters)
            pinit = info.methods.get("__init__")
            by_name = {k.arg: norm(k.value) for k in c.keywords}
            args = [by_name[p_] for p_ in (pinit.param_names()[1:] if pinit is not None else []) if p_ in by_name]
        key = norm(inline_locals(ctx, g, cfg, slot_stores[0][0], slot_stores[0][1].slice))
        fields = {a.attr for st in own_nodes(desc.methods["__init__"].node) if isinstance(st, (ast.Assign, ast.AnnAssign))
                  for a in ast.walk(st) if isinstance(a, ast.Attribute) and isinstance(a.ctx, ast.Store)} if "__init__" in desc.methods else set()
        getter_ok = len(args) >= 1 and args[0].startswith("self.") and args[0][5:] in (fields | {"func", "__wrapped__"})
        ok = len(args) >= 3 and args[1] == inst and args[2] == key and getter_ok
        ctx.check(ok, "R12.4", g, cn.ast, "the placeholder is created for this instance under the same name it is stored under",
                  witness=f"placeholder args {args}, stored under [{key}]")
        lock_arg = c.args[3] if len(c.args) > 3 else None
        if lock_arg is None and c.keywords:
            pinit = info.methods.get("__init__")
            pn = pinit.param_names()[1:] if pinit is not None else []
            lock_arg = next((k.value for k in c.keywords if len(pn) > 3 and k.arg == pn[3]), None)
        ctx.check(isinstance(lock_arg, ast.Call) and not lock_arg.args, "R12.4", g, cn.ast,
                  "a new lock object is created per placeholder (per instance and computation)")
    else:
        ctx.fail("R12.4", g, "__get__", "first access stores a placeholder in instance.__dict__[name]")
    F = placeholder_fields(info)
    ctx.ok("R12.4", info.methods["__init__"], "the placeholder keeps exactly the (getter, instance, name, lock) it was "
           "created with", fields=F)


def r12_5(ctx, info) -> None:
    u = roles(ctx, info)["slot_read"]
    cfg = cfg_of(u)
    handlers = [n for n in cfg.nodes if n.kind == "handler" and "KeyError" in norm(n.info.get("type"))]
    ctx.check(bool(handlers), "R12.5", u, "_instance_value", "a deleted slot is detected (KeyError on the instance dict)")
    F = placeholder_fields(info)
    # (the accessor is a method of the placeholder, or a module-level function handed the instance and the name)
    inst, name = (f"self.{F['instance']}", f"self.{F['name']}") if not roles(ctx, info).get("slot_is_function") else tuple(u.param_names())
    reads = [n for n in cfg.nodes if n.kind == "sub" and norm(n.ast) == f"{inst}.__dict__[{name}]"]
    ctx.check(bool(reads), "R12.5", u, "_instance_value", "the slot is read from instance.__dict__[name]")
    for h in handlers:
        body = reachable([h], edge_ok=lambda a, lab, b: lab not in ("e", "p"))
        rets = [n for n in body if n.kind == "return"]
        ok = rets and all(isinstance(r.info.get("value"), ast.Call) and norm(r.info["value"].func) == "getattr"
                          and [norm(a) for a in r.info["value"].args] == [inst, name] for r in rets)
        ctx.check(bool(ok), "R12.5", u, rets[0] if rets else h,
                  "after deletion the access restarts through the descriptor: getattr(instance, name)", node=h)


def r12_7(ctx, info) -> None:
    """The instance dict is the only place a value (or a claim on it) lives: the placeholder
    keeps no copy of the result and every await goes through the slot read."""
    ctx.rule("R12.7", "the placeholder keeps no second copy of the value; every await goes through the instance slot")
    aw = info.methods["__await__"]
    rets = [n for n in own_nodes(aw.node) if isinstance(n, ast.Return)]
    impl_name = roles(ctx, info)["impl"].qualname.rsplit(".", 1)[-1]
    ok = len(rets) == 1 and norm(rets[0].value) == f"self.{impl_name}().__await__()" and \
        not any(isinstance(n, (ast.If, ast.IfExp, ast.Try)) for n in own_nodes(aw.node))
    ctx.check(ok, "R12.7", aw, rets[0] if rets else "__await__",
              "every await of the placeholder re-reads the instance slot (so a deleted or replaced value is never "
              "served from the placeholder)")
    for mname, m in info.methods.items():
        if mname == "__init__":
            continue
        for s in own_nodes(m.node):
            targets = []
            if isinstance(s, ast.Assign):
                targets = [x for t in s.targets for x in ast.walk(t)]
            elif isinstance(s, (ast.AugAssign, ast.AnnAssign)):
                targets = list(ast.walk(s.target))
            for t in targets:
                if isinstance(t, ast.Attribute) and isinstance(t.ctx, ast.Store) and isinstance(t.value, ast.Name) \
                        and t.value.id == "self":
                    ctx.fail("R12.7", m, s, f"the placeholder stores state on itself (`self.{t.attr}`) after construction: "
                             "a value kept outside the instance dict survives `del` and is invisible to other awaiters",
                             line=s.lineno)
    ctx.ok("R12.7", PLACEHOLDER, "checked: the placeholder is immutable after construction")


def r12_6(ctx) -> None:
    u = ctx.unit("functools.AwaitableValue.__await__")
    cfg = cfg_of(u)
    alive = live_nodes(cfg)
    from .common import empty_delegation
    ys = [n for n in cfg.nodes if n.kind == "yield" and n in alive and not empty_delegation(n)]
    ctx.check(not ys, "R12.6", u, ys[0] if ys else "__await__",
              "awaiting a cached value never suspends (its yield is unreachable)", node=ys[0] if ys else None)
    rets = [n for n in cfg.nodes if n.kind == "return" and n in alive]
    ctx.check(bool(rets) and all(norm(r.info.get("value")) == "self.value" for r in rets), "R12.6", u,
              rets[0] if rets else "__await__", "the cached value itself is returned")
