"""Helpers shared by the rule modules."""
from __future__ import annotations

import ast
from typing import Iterable, Iterator, List, Optional, Tuple

from asl.cfg import CFG, Node, cfg_of
from asl.loader import Unit, norm
from asl.values import USERISH, Val

LIB_AWAITABLE = {"libcoro", "libgen", "anextcoro", "borrowed", "genexp", "scoped", "libcoroiter"}


def real_units(ctx) -> List[Unit]:
    return [u for u in ctx.pkg.all_units() if not u.is_overload()]


def empty_delegation(n: Node) -> bool:
    """``yield from ()`` / ``yield from []``: delegating to an empty display yields nothing - it only makes the function a
    generator, like an unreachable ``yield``"""
    e = n.ast
    e = e.value if isinstance(e, ast.Expr) else e
    return isinstance(e, ast.YieldFrom) and isinstance(e.value, (ast.Tuple, ast.List)) and not e.value.elts


def live(cfg: CFG) -> List[Node]:
    from asl.flow import live_nodes
    alive = live_nodes(cfg)
    return [n for n in cfg.nodes if n in alive]


def classify_awaitable(ctx, value: Val) -> Tuple[str, List[str]]:
    """('USER'|'LIB'|'MIXED'|'BAD', details).  BAD = at least one atom that is neither a
    user-supplied object nor a library awaitable."""
    kinds = set()
    bad: List[str] = []
    for a in value:
        k = a[0]
        if k in USERISH:
            kinds.add("USER")
        elif k in LIB_AWAITABLE:
            kinds.add("LIB")
        elif k in ("libinst", "self"):
            info_has = ctx.vals.find_method(a[1], "__aenter__") or ctx.vals.find_method(a[1], "__await__") \
                or ctx.vals.find_method(a[1], "__anext__")
            kinds.add("LIB" if info_has else "USER")
        elif k == "iterelems":
            kinds.add("LIB")
        elif k == "none":
            continue
        elif k in ("enumerate", "zipped") and any(b[0] == "libgen" for b in value):
            continue  # structural companion of the library generator atom
        else:
            bad.append(str(a))
    if bad:
        return "BAD", bad
    if not kinds:
        return "BAD", ["no origin"]
    if kinds == {"USER"}:
        return "USER", []
    if kinds == {"LIB"}:
        return "LIB", []
    return "MIXED", []


def suspension_nodes(cfg: CFG) -> Iterator[Node]:
    for n in cfg.nodes:
        if n.tag:
            continue  # cleanup copies repeat the same source construct
        if n.kind in ("await", "pull", "aiter") or (n.kind in ("enter",) and not n.info.get("sync")):
            yield n


def operand_of(n: Node) -> Optional[ast.AST]:
    if n.kind == "await":
        return n.info.get("value")
    if n.kind in ("pull", "aiter", "snext", "siter"):
        return n.info.get("iter")
    if n.kind in ("enter", "exit_cm"):
        return n.info.get("cm")
    return None


def call_name(call: ast.Call) -> str:
    return norm(call.func)


def is_call_to(ctx, unit: Unit, call: ast.AST, node: Optional[Node], *shorts: str) -> bool:
    """Does ``call`` invoke one of the library functions 'module.qualname'?"""
    if not isinstance(call, ast.Call):
        return False
    fv = ctx.vals.expr(unit, call.func, node)
    for a in fv:
        if a[0] == "libfn" and any(a[1] == f"asyncstdlib.{s}" for s in shorts):
            return True
    return False


def walk_own(node: ast.AST) -> Iterator[ast.AST]:
    from asl.loader import own_nodes
    return own_nodes(node)


def make_resolver(ctx, unit, ops, skip=(), coroutines=False):
    """Resolver for asl.absint.Machine: calls of synchronous library helpers are evaluated
    by a nested machine (so extracting code into a private helper stays visible)."""
    from asl.absint import AbsEval

    ev = AbsEval(ops)

    def resolve(call, env):
        veto = getattr(ops, "resolves", None)
        if veto is not None and not veto(call, env):
            return None  # the model knows what is being called here (e.g. the user's callable, not the library default)
        pick = getattr(ops, "callee_unit", None)
        exact = pick(call, env) if pick is not None else None
        exact_self = None
        if isinstance(exact, tuple):  # a method of the object the model holds: (unit, the object)
            exact, exact_self = exact
        try:
            fv = [("@exact", exact)] if exact is not None else ctx.vals.expr(unit, call.func, None)
        except Exception:  # noqa: BLE001
            return None
        if exact is None and pick is not None and len({f for f in fv if f[0] in ("libfn", "bound", "cls")}) > 1:
            return None  # several candidates and the model does not say which: leave the call to the model
        for f in fv:
            target, offset = None, 0
            if f[0] == "@exact":
                target, offset = f[1], (1 if exact_self is not None else 0)
            elif f[0] == "libfn":
                target = ctx.pkg.lib_unit(f[1])
            elif f[0] == "bound":
                target = ctx.vals.find_method(f[1], f[2])
                offset = 0 if target is not None and target.is_static() else 1
            if target is None or target.is_property() or \
                    target.kind not in (("sync", "coroutine") if coroutines else ("sync",)):
                continue
            if target.qualname.rsplit(".", 1)[-1] in skip or ctx.pkg.canonical(target).rsplit(".", 1)[-1] in skip:
                continue
            names = target.param_names()
            bound = {}
            if offset and names:
                bound[names[0]] = exact_self if exact_self is not None else (
                    ev.eval(call.func.value, env) if isinstance(call.func, ast.Attribute) else None)
            for pname, arg in zip(names[offset:], call.args):
                if isinstance(arg, ast.Starred):
                    break
                bound[pname] = ev.eval(arg, env)
            for kw in call.keywords:
                if kw.arg:
                    bound[kw.arg] = ev.eval(kw.value, env)
            if f[0] == "@exact" and target.parent is not None and not isinstance(target.node, ast.Lambda):
                # a closure: it sees the locals of the function it is defined in (those its parameters do not shadow)
                bound = {**{k: v for k, v in env.items() if not k.startswith("@") and k not in names}, **bound}
            return cfg_of(target), bound
        return None

    return resolve


def abstract_values(ctx, unit, ops, expr, env):
    """Possible abstract values of ``expr``; a call of a synchronous library helper is
    evaluated through the helper's body (so a predicate may be extracted into a helper)."""
    from asl.absint import AbsEval, Machine
    resolver = make_resolver(ctx, unit, ops)
    if isinstance(expr, ast.Call):
        tgt = resolver(expr, dict(env))
        if tgt is not None:
            cfg, bound = tgt
            outs = Machine(cfg, ops, resolver=resolver).run(bound)
            return {("raise", str(oc.raised)) if oc.terminal.kind == "raise_exit" else oc.returned for oc in outs}
    return {AbsEval(ops).eval(expr, dict(env))}


def callers_of(ctx, target) -> list:
    """Units that call the library function / method ``target`` (same module; for a plain
    function also other modules, under whatever name they import it)."""
    out = []
    name = target.qualname.rsplit(".", 1)[-1]
    units = list(target.module.units.values())
    if target.cls is None and target.parent is None:
        for mod in ctx.pkg.modules.values():
            if mod is not target.module:
                units.extend(mod.units.values())
    for v in units:
        if v is target or v.is_overload():
            continue
        for call in walk_own(v.node):
            if not isinstance(call, ast.Call):
                continue
            f = call.func
            if v.module is not target.module:
                if not isinstance(f, (ast.Name, ast.Attribute)):
                    continue
                try:
                    if ctx.pkg.resolve_expr_global(v.module, f).qual != target.fq:
                        continue
                except Exception:  # noqa: BLE001
                    continue
            elif not ((isinstance(f, ast.Name) and f.id == name) or (isinstance(f, ast.Attribute) and f.attr == name)):
                continue
            try:
                fv = ctx.vals.expr(v, f, None)
            except Exception:  # noqa: BLE001
                continue
            for a in fv:
                hit = (a[0] == "libfn" and ctx.pkg.lib_unit(a[1]) is target) or \
                      (a[0] == "bound" and ctx.vals.find_method(a[1], a[2]) is target)
                if hit and v not in out:
                    out.append(v)
    return out


class _LocalSubst(ast.NodeTransformer):
    def __init__(self, lookup, depth):
        self.lookup, self.depth = lookup, depth

    def visit_Name(self, node):
        if isinstance(node.ctx, ast.Load) and self.depth > 0:
            v = self.lookup(node.id)
            if v is not None and not any(isinstance(x, (ast.Await, ast.Yield, ast.YieldFrom, ast.NamedExpr)) for x in ast.walk(v)):
                import copy
                return _LocalSubst(self.lookup, self.depth - 1).visit(copy.deepcopy(v))
        return node

    def visit_Lambda(self, node):
        return node


def inline_locals(ctx, unit, cfg, node, expr, depth: int = 4):
    """A copy of ``expr`` in which every local that has exactly one reaching definition at
    ``node`` (a pure expression) is replaced by that definition — so a one-liner and the
    same expression unfolded into named intermediate values look alike."""
    import copy

    def lookup(name):
        return uncast(name_value(ctx, unit, cfg, node, name)) if name in _locals else None

    from asl.loader import local_names
    _locals = set(local_names(unit)) - set(unit.param_names())
    return _LocalSubst(lookup, depth).visit(copy.deepcopy(expr))


def hasattr_branches(ctx, unit, cfg, attr: str = "aclose"):
    """{branch node: the ``hasattr(x, attr)`` call it tests} - the answer may be held in a local before it is tested
    (``has = hasattr(x, "aclose"); if not has: ...``)"""
    out = {}
    for n in cfg.nodes:
        if n.kind != "branch":
            continue
        e = n.ast
        if isinstance(e, ast.Name):
            try:
                e = inline_locals(ctx, unit, cfg, n, e, depth=1)
            except Exception:  # noqa: BLE001
                continue
        if isinstance(e, ast.Call) and norm(e.func) == "hasattr" and len(e.args) == 2 \
                and isinstance(e.args[1], ast.Constant) and e.args[1].value == attr:
            out[n] = e
    return out


def uncast(e):
    """typing.cast(T, x) -> x (casts are no-ops at run time)."""
    while isinstance(e, ast.Call) and norm(e.func) in ("cast", "typing.cast") and len(e.args) == 2:
        e = e.args[1]
    return e


def raised_class(ctx, unit, r: ast.Raise) -> str:
    """Name of the exception class an explicit ``raise`` statement raises; a call of a
    private library helper that *returns* the exception is resolved to what it builds."""
    exc = r.exc
    if exc is None:
        return ""
    if isinstance(exc, ast.Call):
        name = norm(exc.func)
        try:
            fv = ctx.vals.expr(unit, exc.func, None)
        except Exception:  # noqa: BLE001
            fv = frozenset()
        for f in fv:
            if f[0] == "libfn":
                target = ctx.pkg.lib_unit(f[1])
                if target is not None and target.kind == "sync":
                    built = {norm(x.value.func) for x in walk_own(target.node)
                             if isinstance(x, ast.Return) and isinstance(x.value, ast.Call)}
                    if len(built) == 1:
                        return built.pop()
        return name
    return norm(exc)


def name_value(ctx, unit, cfg, node, name: str):
    """The single expression bound to local ``name`` at ``node`` (through reaching
    definitions), or None if there is not exactly one."""
    from asl.flow import reaching
    defs = reaching(cfg).defs_at(node, name)
    vals = [d.info.get("value") for d in defs if d.kind == "store" and d.info.get("value") is not None]
    if len(defs) == 1 and len(vals) == 1:
        return vals[0]
    return None


class _CastStripper(ast.NodeTransformer):
    def visit_Call(self, node):
        self.generic_visit(node)
        if norm(node.func) in ("cast", "typing.cast") and len(node.args) == 2:
            return node.args[1]
        return node


def uncast_deep(e):
    """A copy of ``e`` with every typing.cast(T, x) replaced by x."""
    import copy
    if e is None:
        return None
    return _CastStripper().visit(copy.deepcopy(e))


def present_units(ctx, shorts):
    """The unit list of a rule, minus private helpers (``module._name``) that no longer exist under their name and are not
    found again structurally: a helper that was folded into something else is no reason to stop looking at the rest (the
    public tools are anchors and must exist)."""
    out = []
    for short in shorts:
        parts = short.split(".")[1:]
        private = any(p_.startswith("_") and not p_.startswith("__") for p_ in parts)  # (a private function, or a method of a private class)
        if private and not ctx.pkg.has_unit(short):
            ctx.note(f"the private helper {short} does not exist as a function of its own any more; it is not looked at separately")
            continue
        out.append(short)
    return out


class Relabel:
    """Run a rule shared with another property under this property's rule id."""

    def __init__(self, ctx, rid, only=None):
        self._ctx, self._rid, self._only = ctx, rid, only

    def __getattr__(self, name):
        return getattr(self._ctx, name)

    def _take(self, rule):
        return self._only is None or any(rule.startswith(o) for o in self._only)

    def ok(self, rule, *a, **k):
        if self._take(rule):
            return self._ctx.ok(self._rid, *a, **k)

    def fail(self, rule, *a, **k):
        if self._take(rule):
            return self._ctx.fail(self._rid, *a, **k)

    def check(self, cond, rule, *a, **k):
        if self._take(rule):
            return self._ctx.check(cond, self._rid, *a, **k)
        return cond

    def rule(self, *a, **k):
        return None

    def floor(self, *a, **k):
        return None

    def assume(self, *a, **k):
        return None


def descriptor_binding(ctx, rid: str, modules) -> None:
    """Descriptor ``__get__``: the instance is a user object.  Whether the lookup came through the
    class or through an instance is decided by identity with None only — a truth test or an
    equality comparison would run the instance's ``__bool__`` / ``__len__`` / ``__eq__`` and treat a
    falsy instance (an empty container with a cached method) like a lookup on the class."""
    ctx.rule(rid, "__get__ decides 'looked up on the class' by `instance is None` only (never by truth value or equality)")
    for mod in ctx.pkg.modules.values():
        if mod.short not in modules:
            continue
        for info in mod.classes.values():
            g = info.methods.get("__get__")
            if g is None or len(g.param_names()) < 2:
                continue
            ctx.count("descriptors")
            inst = g.param_names()[1]
            bad = []

            def bare(e):
                return isinstance(e, ast.Name) and e.id == inst

            for x in walk_own(g.node):
                if isinstance(x, (ast.If, ast.While, ast.IfExp, ast.Assert)) and bare(x.test):
                    bad.append(x.test)
                elif isinstance(x, ast.UnaryOp) and isinstance(x.op, ast.Not) and bare(x.operand):
                    bad.append(x)
                elif isinstance(x, ast.BoolOp) and any(bare(v) for v in x.values):
                    bad.append(x)
                elif isinstance(x, ast.Compare) and any(bare(o) for o in [x.left] + list(x.comparators)) \
                        and not all(isinstance(op, (ast.Is, ast.IsNot)) for op in x.ops):
                    bad.append(x)
                elif isinstance(x, ast.Call) and norm(x.func) in ("bool", "len") and any(bare(a) for a in x.args):
                    bad.append(x)
            ctx.check(not bad, rid, g, bad[0] if bad else "__get__",
                      f"`{inst}` is only compared by identity" if not bad else
                      f"`{norm(bad[0])}` tests the truth value / equality of the instance: a falsy instance is served the unbound descriptor",
                      line=getattr(bad[0], "lineno", None) if bad else None)


def keywords_cannot_collide(ctx, rid: str, unit, whose: str) -> None:
    """A function that passes ``**kwargs`` on to a callable of the user takes every parameter of its own positional-only:
    otherwise a keyword argument meant for the user's callable that happens to have the name of such a parameter
    (``func=``, ``callback=``, ``self=``) is rejected with TypeError (multiple values) before anything runs."""
    a = unit.node.args
    if a.kwarg is None:
        ctx.ok(rid, unit, f"{unit.node.name} takes no **kwargs")
        return
    named = [p.arg for p in a.args] + [p.arg for p in a.kwonlyargs]
    ctx.check(not named, rid, unit, unit.node.name,
              f"every parameter of {unit.node.name} other than *args / **kwargs is positional-only: a keyword argument for {whose} "
              "may have any name", witness=f"can be passed by keyword (and so collide): {named}")
