"""Helpers shared by the rule modules."""
from __future__ import annotations

import ast
from typing import Iterable, Iterator, List, Optional, Tuple

from asl.cfg import CFG, Node, cfg_of
from asl.loader import Unit, norm
from asl.values import USERISH, Val

LIB_AWAITABLE = {"libcoro", "libgen", "anextcoro", "borrowed", "genexp", "scoped", "libcoroiter"}


def real_units(ctx) -> List[Unit]:
    return [u for u in ctx.pkg.all_units() if not u.is_overload()]


def live(cfg: CFG) -> List[Node]:
    from asl.flow import live_nodes
    alive = live_nodes(cfg)
    return [n for n in cfg.nodes if n in alive]


def classify_awaitable(ctx, value: Val) -> Tuple[str, List[str]]:
    """('USER'|'LIB'|'MIXED'|'BAD', details).  BAD = at least one atom that is neither a
    user-supplied object nor a library awaitable."""
    kinds = set()
    bad: List[str] = []
    for a in value:
        k = a[0]
        if k in USERISH:
            kinds.add("USER")
        elif k in LIB_AWAITABLE:
            kinds.add("LIB")
        elif k in ("libinst", "self"):
            info_has = ctx.vals.find_method(a[1], "__aenter__") or ctx.vals.find_method(a[1], "__await__") \
                or ctx.vals.find_method(a[1], "__anext__")
            kinds.add("LIB" if info_has else "USER")
        elif k == "iterelems":
            kinds.add("LIB")
        elif k == "none":
            continue
        elif k in ("enumerate", "zipped") and any(b[0] == "libgen" for b in value):
            continue  # structural companion of the library generator atom
        else:
            bad.append(str(a))
    if bad:
        return "BAD", bad
    if not kinds:
        return "BAD", ["no origin"]
    if kinds == {"USER"}:
        return "USER", []
    if kinds == {"LIB"}:
        return "LIB", []
    return "MIXED", []


def suspension_nodes(cfg: CFG) -> Iterator[Node]:
    for n in cfg.nodes:
        if n.tag:
            continue  # cleanup copies repeat the same source construct
        if n.kind in ("await", "pull", "aiter") or (n.kind in ("enter",) and not n.info.get("sync")):
            yield n


def operand_of(n: Node) -> Optional[ast.AST]:
    if n.kind == "await":
        return n.info.get("value")
    if n.kind in ("pull", "aiter", "snext", "siter"):
        return n.info.get("iter")
    if n.kind in ("enter", "exit_cm"):
        return n.info.get("cm")
    return None


def call_name(call: ast.Call) -> str:
    return norm(call.func)


def is_call_to(ctx, unit: Unit, call: ast.AST, node: Optional[Node], *shorts: str) -> bool:
    """Does ``call`` invoke one of the library functions 'module.qualname'?"""
    if not isinstance(call, ast.Call):
        return False
    fv = ctx.vals.expr(unit, call.func, node)
    for a in fv:
        if a[0] == "libfn" and any(a[1] == f"asyncstdlib.{s}" for s in shorts):
            return True
    return False


def walk_own(node: ast.AST) -> Iterator[ast.AST]:
    from asl.loader import own_nodes
    return own_nodes(node)
