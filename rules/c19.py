"""C19 — asynctools adapters normalise every async shape to the same plain result
(necessary clauses).

R19.1 ``await_each`` is lazy and ordered: it iterates its argument directly, awaits exactly
      the current awaitable once per step, yields that value, and only then moves on — no
      comprehension / container over the input.
R19.2 ``any_iter`` branches agree: the outer awaitable is resolved first (awaited iff it is
      an Awaitable), the async-iterable and the sync-iterable branch yield the same function
      of the item, awaiting it iff it is an Awaitable.
R19.3 ``apply`` awaits everything once: every positional and every keyword argument flows
      through exactly one ``await`` into the single call of the function — in order, keys
      preserved — and the call's value is returned.
R19.4 ``sync``: returns its argument itself for coroutine functions; otherwise a coroutine
      function that calls the target once with ``*args, **kwargs``, awaits the result iff it
      is an Awaitable, returns it and catches nothing.
"""
from __future__ import annotations

import ast

from asl.cfg import cfg_of
from asl.loader import norm, own_nodes
from .lru import enumerate_paths

LEVEL = {
    "decided": "C19 (necessary clauses): (R19.1) await_each awaits one awaitable per consumer step in input order; "
               "(R19.2) any_iter resolves the outer awaitable first and treats items identically in its sync and async "
               "branch; (R19.3) apply awaits each argument exactly once, preserving order and keyword names, and returns "
               "the function's value; (R19.4) sync passes coroutine functions through and otherwise wraps with one "
               "call, a conditional await and no handler.",
    "not_decided": "equality of the produced items across the 12 input-shape combinations (value level).",
    "technique": "static analysis: sibling-branch agreement and await-once dataflow",
}


def run(ctx) -> None:
    for rid, text in (("R19.1", "await_each: one await per step, in order, lazily"),
                      ("R19.2", "any_iter: outer awaitable first; sync/async branches agree"),
                      ("R19.3", "apply: every argument awaited once, order and names preserved"),
                      ("R19.4", "sync: pass-through for coroutine functions, single call + conditional await otherwise")):
        ctx.rule(rid, text)
    r19_1(ctx)
    r19_2(ctx)
    r19_3(ctx)
    r19_4(ctx)


def r19_1(ctx) -> None:
    u = ctx.unit("asynctools.await_each")
    cfg = cfg_of(u)
    p = u.param_names()[0]
    loops = [n for n in own_nodes(u.node) if isinstance(n, (ast.For, ast.AsyncFor))]
    ctx.check(len(loops) == 1 and isinstance(loops[0], ast.For) and norm(loops[0].iter) == p, "R19.1", u,
              loops[0] if loops else "await_each", "the awaitables are iterated directly, one at a time (no copy / reordering)")
    comps = [n for n in own_nodes(u.node) if isinstance(n, (ast.ListComp, ast.GeneratorExp, ast.SetComp, ast.DictComp))]
    calls = [n for n in own_nodes(u.node) if isinstance(n, ast.Call)]
    ctx.check(not comps and not calls, "R19.1", u, (comps + calls)[0] if comps + calls else "await_each",
              "nothing gathers or pre-awaits the input")
    if len(loops) != 1:
        return
    var = norm(loops[0].target)
    heads = [n for n in cfg.nodes if n.kind == "snext" and not n.tag]
    for h in heads:
        paths = enumerate_paths(cfg, h, lambda n: n is h or n.kind == "exit")
        for path in paths:
            nodes = [n for n, _l in path[1:]]
            if not nodes or nodes[-1].kind == "exit":
                continue
            awaits = [n for n in nodes if n.kind == "await"]
            ys = [n for n in nodes if n.kind == "yield"]
            ok = len(awaits) == 1 and norm(awaits[0].info.get("value")) == var and len(ys) == 1 \
                and ys[0].info.get("value") is awaits[0].ast and nodes.index(awaits[0]) < nodes.index(ys[0])
            ctx.check(ok, "R19.1", u, ys[0] if ys else h, "each step awaits exactly the current awaitable and yields its "
                      "value before the next awaitable is touched", node=h)


def r19_2(ctx) -> None:
    u = ctx.unit("asynctools.any_iter")
    p = u.param_names()[0]
    cfg = cfg_of(u)
    main = [n for n in cfg.nodes if not n.tag]
    disp = [n for n in main if n.kind == "branch" and isinstance(n.ast, ast.Call) and norm(n.ast.func) == "isinstance"
            and norm(n.ast.args[1]) == "AsyncIterable"]
    ctx.check(len(disp) == 1, "R19.2", u, disp[0] if disp else "any_iter", "the resolved object is dispatched on AsyncIterable")
    if len(disp) != 1:
        return
    it_name = norm(disp[0].ast.args[0])
    # every path from entry to the dispatch decides by isinstance(arg, Awaitable) whether to await
    outer_tests = [n for n in main if n.kind == "branch" and isinstance(n.ast, ast.Call) and norm(n.ast.func) == "isinstance"
                   and norm(n.ast.args[0]) == p and norm(n.ast.args[1]) == "Awaitable"]
    ok = len(outer_tests) == 1
    if ok:
        for path in enumerate_paths(cfg, cfg.entry, lambda n: n is disp[0]):
            nodes = [n for n, _l in path]
            taken = [lab for n, lab in path if n is outer_tests[0]]
            awaits = [n for n in nodes if n.kind == "await"]
            stores = [n for n in nodes if n.kind == "store" and it_name in [t.id for t in n.info.get("targets", []) if isinstance(t, ast.Name)]]
            if not taken or not stores:
                ok = False
                continue
            last = stores[-1].info.get("value")
            if isinstance(last, ast.IfExp):
                neg = isinstance(last.test, ast.UnaryOp)
                last = (last.orelse if neg else last.body) if taken[0] == "t" else (last.body if neg else last.orelse)
            if taken[0] == "t":
                ok = ok and len(awaits) == 1 and norm(awaits[0].info.get("value")) == p and isinstance(last, ast.Await)
            else:
                ok = ok and not awaits and norm(last) == p
    ctx.check(ok, "R19.2", u, outer_tests[0] if outer_tests else "any_iter", "the outer object is awaited iff it is an "
              "Awaitable, before its iteration protocol is inspected")
    branches = [s for s in ast.walk(u.node) if isinstance(s, ast.If) and s.test is disp[0].ast]
    if len(branches) != 1:
        ctx.fail("R19.2", u, disp[0], "the dispatch on AsyncIterable selects between an async-for and a for branch")
        return
    b = branches[0]
    a_loops = [s for s in b.body if isinstance(s, ast.AsyncFor)]
    s_loops = [s for s in b.orelse if isinstance(s, ast.For)]
    ok = len(a_loops) == 1 and len(s_loops) == 1 and len(b.body) == 1 and len(b.orelse) == 1
    ctx.check(ok, "R19.2", u, b, "one async-for branch and one for branch")
    if not ok:
        return
    al, sl = a_loops[0], s_loops[0]
    ctx.check(norm(al.iter) == it_name and norm(sl.iter) == it_name, "R19.2", u, al, "both branches iterate the resolved object itself")
    cfg = cfg_of(u)
    sigs = {}
    for loop, kind in ((al, "pull"), (sl, "snext")):
        var = norm(loop.target)
        heads = [n for n in cfg.nodes if n.kind == kind and n.ast is loop and not n.tag]
        sig = set()
        ok_all = bool(heads)
        for h in heads:
            for path in enumerate_paths(cfg, h, lambda n, h=h: n is h or n.kind == "exit"):
                nodes = [n for n, _l in path[1:]]
                if not nodes or nodes[-1].kind == "exit":
                    continue
                tests = [(n, lab) for n, lab in path if n.kind == "branch" and isinstance(n.ast, ast.Call)
                         and norm(n.ast.func) == "isinstance" and "Awaitable" in norm(n.ast) and norm(n.ast.args[0]) == var]
                awaits = [n for n in nodes if n.kind == "await"]
                ys = [n for n in nodes if n.kind == "yield"]
                if len(tests) != 1 or len(ys) != 1:
                    ok_all = False
                    continue
                awaitable = tests[0][1] == "t"
                yv = ys[0].info.get("value")
                if awaitable:
                    good = len(awaits) == 1 and norm(awaits[0].info.get("value")) == var and (
                        yv is awaits[0].ast or (isinstance(yv, ast.IfExp) and any(x is awaits[0].ast for x in ast.walk(yv)))
                        or (isinstance(yv, ast.Name) and any(
                            s.kind == "store" and s.info.get("value") is awaits[0].ast and yv.id in
                            [t.id for t in s.info["targets"] if isinstance(t, ast.Name)] for s in nodes)))
                else:
                    good = not awaits and (norm(yv) == var or isinstance(yv, ast.IfExp) or (
                        isinstance(yv, ast.Name) and any(s.kind == "store" and norm(s.info.get("value")) == var for s in nodes)))
                ok_all = ok_all and good
                sig.add((awaitable, len(awaits)))
        sigs[kind] = sig
        ctx.check(ok_all and sig == {(True, 1), (False, 0)}, "R19.2", u, loop,
                  "an item is yielded as is, or awaited (exactly once) first iff it is an Awaitable",
                  witness=f"(is awaitable, awaits) on the paths of the loop body: {sorted(sig)}")
    ctx.check(sigs.get("pull") == sigs.get("snext"), "R19.2", u, sl, "the per-item treatment is identical in the async and "
              "the sync branch", witness=str(sigs))


def r19_3(ctx) -> None:
    u = ctx.unit("asynctools.apply")
    node = u.node
    f = u.param_names()[0]
    va = node.args.vararg.arg if node.args.vararg else None
    kw = node.args.kwarg.arg if node.args.kwarg else None
    rets = [n for n in own_nodes(node) if isinstance(n, ast.Return)]
    ok = len(rets) == 1 and isinstance(rets[0].value, ast.Call) and norm(rets[0].value.func) == f
    ctx.check(ok and va is not None and kw is not None, "R19.3", u, rets[0] if rets else "apply",
              "apply returns the value of a single call of the function")
    if not ok:
        return
    call = rets[0].value
    cfg = cfg_of(u)
    rnode = [n for n in cfg.nodes if n.kind == "return" and not n.tag][0]

    def through_local(e):
        if isinstance(e, ast.Name):
            from .common import name_value
            return name_value(ctx, u, cfg, rnode, e.id) or e
        return e

    pos = [a for a in call.args]
    ok = len(pos) == 1 and isinstance(pos[0], ast.Starred)
    c = through_local(pos[0].value) if ok else None
    ok = ok and isinstance(c, ast.ListComp)
    if ok:
        g = c.generators[0]
        ok = len(c.generators) == 1 and norm(g.iter) == va and not g.ifs and isinstance(c.elt, ast.Await) \
            and norm(c.elt.value) == norm(g.target)
    ctx.check(ok, "R19.3", u, call, "every positional argument is awaited exactly once, in order")
    kws = call.keywords
    ok = len(kws) == 1 and kws[0].arg is None
    c = through_local(kws[0].value) if ok else None
    ok = ok and isinstance(c, ast.DictComp)
    if ok:
        g = c.generators[0]
        ok = len(c.generators) == 1 and norm(g.iter) == f"{kw}.items()" and not g.ifs and isinstance(g.target, ast.Tuple) \
            and norm(c.key) == norm(g.target.elts[0]) and isinstance(c.value, ast.Await) \
            and norm(c.value.value) == norm(g.target.elts[1])
    ctx.check(ok, "R19.3", u, call, "every keyword argument is awaited exactly once and passed under its own name")
    awaits = [n for n in own_nodes(node) if isinstance(n, ast.Await)]
    ctx.check(len(awaits) == 2, "R19.3", u, "apply", "no other await (the function itself is called synchronously, as documented)")


def r19_4(ctx) -> None:
    u = ctx.unit("asynctools.sync")
    p = u.param_names()[0]
    cfg = cfg_of(u)
    tests = [n for n in cfg.nodes if n.kind == "branch" and isinstance(n.ast, ast.Call) and
             norm(n.ast.func).endswith("iscoroutinefunction") and norm(n.ast.args[0]) == p]
    ctx.check(len(tests) == 1, "R19.4", u, "sync", "sync tests iscoroutinefunction(function)")
    if tests:
        from asl.flow import reachable
        t = tests[0]
        yes = reachable([s for (lab, s) in t.succ if lab == "t"], edge_ok=lambda a, lab, b: lab not in ("e", "p"))
        rets = [n for n in yes if n.kind == "return"]
        ctx.check(bool(rets) and all(norm(r.info.get("value")) == p for r in rets), "R19.4", u, rets[0] if rets else t,
                  "a coroutine function is returned unchanged")
    inner = [x for x in u.module.units.values() if x.parent is u]
    ctx.check(len(inner) == 1 and inner[0].kind == "coroutine", "R19.4", u, "sync", "otherwise one coroutine wrapper is returned")
    if len(inner) != 1:
        return
    w = inner[0]
    calls = [c for c in own_nodes(w.node) if isinstance(c, ast.Call) and norm(c.func) == p]
    va = w.node.args.vararg.arg if w.node.args.vararg else None
    kw = w.node.args.kwarg.arg if w.node.args.kwarg else None
    ok = len(calls) == 1 and [norm(a) for a in calls[0].args] == [f"*{va}"] and \
        [(k.arg, norm(k.value)) for k in calls[0].keywords] == [(None, kw)]
    ctx.check(ok, "R19.4", w, calls[0] if calls else "async_wrapped", "the target is called exactly once with *args, **kwargs")
    wcfg = cfg_of(w)
    paths = enumerate_paths(wcfg, wcfg.entry, lambda n: n is wcfg.exit)
    for path in paths:
        nodes = [n for n, _l in path]
        tests = [(n, lab) for n, lab in path if n.kind == "branch" and isinstance(n.ast, ast.Call) and norm(n.ast.func) == "isinstance"
                 and "Awaitable" in norm(n.ast)]
        awaits = [n for n in nodes if n.kind == "await"]
        rets = [n for n in nodes if n.kind == "return"]
        if len(tests) != 1 or not rets:
            ctx.fail("R19.4", w, "async_wrapped", "the wrapper decides by isinstance(result, Awaitable)")
            continue
        is_awaitable = tests[0][1] == "t"
        res = norm(tests[0][0].ast.args[0])
        if is_awaitable:
            ok = len(awaits) == 1 and norm(awaits[0].info.get("value")) == res and rets[-1].info.get("value") is awaits[0].ast
        else:
            ok = not awaits and norm(rets[-1].info.get("value")) == res
        ctx.check(ok, "R19.4", w, rets[-1], "an awaitable result is awaited and its value returned; a plain result is "
                  "returned as is" if ok else "the wrapper mishandles the " + ("awaitable" if is_awaitable else "plain") + " result")
    tries = [n for n in own_nodes(w.node) if isinstance(n, ast.Try)]
    ctx.check(not tries, "R19.4", w, tries[0] if tries else "async_wrapped", "the wrapper catches nothing (same exception as the target)")
    guard = [n for n in cfg.nodes if n.kind == "branch" and isinstance(n.ast, ast.Call) and norm(n.ast.func) == "callable"]
    ctx.check(bool(guard), "R19.4", u, "sync", "non-callables are rejected up front")
