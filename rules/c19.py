"""C19 — asynctools adapters normalise every async shape to the same plain result
(necessary clauses).

R19.1 ``await_each`` is lazy and ordered: it iterates its argument directly, awaits exactly
      the current awaitable once per step, yields that value, and only then moves on — no
      comprehension / container over the input.
R19.2 ``any_iter`` branches agree: the outer awaitable is resolved first (awaited iff it is
      an Awaitable), the async-iterable and the sync-iterable branch yield the same function
      of the item, awaiting it iff it is an Awaitable.
R19.3 ``apply`` awaits everything once: every positional and every keyword argument flows
      through exactly one ``await`` into the single call of the function — in order, keys
      preserved — and the call's value is returned.
R19.4 ``sync``: returns its argument itself for coroutine functions; otherwise a coroutine
      function that calls the target once with ``*args, **kwargs``, awaits the result iff it
      is an Awaitable, returns it and catches nothing.
"""
from __future__ import annotations

import ast

from asl.absint import STOP, UNKNOWN, AbsEval, Machine
from asl.cfg import cfg_of
from asl.loader import norm, own_nodes
from .common import make_resolver
from .lru import enumerate_paths

LEVEL = {
    "decided": "C19 (shape tables by abstract evaluation): (R19.1) await_each awaits one awaitable per consumer step in input order; "
               "(R19.2) any_iter resolves the outer awaitable first and treats items identically in its sync and async "
               "branch; (R19.3) apply awaits each argument exactly once, preserving order and keyword names, and returns "
               "the function's value; (R19.4) sync passes coroutine functions through and otherwise wraps with one "
               "call, a conditional await and no handler.",
    "not_decided": "equality of the produced items across the 12 input-shape combinations (value level).",
    "technique": "static analysis: finite-domain abstract evaluation of the adapters over the input-shape lattice "
                 "(awaitable/plain x async/sync iterable x awaitable/plain item), event traces compared with the specification",
}
LEVEL["decided"] += ' sync(): the wrapper calls the very callable it was given, also when that is a functools.partial (closure environment evaluated).'
LEVEL["decided"] += ' sync(): a callable that is not itself a coroutine function is never handed back unwrapped, whatever its attributes (a class whose instances have an async __call__).'
LEVEL["decided"] += " (R19.5) apply takes the function positional-only: every split of the target's arguments into positional and keyword awaitables is accepted."
LEVEL["decided"] += ' (R19.6) no attribute that only some kinds of callable have is read unconditionally in asynctools (R03.10, shared).'


def run(ctx) -> None:
    for rid, text in (("R19.1", "await_each: one await per step, in order, lazily"),
                      ("R19.2", "any_iter: outer awaitable first; sync/async branches agree"),
                      ("R19.3", "apply: every argument awaited once, order and names preserved"),
                      ("R19.4", "sync: pass-through for coroutine functions, single call + conditional await otherwise")):
        ctx.rule(rid, text)
    r19_1(ctx)
    r19_2(ctx)
    r19_3(ctx)
    r19_4(ctx)
    from . import c03
    from .common import Relabel
    ctx.rule("R19.6", "sync / apply work for every kind of callable (def, async def, partial, callable object): no attribute that "
                      "only some of them have (__name__, __qualname__) is read unconditionally (R03.10, shared)")
    c03.r03_10(Relabel(ctx, "R19.6"), modules=("asynctools",))
    from .common import keywords_cannot_collide
    ctx.rule("R19.5", "apply: every split of the target's arguments into positional and keyword awaitables is accepted - the "
                      "function to apply is positional-only, so no keyword name is taken by apply itself")
    keywords_cannot_collide(ctx, "R19.5", ctx.unit("asynctools.apply"), "the function that is applied")


# --------------------------------------------------------------------------- shape machine
class _ShapeOps:
    """Finite model of the adapters' inputs: opaque objects whose only observable aspects are
    the ABCs they satisfy (``isinstance`` answers come from the scenario), what awaiting them
    gives (``('val', x)``) and which items iterating them yields.  Every next / await / yield
    is appended to env['@trace']."""

    def __init__(self, ctx, module, scenario: dict):
        self.ctx, self.module, self.sc = ctx, module, scenario
        self.ev = AbsEval(self)

    # -- values
    def awaited(self, v, env):
        if isinstance(v, tuple) and len(v) == 2 and v[0] == "@coro":
            return v[1]  # a private coroutine helper of the library: what it returned
        return UNKNOWN if v is UNKNOWN else ("val", v)

    def _resolved(self, func_node) -> str:
        r = self.ctx.pkg.resolve_expr_global(self.module, func_node)
        return r.qual if r.kind in ("stdlib", "builtin", "lib") else norm(func_node)

    def call(self, func, args, kwargs, node, env):
        q = self._resolved(node.func)
        last = q.split(".")[-1]
        if last == "isinstance" and len(node.args) == 2 and len(args) == 2:
            kinds = node.args[1].elts if isinstance(node.args[1], ast.Tuple) else [node.args[1]]
            answers = [self.sc.get("isinstance", {}).get((args[0], norm(k).split(".")[-1]), UNKNOWN) for k in kinds]
            if any(a is True for a in answers):
                return True
            return UNKNOWN if any(a is UNKNOWN for a in answers) else False
        if last == "callable" and args:
            return True
        if last == "iscoroutinefunction" and args:
            return self.sc.get("iscoroutinefunction", {}).get(args[0], UNKNOWN)
        if last == "iter" and len(args) == 1 and args[0] is not UNKNOWN:
            return ("iter", args[0])
        if last == "cast" and len(args) == 2:
            return args[1]
        fv = env.get(func) if func.isidentifier() else None
        if fv in self.sc.get("callables", {}):
            return self.sc["callables"][fv]
        return UNKNOWN

    def attr(self, value, name, node, env):
        return self.sc.get("attrs", {}).get((value, name), UNKNOWN)

    # -- iteration
    @staticmethod
    def _base(v):
        while isinstance(v, tuple) and v[:1] == ("iter",):
            v = v[1]
        return v

    def _take(self, source, env, key):
        items = self.sc.get("items", {}).get(self._base(source))
        pos = dict(env.get("@pos", {}))
        k = ("src", self._base(source)) if items is not None else ("unk", key)
        i = pos.get(k, 0)
        if items is None:
            items = [("unknown-item", key)]
        if i >= len(items):
            return STOP
        pos[k] = i + 1
        env["@pos"] = pos
        return items[i]

    def next(self, node, env):
        source = self.ev.eval(node.info.get("iter"), env)
        item = self._take(source, env, node.line)
        how = "async" if node.kind == "pull" else "sync"
        env["@trace"] = env.get("@trace", ()) + (("end" if item is STOP else "next", how, self._base(source)) + (() if item is STOP else (item,)),)
        return item

    def _is_next_call(self, node):
        return node.kind == "call" and self._resolved(node.ast.func).split(".")[-1] == "next" and node.ast.args

    def raises(self, node, env):
        if self._is_next_call(node) and len(node.ast.args) == 1:
            source = self.ev.eval(node.ast.args[0], env)
            probe = dict(env)
            if self._take(source, probe, node.line) is STOP:
                env["@trace"] = env.get("@trace", ()) + (("end", "sync", self._base(source)),)
                return ("new", "StopIteration")
        return None

    def matches(self, type_node, exc, env):
        names = [norm(t) for t in (type_node.elts if isinstance(type_node, ast.Tuple) else [type_node])] if type_node is not None else ["BaseException"]
        if isinstance(exc, tuple) and exc[:1] == ("new",):
            return exc[1] in names or "BaseException" in names or "Exception" in names
        return UNKNOWN

    def visit(self, node, env, ev):
        if self._is_next_call(node):
            source = ev.eval(node.ast.args[0], env)
            item = self._take(source, env, node.line)
            if item is STOP:
                item = ev.eval(node.ast.args[1], env) if len(node.ast.args) > 1 else UNKNOWN
            else:
                env["@trace"] = env.get("@trace", ()) + (("next", "sync", self._base(source), item),)
            vals = dict(env.get("@callvals", {}))
            vals[id(node.ast)] = item
            env["@callvals"] = vals
        elif node.kind == "call":
            f = node.ast.func
            fv = env.get(f.id) if isinstance(f, ast.Name) else None
            if fv in self.sc.get("callables", {}):
                env["@trace"] = env.get("@trace", ()) + (("call", fv, tuple(norm(a) for a in node.ast.args),
                                                        tuple((k.arg, norm(k.value)) for k in node.ast.keywords)),)
        elif node.kind == "await":
            v = ev.eval(node.info.get("value"), env)
            if not (isinstance(v, tuple) and len(v) == 2 and v[0] == "@coro"):  # (a library coroutine is not a user awaitable)
                env["@trace"] = env.get("@trace", ()) + (("await", v),)
        elif node.kind == "yield":
            env["@trace"] = env.get("@trace", ()) + (("yield", ev.eval(node.info.get("value"), env)),)


def _run(ctx, u, scenario, env):
    ops = _ShapeOps(ctx, u.module, scenario)
    return Machine(cfg_of(u), ops, resolver=make_resolver(ctx, u, ops, coroutines=True)).run(env)


def r19_1(ctx) -> None:
    u = ctx.unit("asynctools.await_each")
    p = u.param_names()[0]
    for n_items in (0, 1, 2, 3):
        ctx.count("await_each_cells")
        items = [f"A{i + 1}" for i in range(n_items)]
        outs = _run(ctx, u, {"items": {"ARG": items}}, {p: "ARG"})
        want = tuple(ev for a in items for ev in (("next", "sync", "ARG", a), ("await", a), ("yield", ("val", a)))) \
            + (("end", "sync", "ARG"),)
        got = {oc.env.get("@trace", ()) for oc in outs if oc.terminal.kind == "exit"}
        bad = [oc for oc in outs if oc.terminal.kind != "exit"]
        ctx.check(got == {want} and not bad, "R19.1", u, "await_each",
                  f"[{n_items} awaitables] each step takes the next awaitable, awaits exactly it once and yields its value "
                  "before the following awaitable is touched (lazy, in input order)",
                  witness=f"evaluated trace(s): {sorted(map(str, got))[:2]}" + (f"; raises {bad[0].raised}" if bad else ""))


def r19_2(ctx, project=None) -> None:
    """``project``: compare only this aspect of the traces (a property that shares the table never
    demands more than it states): 'awaits' = what is awaited and what is iterated, in order."""
    u = ctx.unit("asynctools.any_iter")
    p = u.param_names()[0]
    table = {}
    for outer_awaitable in (False, True):
        resolved = ("val", "ARG") if outer_awaitable else "ARG"
        for is_async in (False, True):
            for item_awaitable in (False, True):
                ctx.count("any_iter_cells")
                sc = {"isinstance": {("ARG", "Awaitable"): outer_awaitable,
                                     (resolved, "AsyncIterable"): is_async, (resolved, "AsyncIterator"): is_async,
                                     ("ITEM", "Awaitable"): item_awaitable},
                      "items": {resolved: ["ITEM"]}}
                outs = _run(ctx, u, sc, {p: "ARG"})
                how = "async" if is_async else "sync"
                want = ((("await", "ARG"),) if outer_awaitable else ()) + (("next", how, resolved, "ITEM"),) \
                    + ((("await", "ITEM"), ("yield", ("val", "ITEM"))) if item_awaitable else (("yield", "ITEM"),)) \
                    + (("end", how, resolved),)
                got = {oc.env.get("@trace", ()) for oc in outs if oc.terminal.kind == "exit"}
                bad = [oc for oc in outs if oc.terminal.kind != "exit"]
                if project == "awaits":
                    def proj(tr):
                        return tuple((e[0],) + tuple(e[1:3]) for e in tr if e[0] in ("await", "next"))
                    want, got = proj(want), {proj(t) for t in got}
                cell = (f"{'awaitable of ' if outer_awaitable else ''}{'async' if is_async else 'sync'} iterable of "
                        f"{'awaitable' if item_awaitable else 'plain'} items")
                table[cell] = sorted(map(str, got))[:1]
                ctx.check(got == {want} and not bad, "R19.2", u, "any_iter",
                          f"[{cell}] the outer object is awaited iff it is an Awaitable, then iterated by its own protocol, "
                          "and each item is awaited (exactly once) iff it is an Awaitable",
                          witness=f"evaluated trace(s): {sorted(map(str, got))[:2]}" + (f"; raises {bad[0].raised}" if bad else ""))
    ctx.tables["any_iter shapes"] = table


class _ApplyOps(_ShapeOps):
    """apply(): positional awaitables A1, A2 and keyword awaitables k=V1, j=V2; list / dict
    comprehensions over them are evaluated element-wise (their awaits are traced by the CFG)."""

    def call(self, func, args, kwargs, node, env):
        if isinstance(node.func, ast.Attribute) and node.func.attr in ("items", "keys", "values") and not node.args:
            recv = self.ev.eval(node.func.value, env)
            if recv in self.sc.get("dicts", {}):
                return ("view", node.func.attr, recv)
        if func in ("list", "dict") and not args and not kwargs and not node.args and not node.keywords:
            return (func, ())
        return super().call(func, args, kwargs, node, env)

    def store(self, target, value, env, ev):
        if isinstance(target, ast.Subscript) and isinstance(target.value, ast.Name):
            held = env.get(target.value.id)
            if isinstance(held, tuple) and held[:1] == ("dict",):
                key = ev.eval(target.slice, env)
                pairs = [(k, v) for (k, v) in held[1] if k != key or key is UNKNOWN]
                env[target.value.id] = ("dict", tuple(pairs) + ((key, value),))
                return
        hook = getattr(super(), "store", None)
        if hook:
            hook(target, value, env, ev)

    def _elements(self, v):
        if v in self.sc.get("items", {}):
            return list(self.sc["items"][v])
        if isinstance(v, tuple) and v[:1] == ("view",):
            pairs = self.sc["dicts"][v[2]]
            return {"items": [(k, x) for k, x in pairs], "keys": [k for k, _x in pairs], "values": [x for _k, x in pairs]}[v[1]]
        return None

    def next(self, node, env):
        source = self.ev.eval(node.info.get("iter"), env)
        elems = self._elements(source)
        if elems is None:
            return super().next(node, env)
        pos = dict(env.get("@pos", {}))
        key = ("loop", node.id)
        i = pos.get(key, 0)
        if i >= len(elems):
            pos[key] = 0
            env["@pos"] = pos
            return STOP
        pos[key] = i + 1
        env["@pos"] = pos
        return elems[i]

    def other(self, e, env, ev):
        if isinstance(e, (ast.ListComp, ast.GeneratorExp, ast.DictComp)) and len(e.generators) == 1 and not e.generators[0].ifs:
            g = e.generators[0]
            elems = self._elements(ev.eval(g.iter, env))
            if elems is None:
                return UNKNOWN
            out = []
            for x in elems:
                env2 = dict(env)
                _bind(g.target, x, env2)
                out.append((ev.eval(e.key, env2), ev.eval(e.value, env2)) if isinstance(e, ast.DictComp) else ev.eval(e.elt, env2))
            return ("dict", tuple(out)) if isinstance(e, ast.DictComp) else ("list", tuple(out))
        if isinstance(e, ast.Starred):
            return ("*", ev.eval(e.value, env))
        if isinstance(e, ast.List) and not any(isinstance(x, ast.Starred) for x in e.elts):
            return ("list", tuple(ev.eval(x, env) for x in e.elts))
        if isinstance(e, ast.Dict) and all(k is not None for k in e.keys):
            return ("dict", tuple((ev.eval(k, env), ev.eval(v, env)) for k, v in zip(e.keys, e.values)))
        return UNKNOWN

    def visit(self, node, env, ev):
        if node.kind == "call":
            f = node.ast.func
            if isinstance(f, ast.Name) and env.get(f.id) == "FUNC":
                pos = tuple(ev.eval(a.value if isinstance(a, ast.Starred) else a, env) for a in node.ast.args)
                kws = tuple((k.arg, ev.eval(k.value, env)) for k in node.ast.keywords)
                env["@trace"] = env.get("@trace", ()) + (("call", "FUNC", pos, kws),)
                vals = dict(env.get("@callvals", {}))
                vals[id(node.ast)] = "RESULT"
                env["@callvals"] = vals
                return
            # a local list that is filled step by step (explicit loop instead of a comprehension);
            # ``L.append(x)`` is a statement of its own: evaluated here, once
            if isinstance(f, ast.Attribute) and isinstance(f.value, ast.Name) and f.attr == "append" \
                    and len(node.ast.args) == 1 and not node.ast.keywords:
                held = env.get(f.value.id)
                if isinstance(held, tuple) and held[:1] == ("list",):
                    env[f.value.id] = ("list", held[1] + (ev.eval(node.ast.args[0], env),))
                    return
        super().visit(node, env, ev)


def _bind(target, value, env) -> None:
    if isinstance(target, ast.Name):
        env[target.id] = value
    elif isinstance(target, (ast.Tuple, ast.List)) and isinstance(value, tuple) and len(value) == len(target.elts):
        for t, v in zip(target.elts, value):
            _bind(t, v, env)


def r19_3(ctx) -> None:
    u = ctx.unit("asynctools.apply")
    node = u.node
    f = u.param_names()[0]
    va = node.args.vararg.arg if node.args.vararg else None
    kw = node.args.kwarg.arg if node.args.kwarg else None
    ctx.check(va is not None and kw is not None, "R19.3", u, "apply", "apply takes (*args, **kwargs)")
    if va is None or kw is None:
        return
    for n_pos, n_kw in ((0, 0), (2, 0), (0, 2), (2, 2)):
        ctx.count("apply_cells")
        pos = [f"A{i + 1}" for i in range(n_pos)]
        pairs = [("k", "V1"), ("j", "V2")][:n_kw]
        sc = {"items": {"ARGS": pos}, "dicts": {"KWARGS": pairs}, "callables": {"FUNC": "RESULT"}}
        ops = _ApplyOps(ctx, u.module, sc)
        outs = Machine(cfg_of(u), ops, resolver=make_resolver(ctx, u, ops, coroutines=True)).run({f: "FUNC", va: "ARGS", kw: "KWARGS"})
        want_awaits = tuple(("await", x) for x in pos + [v for _k, v in pairs])
        want_call = ("call", "FUNC", (("list", tuple(("val", a) for a in pos)),),
                     ((None, ("dict", tuple((k, ("val", v)) for k, v in pairs))),))
        got = set()
        for oc in outs:
            tr = oc.env.get("@trace", ())
            awaits = tuple(e for e in tr if e[0] == "await")
            calls = tuple(e for e in tr if e[0] == "call")
            got.add((awaits, calls, oc.returned if oc.terminal.kind == "exit" else ("raises", str(oc.raised))))
        ok = got == {(want_awaits, (want_call,), "RESULT")}
        ctx.check(ok, "R19.3", u, "apply",
                  f"[{n_pos} positional, {n_kw} keyword awaitables] every argument is awaited exactly once, in order, and the "
                  "function is called once with the awaited values in their positions / under their own names; its value is returned",
                  witness=str(sorted(map(str, got)))[:500])


def r19_4(ctx) -> None:
    u = ctx.unit("asynctools.sync")
    p = u.param_names()[0]
    cfg = cfg_of(u)
    inner = [x for x in u.module.units.values() if x.parent is u and x.kind in ("coroutine", "sync", "asyncgen")]
    # coroutine functions pass through
    outs = _run(ctx, u, {"iscoroutinefunction": {"FUNC": True}}, {p: "FUNC"})
    got = {oc.returned if oc.terminal.kind == "exit" else ("raises", oc.raised) for oc in outs}
    ctx.check(got == {"FUNC"}, "R19.4", u, "sync", "[coroutine function] it is returned unchanged", witness=str(sorted(map(str, got))))
    # whatever else can be found out about the callable (what its attributes are, e.g. an ``async def __call__`` on a class):
    # as long as it is not itself a coroutine function, calling it need not give an awaitable, so it is wrapped
    try:
        outs = _run(ctx, u, {"iscoroutinefunction": {"FUNC": False}, "isinstance": {("FUNC", "partial"): False}}, {p: "FUNC"})
        got = {oc.returned if oc.terminal.kind == "exit" else ("raises", oc.raised) for oc in outs}
    except AnalysisError:
        got = set()
    ctx.check("FUNC" not in got, "R19.4", u, "sync",
              "[a callable that is not a coroutine function, whatever its attributes] it is never handed back unwrapped (a class whose "
              "instances have an async __call__ returns a plain instance when called)", witness=str(sorted(map(str, got)))[:300])
    # anything else: the nested coroutine wrapper is returned.  The callable may itself be a
    # functools.partial (FUNC = partial(INNER, ...)): what has to be called is FUNC, with its bound arguments
    def returned_wrappers(unit, depth=0):
        """what ``unit`` can return: nested definitions (units), 'PARAM' for its own argument, None for anything
        else — looking through conditional expressions and one private factory function"""
        out = []
        nested = [x for x in unit.module.units.values() if x.parent is unit]
        for r in own_nodes(unit.node):
            if not isinstance(r, ast.Return) or r.value is None:
                continue
            todo = [r.value]
            while todo:
                v = todo.pop()
                if isinstance(v, ast.IfExp):
                    todo += [v.body, v.orelse]
                elif isinstance(v, ast.Name) and v.id in unit.param_names():
                    out.append("PARAM")
                elif isinstance(v, ast.Name) and any(x.qualname.endswith("." + v.id) for x in nested):
                    out.append(next(x for x in nested if x.qualname.endswith("." + v.id)))
                elif isinstance(v, ast.Call) and depth < 2:
                    fv = ctx.vals.expr(unit, v.func, None)
                    ts = [ctx.pkg.lib_unit(a[1]) for a in fv if a[0] == "libfn"]
                    if len(ts) == 1 and ts[0] is not None and ts[0].kind == "sync" and len(v.args) == 1 and norm(v.args[0]) == unit.param_names()[0]:
                        out += [x for x in returned_wrappers(ts[0], depth + 1)]
                    else:
                        out.append(None)
                else:
                    out.append(None)
        return out

    found = [x for x in returned_wrappers(u) if x != "PARAM"]
    wrappers = []
    for x in found:
        if not any(x is y for y in wrappers):
            wrappers.append(x)
    ok = len(wrappers) == 1 and wrappers[0] is not None and wrappers[0].kind == "coroutine"
    ctx.check(ok, "R19.4", u, "sync", "[other callable] one coroutine wrapper is returned")
    if not ok:
        return
    w = wrappers[0]
    factory = w.parent  # sync() itself, or the private factory it delegates to
    fp = factory.param_names()[0]
    closures = {}
    for is_partial in (False, True):
        sc0 = {"iscoroutinefunction": {"FUNC": False, "INNER": False},
               "isinstance": {("FUNC", "partial"): is_partial, ("INNER", "partial"): False},
               "attrs": {("FUNC", "func"): "INNER"}}
        try:
            o2 = [oc for oc in _run(ctx, factory, sc0, {fp: "FUNC"}) if oc.terminal.kind == "exit"]
        except AnalysisError:
            o2 = []
        closures[is_partial] = [{k: v for k, v in oc.env.items() if not k.startswith("@")} for oc in o2]
    p = fp
    va = w.node.args.vararg.arg if w.node.args.vararg else None
    kw = w.node.args.kwarg.arg if w.node.args.kwarg else None
    for awaitable in (False, True):
        for is_partial in (False, True):
            ctx.count("sync_cells")
            sc = {"callables": {"FUNC": "RESULT", "INNER": "INNER-RESULT"}, "isinstance": {("RESULT", "Awaitable"): awaitable,
                                                                                            ("INNER-RESULT", "Awaitable"): awaitable}}
            got, bad = set(), []
            # (the wrapper is a closure: it runs in the environment sync() had built when it was defined)
            for closure in closures[is_partial] or [{}]:
                env = dict(closure)
                env[p] = "FUNC"
                for oc in _run(ctx, w, sc, env):
                    if oc.terminal.kind == "exit":
                        got.add((oc.env.get("@trace", ()), oc.returned))
                    else:
                        bad.append(oc)
            want_trace = (("call", "FUNC", (f"*{va}",), ((None, kw),)),) + ((("await", "RESULT"),) if awaitable else ())
            want_ret = ("val", "RESULT") if awaitable else "RESULT"
            ctx.check(got == {(want_trace, want_ret)} and not bad, "R19.4", w, w.node.name,
                      f"[{'a partial object' if is_partial else 'a function'}, {'awaitable' if awaitable else 'plain'} result] the very "
                      f"callable given to sync() is called once with *args, **kwargs and its result is "
                      f"{'awaited and the value returned' if awaitable else 'returned as is'}",
                      witness=str(sorted(map(str, got))[:2]))
    tries = [n for n in own_nodes(w.node) if isinstance(n, ast.Try) and n.handlers]
    ctx.check(not tries, "R19.4", w, tries[0] if tries else w.node.name, "the wrapper catches nothing (same exception as the target)")
    guard = [n for n in cfg.nodes if n.kind == "branch" and isinstance(n.ast, ast.Call) and norm(n.ast.func) == "callable"]
    ctx.check(bool(guard), "R19.4", u, "sync", "non-callables are rejected up front")
