"""C20 — streaming tools retain a bounded number of items (necessary clauses).

An unbounded container is an unbounded retention, so:

R20.1 no growing container: in every streaming tool and single-pass aggregation no container
      that outlives one iteration of a source-pulling loop receives items inside that loop
      (append / add / extend / insert / heappush / subscript store / comprehension over the
      source) — except the window table, each entry with a structural justification that is
      checked: ``batched`` (batch cleared at the start of every batch, filled by a
      ``range(n)`` loop), ``_largest`` heap (filled through ``zip(range(n), ..)``), ``merge``
      (one holder per source), tee buffers (R20.2), and the documented accumulators
      (cycle, sorted, list, tuple, set, dict).
R20.2 tee releases: a child takes items out of its buffer by a removing read and drops its
      buffer when it finishes (R09.4 / R09.6, shared).
R20.3 size-preserving heap maintenance: after the initial fill every heap operation inside
      the streaming loops of ``merge`` / ``_largest`` is size-preserving or shrinking.
R20.4 per-round temporaries (``zip_longest`` values, strict-zip items) are created inside
      the round loop, i.e. fresh each round (follows from R20.1's "outlives" test).
"""
from __future__ import annotations

import ast
from typing import Dict, List, Optional, Set, Tuple

from asl.cfg import Node, cfg_of
from asl.flow import find_path, node_defs
from asl.loader import norm, own_nodes
from asl.values import USERISH, atoms_deep
from . import c01, c04, c09
from .c05 import pull_nodes
from .common import real_units
from .common import present_units as _present

LEVEL = {
    "decided": "C20 (necessary clauses): (R20.1) no container that outlives an iteration of a source-pulling loop grows "
               "with the stream, except the windows whose bound is structurally checked (batched <= n, nlargest/nsmallest "
               "<= n, merge one head per source, tee buffers) and the documented accumulators; (R20.2) tee children remove "
               "what they yield and drop their buffer when done; (R20.3) heap operations in the streaming loops never grow "
               "the heap; (R20.4) per-round temporaries are fresh each round.",
    "not_decided": "measured object lifetimes (reference cycles, frames kept alive by tracebacks, interpreter "
                   "temporaries): those need execution with weak references.",
    "technique": "static analysis: growing-container analysis with a checked window table",
}
LEVEL["decided"] += " (R20.5) applies to every function that is handed an iterable and also covers the library's own collecting functions; (R20.7) no stored exception instance is raised (a re-raised instance accumulates one traceback entry and frame per raise)."
LEVEL["decided"] += " R20.5 also: a tool without a documented window never hands its source to one that has one (batched, nlargest, nsmallest, tee); (R20.8) the tee object refers to its children's buffers only through the list a finished child removes its buffer from."
LEVEL["decided"] += ' (R20.9) a container a streaming tool creates is not filled by a library helper / closure it is handed to.'
LEVEL["technique"] += '; evaluated tee construction (heap reachability of the buffers)'
LEVEL["decided"] += " R20.1 also reads private generators that a streaming tool iterates, plain loops over a user's synchronous iterable, and await_each / any_iter; a deque created with a literal maxlen is a window; replacing an element of a list is not growth."
LEVEL["decided"] += ' (R20.10) no streaming tool re-binds its iterator to a wrapper around itself once per round; R20.5 also covers itertools.tee / itertools.cycle of the standard library.'

STREAMING = c01.PASS_THROUGH + c01.TRANSFORMING + [
    "builtins.all", "builtins.any", "builtins.sum", "builtins._min_max", "functools.reduce", "heapq._largest",
    "heapq._KeyIter.from_iters", "itertools._GroupByState.step", "asynctools.await_each", "asynctools.any_iter"]
ACCUMULATORS = {
    "itertools.cycle": "documented: all items are stored for replay",
    "builtins.sorted": "builds the result list", "builtins.list": "builds the result", "builtins.tuple": "builds the result",
    "builtins.set": "builds the result", "builtins.dict": "builds the result",
}
#: the tools with a documented window (the statement's list); any other tool is bounded by a small constant per source
WINDOW_TOOLS = {
    "itertools.batched": "one batch of n items", "heapq.nlargest": "n items", "heapq.nsmallest": "n items",
    "heapq._largest": "n items", "itertools.Tee": "the lead of the fastest child", "itertools.tee": "the lead of the fastest child",
    "itertools.Tee.__init__": "the lead of the fastest child", "itertools.tee_peer": "the lead of the fastest child",
}
GROW_METHODS = {"append", "appendleft", "add", "extend", "extendleft", "insert", "update", "setdefault"}
HEAP_GROW = {"heappush"}
HEAP_KEEP = {"heapreplace", "heappushpop", "heappop", "heapify"}


def run(ctx) -> None:
    for rid, text in (("R20.1", "no container outliving a pull-loop iteration grows inside it (window table checked)"),
                      ("R20.2", "tee: removing read, buffer dropped when done"),
                      ("R20.3", "heap operations in streaming loops are size-preserving or shrinking"),
                      ("R20.4", "per-round temporaries are created inside the round loop")):
        ctx.rule(rid, text)
    ctx.tables["documented accumulators"] = ACCUMULATORS
    for short in _present(ctx, STREAMING):
        ctx.count("streaming_units")
        if short in ACCUMULATORS:
            ctx.ok("R20.1", short, f"documented accumulator: {ACCUMULATORS[short]}")
            continue
        r20_1(ctx, ctx.inlined(ctx.unit(short)))
    # private generators a streaming tool iterates (a step split off into a helper): what they keep is kept by the tool
    for h in _helper_generators(ctx, [s_ for s_ in _present(ctx, STREAMING) if s_ not in ACCUMULATORS]):
        ctx.count("streaming_helpers")
        r20_1(ctx, ctx.inlined(h))
    r20_2(ctx)
    r20_3(ctx)
    r20_5(ctx)
    r20_6(ctx)
    r20_7(ctx)
    r20_8(ctx)
    r20_9(ctx)
    r20_10(ctx)
    ctx.floor("streaming_units", 20)
    ctx.floor("pull_loops", 15)
    ctx.floor("windows_checked", 3)


MATERIALISERS = {"tuple", "list", "sorted", "set", "frozenset", "dict", "deque", "reversed", "sum", "max", "min", "len"}
ADAPTERS = ["_core.aiter", "_core._aiter_sync", "_core.borrow", "_core.ScopedIter.__init__", "_core.ScopedIter.__aenter__",
            "builtins.iter", "builtins.anext", "asynctools.borrow", "asynctools.scoped_iter", "asynctools.any_iter",
            "asynctools.await_each"]


HANDLE_CLASSES = ["itertools._GroupByState", "itertools._Grouper", "itertools.GroupBy", "itertools.chain"]


def _is_exception_instance(ctx, mod, e) -> bool:
    if not isinstance(e, ast.Call):
        return False
    r = ctx.pkg.resolve_expr_global(mod, e.func)
    name = (r.qual if r.kind in ("builtin", "stdlib", "lib") else norm(e.func)).split(".")[-1]
    return name.endswith(("Error", "Exception", "Iteration", "Exit", "Interrupt", "Warning")) or name == "CancelledError"


def r20_7(ctx) -> None:
    """Every time an exception *instance* is raised, CPython prepends the raising frame to its
    ``__traceback__``; the frames (and the locals they hold: items, keys, groups) stay reachable
    for as long as the instance does.  An instance kept on a handle, a class or a module and raised
    again and again therefore retains one frame per raise — unbounded in the length of the input.
    Raised objects must be fresh (a class, a call) or the exception currently being handled."""
    ctx.rule("R20.7", "no exception instance stored on an object, class or module is raised (a re-raised instance accumulates a traceback "
                      "entry, and the frame it pins, per raise)")
    stored_attrs, stored_globals = {}, {}
    for u in real_units(ctx):
        for st in own_nodes(u.node):
            if isinstance(st, (ast.Assign, ast.AnnAssign)) and st.value is not None and _is_exception_instance(ctx, u.module, st.value):
                for t in (st.targets if isinstance(st, ast.Assign) else [st.target]):
                    if isinstance(t, ast.Attribute):
                        stored_attrs[t.attr] = (u, st)
    for mod in ctx.pkg.modules.values():
        for info in mod.classes.values():
            for st in info.node.body:
                if isinstance(st, (ast.Assign, ast.AnnAssign)) and st.value is not None and _is_exception_instance(ctx, mod, st.value):
                    for t in (st.targets if isinstance(st, ast.Assign) else [st.target]):
                        if isinstance(t, ast.Name):
                            stored_attrs[t.id] = (None, st)
        for st in mod.tree.body:
            if isinstance(st, (ast.Assign, ast.AnnAssign)) and st.value is not None and _is_exception_instance(ctx, mod, st.value):
                for t in (st.targets if isinstance(st, ast.Assign) else [st.target]):
                    if isinstance(t, ast.Name):
                        stored_globals[(mod.short, t.id)] = st
    for u in real_units(ctx):
        handler_names = {h.name for h in own_nodes(u.node) if isinstance(h, ast.ExceptHandler) and h.name}
        local_names = {x.id for x in own_nodes(u.node) if isinstance(x, ast.Name) and isinstance(x.ctx, ast.Store)} | set(u.param_names())
        for r in own_nodes(u.node):
            if not isinstance(r, ast.Raise) or r.exc is None:
                continue
            ctx.count("raise_sites")
            e = r.exc
            bad = None
            if isinstance(e, ast.Attribute) and e.attr in stored_attrs:
                bad = f"`{norm(e)}` is an exception instance stored by `{norm(stored_attrs[e.attr][1]).splitlines()[0]}`"
            elif isinstance(e, ast.Name) and e.id not in handler_names and e.id not in local_names and (u.module.short, e.id) in stored_globals:
                bad = f"`{e.id}` is a module-level exception instance"
            if bad:
                ctx.fail("R20.7", u, r, f"{bad}: raising it again and again chains one traceback entry (and the frame with its "
                         "locals) per raise onto the same object", line=r.lineno)
    ctx.ok("R20.7", "package", "raised objects are classes, fresh instances or the exception being handled")


def r20_6(ctx) -> None:
    """The handle classes (groupby machinery, chain) keep a fixed number of references: no method
    that runs per item / per group adds to a container held by the handle."""
    ctx.rule("R20.6", "groupby / chain handles: no container attribute grows in a method that runs per item or per group")
    for short in HANDLE_CLASSES:
        info = ctx.pkg.cls(short)
        for mname, m in info.methods.items():
            if mname == "__init__":
                continue
            bad = 0
            for c in own_nodes(m.node):
                if isinstance(c, ast.Call) and isinstance(c.func, ast.Attribute) and c.func.attr in GROW_METHODS | {"__setitem__"} \
                        and isinstance(c.func.value, ast.Attribute):
                    bad += 1
                    ctx.fail("R20.6", m, c, f"`{norm(c.func)}(...)` adds to a container held by the handle every time {mname} runs: "
                             "retention grows with the number of items / groups", line=c.lineno)
                if isinstance(c, ast.Assign) and any(isinstance(t, ast.Subscript) and isinstance(t.value, ast.Attribute) for t in c.targets):
                    bad += 1
                    ctx.fail("R20.6", m, c, "a subscript store into a container held by the handle: retention may grow with the stream",
                             line=c.lineno)
            # ... nor builds a chain: an object made once per item / group is not handed an earlier object of its own class
            # (``_Grouper(key, state, previous_group)``: every group keeps its predecessor - and that one's key - alive)
            mcfg = cfg_of(m)
            for n in mcfg.nodes:
                if n.kind != "call" or n.tag:
                    continue
                r_ = ctx.pkg.resolve_expr_global(m.module, n.ast.func)
                made = ctx.pkg.lib_class(r_.qual) if r_.kind == "lib" else None
                if made is None:
                    continue
                for a in list(n.ast.args) + [k.value for k in n.ast.keywords]:
                    a = a.value if isinstance(a, ast.Starred) else a
                    if any(x[0] == "libinst" and x[1] == made.fq for x in ctx.vals.expr(m, a, n)):
                        bad += 1
                        ctx.fail("R20.6", m, n.ast, f"`{norm(n.ast)[:80]}` hands the new {made.name} an earlier {made.name}: the objects made "
                                 f"by {mname} form a chain that keeps every one of them (and what it refers to) alive", node=n)
            if not bad:
                ctx.count("handle_methods")
    ctx.ok("R20.6", "itertools", "no handle method grows a container attribute")


def _is_source(ctx, u, e, n) -> bool:
    """``e`` denotes (an iterator of) an iterable parameter of some library function"""
    from asl.values import roles_of_annotation
    for x in ctx.vals.expr(u, e, n):
        while x[0] == "borrowed" and isinstance(x[1], tuple):
            x = x[1]  # a borrowed view hands out the very items of what it wraps
        if x[0] == "iter" and isinstance(x[1], tuple) and x[1][:1] == ("user",):
            x = x[1]
        if x[0] == "item" and ":" in str(x[1]):
            # an item of an iterable *of iterables* (chain's argument) is a source itself
            owner, _, pname = str(x[1]).partition(":")
            ou = ctx.pkg.unit(owner) if ctx.pkg.has_unit(owner) else None
            ann = next((p.annotation for p in ou.params() if p.arg == pname.rstrip("[]")), None) if ou is not None else None
            if ann is not None and norm(ann).count("Iterable[") >= 2:
                return True
            continue
        if x[0] not in ("user", "iter", "siter") or ":" not in str(x[1]):
            continue
        owner, _, pname = x[1].partition(":")
        ou = ctx.pkg.unit(owner) if ctx.pkg.has_unit(owner) else None
        ann = next((p.annotation for p in ou.params() if p.arg == pname), None) if ou is not None else None
        if ann is not None and ({"ITERABLE", "ITERATOR"} & roles_of_annotation(ann)) \
                and not (ou.node.args.vararg is not None and ou.node.args.vararg.arg == pname):
            return True
    return False


def r20_5(ctx) -> None:
    """No tool or adapter materialises a source: handing a user's iterable to tuple()/list()/
    sorted()/... creates every item up front and keeps all of them alive until the tool ends."""
    from asl.values import roles_of_annotation
    ctx.rule("R20.5", "no streaming tool or iteration adapter hands a source iterable to a materialising builtin "
                      "(tuple, list, sorted, set, dict, deque, ...)")
    units = [s for s in STREAMING + ADAPTERS if ctx.pkg.has_unit(s)]
    # ... and every other function that is handed an iterable (public wrappers such as nlargest/min/max)
    for x in real_units(ctx):
        if x.parent is None and not x.is_overload() and x.short not in units and any(
                "ITERABLE" in roles_of_annotation(p.annotation) for p in x.params()):
            units.append(x.short)
    for short in units:
        if short in ACCUMULATORS or ctx.pkg.canonical(ctx.unit(short)) in ACCUMULATORS:
            continue
        u = ctx.inlined(ctx.unit(short))
        cfg = cfg_of(u)
        bad = 0
        seen_displays: Set[int] = set()
        for n in cfg.nodes:
            if n.kind != "call" or n.tag:
                continue
            r = ctx.pkg.resolve_expr_global(u.module, n.ast.func)
            name = r.qual.split(".")[-1] if r.kind in ("builtin", "stdlib") else ""
            lib_acc = None
            if r.kind == "lib":
                t = ctx.pkg.lib_unit(r.qual)
                if t is not None and ctx.pkg.canonical(t) in ACCUMULATORS and ctx.pkg.canonical(t) != "itertools.cycle":
                    lib_acc = t  # the library's own collecting functions keep every item as well
            if r.kind == "lib" and lib_acc is None:
                t = ctx.pkg.lib_unit(r.qual)
                tc = ctx.pkg.lib_class(r.qual) if t is None else None
                tq = ctx.pkg.canonical(t) if t is not None else (ctx.pkg.canonical_class(tc) if tc is not None else None)
                own = ctx.pkg.canonical(ctx.unit(short))
                if tq in WINDOW_TOOLS and own not in WINDOW_TOOLS:
                    for a in n.ast.args[:1]:
                        if not isinstance(a, ast.Starred) and _is_source(ctx, u, a, n):
                            bad += 1
                            ctx.fail("R20.5", u, n, f"`{norm(n.ast.func)}(...)` is handed the source `{norm(a)}`: it keeps its window "
                                     f"({WINDOW_TOOLS[tq]}) alive, and {short.split('.')[-1]} has no documented window of its own", node=n)
                continue
            if lib_acc is None and r.kind == "stdlib" and r.qual in ("itertools.tee", "itertools.cycle"):
                # the standard library's own buffering tools: tee keeps every item one of its branches has not taken yet (a
                # branch that is only peeked at keeps all the rest), cycle keeps them all
                for a in n.ast.args[:1]:
                    if not isinstance(a, ast.Starred) and _is_source(ctx, u, a, n) and ctx.pkg.canonical(ctx.unit(short)) not in WINDOW_TOOLS:
                        bad += 1
                        ctx.fail("R20.5", u, n, f"`{norm(n.ast.func)}(...)` is handed the source `{norm(a)}`: {r.qual} buffers what one "
                                 "of its branches has not consumed - an unbounded window that this tool does not document", node=n)
                continue
            if lib_acc is None and (name not in MATERIALISERS or (r.kind == "stdlib" and not r.qual.startswith(("builtins.", "collections.")))):
                continue
            for a in n.ast.args[:1]:
                if isinstance(a, ast.Starred):
                    continue
                if _is_source(ctx, u, a, n):
                    bad += 1
                    ctx.fail("R20.5", u, n, f"`{norm(n.ast.func)}(...)` materialises the source `{norm(a)}`: every item is "
                             "created and retained at once instead of one at a time", node=n)
        # displays with a starred source: ``(*iterable,)`` / ``[*iterable]`` / ``{*iterable}``
        for n in cfg.nodes:
            if n.tag or n.ast is None:
                continue
            for d in ast.walk(n.ast):
                if not isinstance(d, (ast.Tuple, ast.List, ast.Set)) or id(d) in seen_displays:
                    continue
                for e in d.elts:
                    if isinstance(e, ast.Starred) and _is_source(ctx, u, e.value, n):
                        seen_displays.add(id(d))
                        bad += 1
                        ctx.fail("R20.5", u, d, f"`{norm(d)}` unpacks the source `{norm(e.value)}` into a container: every "
                                 "item is created and retained at once instead of one at a time", node=n)
        if not bad:
            ctx.ok("R20.5", u, "no source is handed to a materialising builtin")


def _loops_with_pulls(ctx, u) -> List[Tuple[ast.AST, Node]]:
    """(loop ast, representative node) for loops whose body (transitively) pulls a user source."""
    cfg = cfg_of(u)
    pulls = pull_nodes(ctx, u)
    # a plain ``for`` over a user's (synchronous) iterable takes stream items as well (await_each, the sync adapter)
    for n in cfg.nodes:
        if n.kind == "snext" and not n.tag and n not in pulls and isinstance(n.ast, ast.For):
            v = ctx.vals.expr(u, n.info.get("iter"), n)
            if any(a[0] in ("user", "iter", "siter") for a in v) and not _is_per_source_loop(ctx, u, n.ast):
                pulls.append(n)
    out = []
    seen = set()
    for p in pulls:
        for (k, a) in p.regions:
            if k == "loop" and id(a) not in seen:
                seen.add(id(a))
                out.append((a, p))
        if p.kind in ("pull", "snext") and id(p.ast) not in seen:
            seen.add(id(p.ast))
            out.append((p.ast, p))
    return out


def _is_per_source_loop(ctx, u, loop_ast) -> bool:
    """A synchronous loop / comprehension over the container of sources: bounded by the
    number of sources."""
    it = getattr(loop_ast, "iter", None)
    if it is None or isinstance(loop_ast, ast.AsyncFor) or getattr(loop_ast, "is_async", 0):
        return False
    cfg = cfg_of(u)
    nodes = [n for n in cfg.nodes if n.kind == "siter" and n.ast is loop_ast]
    # ``for i in range(len(sources))``: one round per source as well
    over = it
    if isinstance(it, ast.Call) and norm(it.func) == "range" and len(it.args) == 1 and isinstance(it.args[0], ast.Call) \
            and norm(it.args[0].func) == "len" and len(it.args[0].args) == 1:
        over = it.args[0].args[0]
    for n in nodes:
        v = ctx.vals.element_of(ctx.vals.expr(u, over, n))
        if any(a[0] in ("user", "iter") for a in atoms_deep(v)):
            return True
    return False


def r20_1(ctx, u) -> None:
    cfg = cfg_of(u)
    loops = _loops_with_pulls(ctx, u)
    ctx.count("pull_loops", len(loops))
    bad = 0
    for n in cfg.nodes:
        if n.tag or any(k == "finally" for (k, _a) in n.regions):
            continue
        grown: Optional[ast.AST] = None
        value_expr: Optional[ast.AST] = None
        how = ""
        if n.kind == "call":
            call = n.ast
            f = call.func  # type: ignore[union-attr]
            if isinstance(f, ast.Attribute) and f.attr in GROW_METHODS and call.args:  # type: ignore[union-attr]
                grown, value_expr, how = f.value, call.args[-1], f".{f.attr}()"  # type: ignore[union-attr]
            elif norm(f).split(".")[-1] in HEAP_GROW and len(call.args) >= 2:  # type: ignore[union-attr]
                grown, value_expr, how = call.args[0], call.args[1], "heappush()"  # type: ignore[union-attr]
        elif n.kind == "store":
            for t in n.info.get("targets", []):
                if isinstance(t, ast.Subscript) and n.info.get("value") is not None and not isinstance(t.slice, ast.Slice):
                    grown, value_expr, how = t.value, n.info["value"], "[...] = "
            if n.info.get("aug") and isinstance(n.ast, ast.AugAssign) and isinstance(n.ast.value, (ast.List, ast.Tuple, ast.ListComp)):
                grown, value_expr, how = n.ast.target, n.ast.value, "+="
        elif n.kind == "collect":
            comp = n.ast
            gens = comp.generators  # type: ignore[union-attr]
            pulling = [g for g in gens if any(p.ast is g for p in cfg.nodes if p.kind == "pull")]
            per_source = all(_is_per_source_loop(ctx, u, g) for g in gens if g not in pulling)
            if pulling or not per_source:
                inner_pull = any(p.in_region("loop", g) for g in gens for p in pull_nodes(ctx, u))
                if pulling or inner_pull:
                    ok, why = _window(ctx, u, cfg, None, comp, n)
                    if ok:
                        ctx.count("windows_checked")
                        ctx.ok("R20.1", u, f"comprehension at line {n.line} is a bounded window: {why}")
                    else:
                        bad += 1
                        ctx.fail("R20.1", u, comp, "a comprehension collects the whole source: retention grows with the "
                                 "length of the stream", node=n, witness=why)
            continue
        if grown is None:
            continue
        if how == "[...] = " and isinstance(grown, ast.Name):
            # ``xs[i] = v`` on a list replaces an element, it cannot add one: every binding of xs is a list display,
            # a list comprehension or list(...)
            binds = [d.info.get("value") for d in cfg.nodes if d.kind == "store" and not d.tag and grown.id in node_defs(d)]
            if binds and grown.id not in u.param_names() and all(
                    isinstance(b, (ast.List, ast.ListComp)) or (isinstance(b, ast.Call) and norm(b.func).split(".")[-1] == "list")
                    or (isinstance(b, ast.BinOp) and isinstance(b.op, ast.Mult) and isinstance(b.left, ast.List))
                    for b in binds):
                continue
        v = ctx.vals.expr(u, value_expr, n)
        if not any(a[0] in ("item", "result", "user", "usernext", "libinst") for a in atoms_deep(v)):
            continue
        # which pull loops contain this growth node, and does the container outlive them?
        enclosing = [(a, p) for (a, p) in loops if n.in_region("loop", a)]
        enclosing = [(a, p) for (a, p) in enclosing if not _is_per_source_loop(ctx, u, a)]
        if not enclosing:
            continue
        name = grown.id if isinstance(grown, ast.Name) else None
        outlives = []
        for (a, _p) in enclosing:
            if name is None:
                outlives.append(a)
                continue
            defs = [d for d in cfg.nodes if d.kind == "store" and not d.tag and name in node_defs(d)]
            if name in u.param_names() or not defs or any(not d.in_region("loop", a) for d in defs):
                outlives.append(a)
        if not outlives:
            continue
        ok, why = _window(ctx, u, cfg, name, grown, n)
        if ok:
            ctx.count("windows_checked")
            ctx.ok("R20.1", u, f"`{norm(grown)}` is a bounded window: {why}")
            continue
        bad += 1
        ctx.fail("R20.1", u, n.ast, f"container `{norm(grown)}` outlives an iteration of the source loop and receives "
                 f"stream items through {how}: retention grows with the number of items that have passed through",
                 node=n, witness=why)
    if not bad:
        ctx.ok("R20.1", u, "no container grows with the stream")


def _window(ctx, u, cfg, name: Optional[str], grown: ast.AST, n: Node) -> Tuple[bool, str]:
    """Structural justification of a bounded window."""
    short = ctx.pkg.canonical(u)
    if short == "itertools.batched" and name is not None:
        # cleared at the start of every batch and filled by a range(n)-bounded loop
        fill_loops = [a for (k, a) in n.regions if k == "loop" and isinstance(a, ast.For)
                      and isinstance(a.iter, ast.Call) and norm(a.iter.func) == "range"]
        clears = [c for c in cfg.nodes if c.kind == "call" and not c.tag and norm(c.ast.func) == f"{name}.clear"]  # type: ignore[union-attr]
        if not fill_loops:
            return False, "the batch is not filled by a range(n)-bounded loop"
        fl = fill_loops[0]
        heads = [s for s in cfg.nodes if s.kind == "siter" and s.ast is fl and not s.tag]
        rebinds = [s for s in cfg.nodes if s.kind == "store" and not s.tag
                   and any(isinstance(t, ast.Name) and t.id == name for t in s.info.get("targets", []))]
        if not clears and not any(s.in_loop() for s in rebinds):
            return False, "the batch is never cleared (nor started afresh)"
        for h in heads:
            # once a fill is complete, every way back into the fill loop passes a clear() (or a fresh list)
            outer = [a for (k, a) in h.regions if k == "loop"]
            if not outer:
                return False, "the fill loop is not inside a batch loop"
            for lab, after in h.succ:
                if lab != "stop":
                    continue
                path = find_path(after, lambda x: x is h, avoid=lambda x: x in clears or x in rebinds,
                                 edge_ok=lambda a, lab_, b: lab_ not in ("e", "p"))
                if path is not None:
                    return False, "a new batch can start without clearing the previous one"
        return True, "cleared between any two batches, filled by a range(n) loop (<= n items)"
    if short == "heapq._largest":
        comp = grown if isinstance(grown, ast.ListComp) else None
        if comp is not None:
            it = comp.generators[0].iter
            bounded = isinstance(it, ast.Call) and any(isinstance(a, ast.Call) and norm(a.func) == "range" for a in it.args)
            return (bounded, "filled through zip(range(n), ...): at most n entries" if bounded else
                    "the initial fill is not bounded by range(n)")
        # the same fill written as an explicit loop: ``async for index, item in zip(range(n), ...): heap.append(...)``
        fills = [a for (k, a) in n.regions if k == "loop" and isinstance(a, (ast.AsyncFor, ast.For)) and isinstance(a.iter, ast.Call)
                 and (any(isinstance(x, ast.Call) and norm(x.func) == "range" for x in a.iter.args)
                      or (isinstance(a, ast.For) and norm(a.iter.func) == "range"))]  # (zip(range(n), ..) or a plain range(n) loop)
        if fills and n.kind == "call" and norm(n.ast.func).split(".")[-1] == "append":
            return True, "filled in a loop over (zip(..) of) range(n): at most n entries"
        return False, "the heap grows outside its initial fill"
    if short == "heapq.merge":
        if not ctx.pkg.has_unit("heapq._KeyIter.from_iters"):
            # no per-source fill generator: a fill in a plain loop over the container of sources adds one holder per source
            per_source = [a for (k, a) in n.regions if k == "loop" and _is_per_source_loop(ctx, u, a)]
            if per_source and n.kind == "call" and norm(n.ast.func).split(".")[-1] == "append":
                return True, "one head holder per source (filled in a loop over the sources)"
            return False, "the heap grows outside its initial fill"
        fill_name = ctx.unit("heapq._KeyIter.from_iters").node.name  # (found structurally when renamed / moved)
        comp = grown if isinstance(grown, ast.ListComp) else None
        if comp is not None:
            text = norm(comp.generators[0].iter)
            ok = fill_name in text
            return (ok, "one head holder per source (from_iters yields one per iterator)" if ok else
                    "the heap is not filled from the per-source initial fill")
        # explicit fill loop: the enclosing async-for ranges over the per-source generator
        fills = [a for (k, a) in n.regions if k == "loop" and isinstance(a, ast.AsyncFor) and fill_name in norm(a.iter)]
        if fills and n.kind == "call" and norm(n.ast.func).split(".")[-1] == "append":
            return True, "one head holder per source (filled in the loop over from_iters)"
        return False, "the heap grows outside its initial fill"
    if short == "itertools.tee_peer":
        ok = isinstance(grown, ast.Name) and any(isinstance(a, ast.For) and norm(a.iter) in u.param_names()
                                                  for (k, a) in n.regions if k == "loop")
        return (ok, "peer buffers: bounded by the lead of the fastest over the slowest live child (R20.2)" if ok else
                "tee buffers are written outside the broadcast loop")
    if name is not None:
        # a deque that is bounded when it is made: ``deque(init, K)`` / ``deque(init, maxlen=K)`` with a literal K
        binds = [d.info.get("value") for d in cfg.nodes if d.kind == "store" and not d.tag and name in node_defs(d)]
        def bounded(b) -> bool:
            if not (isinstance(b, ast.Call) and norm(b.func).split(".")[-1] == "deque"):
                return False
            m = b.args[1] if len(b.args) == 2 else next((k.value for k in b.keywords if k.arg == "maxlen"), None)
            return isinstance(m, ast.Constant) and isinstance(m.value, int) and not isinstance(m.value, bool) and 0 < m.value <= 16
        if binds and all(bounded(b) for b in binds):
            return True, "a deque created with a literal maxlen: the oldest item is dropped when a new one arrives"
    return False, "not a documented window"


def _helper_generators(ctx, shorts) -> List:
    """Private async generators of the library that a streaming unit calls (directly or through another such helper) and
    that are not themselves in the unit table."""
    known = {ctx.pkg.canonical(ctx.unit(s_)) for s_ in shorts} | set(WINDOW_TOOLS) | set(ACCUMULATORS) | set(STREAMING)
    out, seen, work = [], set(), [ctx.unit(s_) for s_ in shorts]
    depth = {id(u.node): 0 for u in work}
    while work:
        u = work.pop()
        for call in own_nodes(u.node):
            if not isinstance(call, ast.Call):
                continue
            try:
                r = ctx.pkg.resolve_expr_global(u.module, call.func)
            except Exception:  # noqa: BLE001
                continue
            t = ctx.pkg.lib_unit(r.qual) if r is not None and r.kind == "lib" else None
            if t is None or t.kind != "asyncgen" or id(t.node) in seen or not t.node.name.startswith("_") or t.cls is not None:
                continue
            if ctx.pkg.canonical(t) in known or t.short in known:
                continue
            seen.add(id(t.node))
            out.append(t)
            if depth.get(id(u.node), 0) < 2:
                depth[id(t.node)] = depth.get(id(u.node), 0) + 1
                work.append(t)
    return out


def r20_2(ctx) -> None:
    u = ctx.unit("itertools.tee_peer")
    cfg = cfg_of(u)
    P = c09._params(u)
    ys = [n for n in cfg.nodes if n.kind == "yield" and not n.tag]
    for y in ys:
        v = y.info.get("value")
        ok = isinstance(v, ast.Call) and isinstance(v.func, ast.Attribute) and norm(v.func.value) == P["buffer"] \
            and v.func.attr in ("popleft", "pop")
        ctx.check(ok, "R20.2", u, y, "an item leaves the child's buffer when the child yields it (removing read)", node=y)
    # a finished child's buffer stops receiving because the broadcast runs over the *live* shared list each time: what is
    # appended to must be found by iterating that list at the moment of the broadcast (not callables / a copy taken earlier)
    vu = ctx.inlined(u)
    vcfg = cfg_of(vu)
    main = [n for n in vcfg.nodes if not n.tag]
    loops = c09._broadcast_loops(vcfg, main, P, None)
    ctx.check(bool(loops), "R20.2", u, "tee_peer", "a fetched item is appended to the buffers found in the shared list at that moment "
              "(a list of buffers / bound appends taken when the child started keeps feeding children that are done)")
    before = len(ctx.findings)
    c04.r04_5(_Relabel(ctx, "R20.2"))
    if len(ctx.findings) == before:
        ctx.ok("R20.2", u, "a finished child drops its buffer (nothing is buffered for it any more)")


class _Relabel:
    def __init__(self, ctx, rid):
        self._ctx, self._rid = ctx, rid

    def __getattr__(self, name):
        return getattr(self._ctx, name)

    def ok(self, rule, *a, **k):
        return None

    def count(self, *a, **k):
        return None

    def check(self, cond, rule, *a, **k):
        if not cond:
            return self._ctx.check(cond, self._rid, *a, **k)
        return cond

    def fail(self, rule, *a, **k):
        return self._ctx.fail(self._rid, *a, **k)


def r20_10(ctx) -> None:
    """A streaming tool that re-binds its iterator to a *wrapper around that very iterator* once per round
    (``it = chain((head,), it)`` to push an item back) builds one more layer per round; every layer stays alive, with
    whatever it holds, for as long as the outermost one is used."""
    ctx.rule("R20.10", "no streaming tool wraps its own iterator again in every round (`it = wrapper(.., it)` inside the loop that "
                       "consumes the stream): the layers pile up with the length of the stream")
    bad = 0
    units = [ctx.unit(s_) for s_ in _present(ctx, STREAMING) if s_ not in ACCUMULATORS]
    units += _helper_generators(ctx, [s_ for s_ in _present(ctx, STREAMING) if s_ not in ACCUMULATORS])
    for u0 in units:
        u = ctx.inlined(u0)
        cfg = cfg_of(u)
        loops = _loops_with_pulls(ctx, u)
        for n in cfg.nodes:
            if n.kind != "store" or n.tag or not isinstance(n.info.get("value"), ast.Call):
                continue
            tg = n.info.get("targets", [None])[0]
            call = n.info["value"]
            if not isinstance(tg, ast.Name) or len(n.info.get("targets", [])) != 1:
                continue
            args = [a_.value if isinstance(a_, ast.Starred) else a_ for a_ in call.args] + [k_.value for k_ in call.keywords]
            if not any(isinstance(a_, ast.Name) and a_.id == tg.id for a_ in args):
                continue
            if not any(n.in_region("loop", a) for (a, _p) in loops if not _is_per_source_loop(ctx, u, a)):
                continue
            v = ctx.vals.expr(u, call, n)
            if any(a_[0] in ("libinst", "libgen", "borrowed", "iter", "scoped", "genexp", "stdlibval") for a_ in v):
                bad += 1
                ctx.fail("R20.10", u, n.ast, f"`{tg.id}` is re-bound to a wrapper around itself inside the loop that consumes the stream: "
                         "one more layer per round, each kept alive (with what it holds) by the next", node=n)
    if not bad:
        ctx.ok("R20.10", "package", "no streaming tool re-wraps its iterator per round")


def r20_9(ctx) -> None:
    """A container a streaming tool creates and hands to a helper (or a closure factory) of the library is as good as its own:
    if the helper - or a function defined inside it - adds to it, it grows with the stream just the same (R20.1 looks at
    the tool's own loops only)."""
    ctx.rule("R20.9", "a container created by a streaming tool is not filled by a library helper / closure it is handed to "
                      "(a memo that is written for every item and never provably emptied retains the stream)")
    fresh = {"dict", "list", "set", "deque", "OrderedDict", "defaultdict"}
    sites = 0
    for short in _present(ctx, STREAMING):
        if short in ACCUMULATORS or ctx.pkg.canonical(ctx.unit(short)) in ACCUMULATORS or ctx.pkg.canonical(ctx.unit(short)) in WINDOW_TOOLS:
            continue
        u = ctx.inlined(ctx.unit(short))
        made = set()
        for st in own_nodes(u.node):
            tgt = st.targets[0] if isinstance(st, ast.Assign) and len(st.targets) == 1 else st.target if isinstance(st, ast.AnnAssign) else None
            val = getattr(st, "value", None)
            if isinstance(tgt, ast.Name) and (isinstance(val, (ast.Dict, ast.List, ast.Set)) and not getattr(val, "elts", getattr(val, "keys", []))
                                              or isinstance(val, ast.Call) and not val.args and norm(val.func).split(".")[-1] in fresh):
                made.add(tgt.id)
        if not made:
            continue
        for c in own_nodes(u.node):
            if not isinstance(c, ast.Call):
                continue
            r = ctx.pkg.resolve_expr_global(u.module, c.func)
            t = ctx.pkg.lib_unit(r.qual) if r.kind == "lib" else None
            if t is None:
                continue
            names = t.param_names()
            for i, a in enumerate(c.args):
                if not (isinstance(a, ast.Name) and a.id in made and i < len(names)):
                    continue
                pn = names[i]
                grown = None
                for x in ast.walk(t.node):  # (nested definitions included: a closure over the parameter)
                    if isinstance(x, ast.Subscript) and isinstance(x.ctx, ast.Store) and isinstance(x.value, ast.Name) and x.value.id == pn:
                        grown = x
                    if isinstance(x, ast.Call) and isinstance(x.func, ast.Attribute) and isinstance(x.func.value, ast.Name) \
                            and x.func.value.id == pn and x.func.attr in GROW_METHODS:
                        grown = x
                if grown is not None:
                    sites += 1
                    ctx.fail("R20.9", u, c, f"`{a.id}` is created here and handed to `{norm(c.func)}`, which adds to it (`{norm(grown)}`): "
                             "what is remembered per item is kept for as long as the tool runs", line=c.lineno)
    if not sites:
        ctx.ok("R20.9", "streaming tools", "no container of a streaming tool is filled by a helper it is handed to")


def r20_8(ctx) -> None:
    """tee: what ``Tee.__init__`` builds is evaluated on the object model; the buffers are reachable from the tee
    object only through the shared list a finished child removes its buffer from."""
    from . import objmodel
    ctx.rule("R20.8", "tee: evaluated construction - the tee object refers to the children's buffers only through the "
                      "shared list of live buffers (no second container keeps a finished child's backlog alive)")
    P = c09._params(ctx.unit("itertools.tee_peer"))
    if objmodel.tee_construction(ctx, "R20.8", P, retention=True) is None:
        ctx.note("R20.8: the construction of tee is not evaluable over the object model; R20.2 alone decides tee")


def r20_3(ctx) -> None:
    from asl.inline import private_class_policy
    for short in ("heapq.merge", "heapq._largest"):
        u = ctx.inlined(ctx.unit(short), policy=private_class_policy)  # (the heap may be kept by an object of a private class)
        cfg = cfg_of(u)
        loops = _loops_with_pulls(ctx, u)
        puller = c01.holder_roles(ctx)["puller"].node.name
        from .c05 import refill_holder
        refill = [n for n in cfg.nodes if n.kind == "await" and not n.tag and refill_holder(n, puller) is not None]
        loop_asts = [a for (a, _p) in loops] + [a for r in refill for (k, a) in r.regions if k == "loop"]
        ops = []
        for n in cfg.nodes:
            if n.kind == "call" and not n.tag and any(n.in_region("loop", a) for a in loop_asts):
                name = norm(n.ast.func).split(".")[-1]  # type: ignore[union-attr]
                r_ = ctx.pkg.resolve_expr_global(u.module, n.ast.func)  # (``from heapq import heapreplace as _heapreplace``)
                if r_.kind == "stdlib" and r_.qual.startswith("heapq."):
                    name = r_.qual.split(".")[-1]
                if name in HEAP_GROW | HEAP_KEEP:
                    ops.append((n, name))
        grows = [n for n, name in ops if name in HEAP_GROW]
        ctx.check(bool(ops) and not grows, "R20.3", u, grows[0] if grows else short,
                  "inside the streaming loop the heap is only maintained with heapreplace / heappop "
                  "(size-preserving or shrinking)", node=grows[0] if grows else None,
                  witness=str(sorted({name for _n, name in ops})))
